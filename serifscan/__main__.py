"""CLI:  python -m serifscan check <ID> [--tier quick|thorough] [--repo /repo]
         python -m serifscan replay <replay.json>
         python -m serifscan all [--tier quick]

Exit codes: 0 every rule instance held (known findings printed), 1 VIOLATION,
2 ANALYSIS-ERROR (the engine could not analyse the tree: never a pass).
"""
from __future__ import annotations

import argparse
import importlib
import json
import os
import sys
import time
import traceback

from .core import AnalysisError, load_repo
from .report import Ctx, finish

PROPS = [f"C{i:02d}" for i in range(1, 21)]


def run_rules(prop: str, prog, tier: str, quiet: bool = False) -> Ctx:
    mod = importlib.import_module(f"serifscan.rules.{prop.lower()}")
    ctx = Ctx(prop, prog, tier, quiet)
    mod.run(ctx)
    ctx.check_minimums()
    return ctx


def check(prop: str, tier: str, repo: str, only_key: str | None = None) -> int:
    t0 = time.time()
    seed = int(os.environ.get("VERIF_SEED", "0") or 0)
    try:
        prog = load_repo(repo)
        ctx = run_rules(prop, prog, tier)
        selftest = None
        if tier == "thorough":
            from .selftest import run_selftest
            selftest = run_selftest(prop, prog, ctx, seed)
        if only_key is not None:
            ctx.findings = [f for f in ctx.findings if f.key == only_key]
        return finish(ctx, t0, seed, selftest)
    except AnalysisError as e:
        print(f"ANALYSIS-ERROR property={prop}: {e}")
        return 2
    except Exception:
        print(f"ANALYSIS-ERROR property={prop}: internal error in the checker\n{traceback.format_exc()}")
        return 2


def main(argv=None) -> int:
    ap = argparse.ArgumentParser(prog="serifscan")
    sub = ap.add_subparsers(dest="cmd", required=True)
    c = sub.add_parser("check")
    c.add_argument("prop")
    c.add_argument("--tier", default=os.environ.get("VERIF_TIER", "quick"), choices=["quick", "thorough"])
    c.add_argument("--repo", default=os.environ.get("SERIF_REPO", "/repo"))
    r = sub.add_parser("replay")
    r.add_argument("path")
    r.add_argument("--repo", default=os.environ.get("SERIF_REPO", "/repo"))
    a = sub.add_parser("all")
    a.add_argument("--tier", default="quick", choices=["quick", "thorough"])
    a.add_argument("--repo", default=os.environ.get("SERIF_REPO", "/repo"))
    sub.add_parser("selfcheck")
    args = ap.parse_args(argv)
    if args.cmd == "selfcheck":
        from .selfcheck import selfcheck
        return selfcheck()
    if args.cmd == "check":
        return check(args.prop.upper(), args.tier, args.repo)
    if args.cmd == "replay":
        with open(args.path) as f:
            rp = json.load(f)
        return check(rp["property"], rp.get("tier", "quick"), args.repo, only_key=rp["key"])
    if args.cmd == "all":
        worst = 0
        for p in PROPS:
            if not os.path.exists(os.path.join(os.path.dirname(__file__), "rules", p.lower() + ".py")):
                continue
            rc = check(p, args.tier, args.repo)
            worst = max(worst, rc)
        return worst
    return 2


if __name__ == "__main__":
    sys.exit(main())

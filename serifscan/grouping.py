"""E7 for Table.aggregate / Table.window: structural roles and per-aggregator facts."""
from __future__ import annotations

import ast
from dataclasses import dataclass, field
from typing import Dict, List, Optional, Tuple

from .aggfacts import facts_of
from .astutil import Defs, is_range_of
from .core import AnalysisError, FuncInfo, Program, attr_chain, cshort, kwarg, short, walk_no_nested, walk_stmts

BUILTINS = ("sum", "mean", "min", "max", "count", "stdev")


@dataclass
class AggBlock:
    param: str                      # sum_over ...
    guard: ast.If
    loop: Optional[ast.For]
    loop_var: str = ""
    length_guard: bool = False
    func_node: Optional[ast.AST] = None
    func_source: str = "vals"
    suffix: Optional[str] = None
    facts: dict = field(default_factory=dict)
    call: Optional[ast.Call] = None
    problems: List[str] = field(default_factory=list)
    name_expr: Optional[ast.AST] = None
    data_expr: Optional[ast.AST] = None


class GroupFacts:
    def __init__(self, prog: Program, which: str):
        self.prog = prog
        self.which = which
        self.f: FuncInfo = prog.func(f"table.Table.{which}")
        self.defs = Defs(self.f)
        self.body = [s for s in self.f.body if not (isinstance(s, ast.Expr) and isinstance(s.value, ast.Constant))]
        self.partition_error: Optional[str] = None
        self.result_list = "result_cols"
        for st in reversed(self.body):
            if isinstance(st, ast.Return) and isinstance(st.value, ast.Call) and short(st.value.func) == "Table" and st.value.args \
                    and isinstance(st.value.args[0], ast.Name):
                self.result_list = st.value.args[0].id
                break
        self.nrows = [n for n, lst in self.defs.assigns.items() if any(v is not None and short(v) == "len(self)" for v, _, _ in lst)]
        self.over = self.f.params[1]
        self.group_items: List[str] = []
        self.row_keys: List[str] = []
        self.over_data: List[str] = []
        self.part_loop = None
        try:
            self._partition()
        except AnalysisError as e:
            self.partition_error = str(e)
        self._blocks()

    def _err(self, what):
        raise AnalysisError(f"{self.f.qualname}: grouping structure not recognised - {what}")

    # ------------------------------------------------------------------ partition
    def _partition(self) -> None:
        d = self.defs
        self.nrows = [n for n, lst in d.assigns.items() if any(v is not None and short(v) == "len(self)" for v, _, _ in lst)]
        if not self.nrows:
            self._err("row count `nrows = len(self)` not found")
        self.over = self.f.params[1]
        # partition index: dict filled with one-element lists in a top-level for loop
        self.index_var = None
        self.part_loop = None
        for st in self.body:
            if isinstance(st, ast.For):
                for s in walk_stmts(st.body):
                    if isinstance(s, ast.Assign) and len(s.targets) == 1 and isinstance(s.targets[0], ast.Subscript) \
                            and isinstance(s.targets[0].value, ast.Name) and isinstance(s.value, ast.List) and len(s.value.elts) == 1:
                        cand = s.targets[0].value.id
                        v = d.single(cand)
                        if isinstance(v, ast.Dict) and not v.keys:
                            self.index_var, self.part_loop, self.first_store = cand, st, s
        if self.index_var is None:
            self._err("partition index (dict of row-index lists filled in a loop) not found")
        # group_items = list(index.items())
        self.group_items = [n for n, lst in d.assigns.items()
                            if any(v is not None and short(v) == f"list({self.index_var}.items())" for v, _, _ in lst)]
        # key data: over_data = [c._underlying for c in over]
        self.over_data = [n for n, lst in d.assigns.items()
                          if any(v is not None and cshort(v) == f"[_0._underlying for _0 in {self.over}]" for v, _, _ in lst)]
        self.row_keys = [n for n, lst in d.assigns.items()
                         if any(v is not None and isinstance(v, ast.BinOp) and isinstance(v.op, ast.Mult) and short(v.left) == "[None]"
                                for v, _, _ in lst)]

    def partition_problems(self) -> List[Tuple[str, ast.AST]]:
        probs = []
        if self.partition_error:
            raise AnalysisError(self.partition_error)
        lp = self.part_loop
        r = is_range_of(lp.iter)
        if r is None or short(r) not in self.nrows:
            probs.append((f"the partition loop ranges over `{short(lp.iter)}`, not range(len(self)): rows are skipped or reordered", lp))
        rv = lp.target.id if isinstance(lp.target, ast.Name) else None
        keyst = None
        for s in lp.body:
            if isinstance(s, ast.Assign) and isinstance(s.value, ast.Call) and short(s.value.func) == "tuple" and s.value.args \
                    and isinstance(s.value.args[0], ast.GeneratorExp):
                keyst = s
        if keyst is None:
            probs.append(("the group key is not built as a tuple over the key columns", lp))
            return probs
        g = keyst.value.args[0]
        kv = keyst.targets[0].id
        self.key_var = kv
        gen = g.generators[0]
        ok = False
        if self.over_data and isinstance(gen.iter, ast.Call) and short(gen.iter.func) == "range" and len(gen.iter.args) == 1 and not gen.ifs:
            pk = self.defs.resolve(gen.iter.args[0])
            if short(pk) == f"len({self.over})" and isinstance(gen.target, ast.Name) \
                    and short(g.elt) == f"{self.over_data[0]}[{gen.target.id}][{rv}]":
                ok = True
        if not ok:
            probs.append((f"the group key is `{short(keyst.value, 70)}`, not the row's value of EVERY key column in order", keyst))
        # None is not special-cased in the key
        for n in walk_no_nested(lp):
            if isinstance(n, ast.Compare) and any(isinstance(c, ast.Constant) and c.value is None for c in n.comparators):
                ch = {x.id for x in ast.walk(n.left) if isinstance(x, ast.Name)}
                if kv in ch or (self.over_data and self.over_data[0] in ch):
                    probs.append((f"`{short(n)}` special-cases None in a key component: None is a key like any other", n))
        # bucket discipline
        fs = self.first_store
        if not (short(fs.targets[0].slice) == kv and short(fs.value.elts[0]) == rv):
            probs.append((f"a new group starts as `{short(fs)}`, expected {self.index_var}[{kv}] = [{rv}]", fs))
        apps = [n for n in walk_no_nested(lp) if isinstance(n, ast.Call) and isinstance(n.func, ast.Attribute) and n.func.attr == "append"]
        bucket_apps = [a for a in apps if isinstance(a.func.value, ast.Name)
                       and any(v is not None and short(v) == f"{self.index_var}.get({kv})" for v, _, _ in self.defs.assigns.get(a.func.value.id, []))]
        if len(bucket_apps) != 1 or short(bucket_apps[0].args[0]) != rv:
            probs.append(("a repeated key does not append the row index to its group exactly once", lp))
        # nothing reorders the index / group_items afterwards
        for n in walk_no_nested(self.f.node):
            if isinstance(n, ast.Call) and short(n.func) in ("sorted", "reversed", "set", "frozenset") and n.args:
                names = {x.id for x in ast.walk(n.args[0]) if isinstance(x, ast.Name)}
                if names & ({self.index_var} | set(self.group_items)):
                    probs.append((f"`{short(n, 50)}` reorders the groups: first-appearance order is lost", n))
            if isinstance(n, ast.Call) and isinstance(n.func, ast.Attribute) and n.func.attr in ("sort", "reverse", "pop", "popitem", "clear") \
                    and short(n.func.value) in ([self.index_var] + self.group_items):
                probs.append((f"`{short(n, 50)}` reorders / drops groups", n))
        if not self.group_items:
            probs.append((f"groups are not materialised as list({self.index_var}.items()) (insertion order)", self.f.node))
        # window: row_keys[i] = key in the same iteration
        if self.which == "window":
            rk = [s for s in lp.body if isinstance(s, ast.Assign) and isinstance(s.targets[0], ast.Subscript)
                  and self.row_keys and short(s.targets[0].value) == self.row_keys[0]]
            if not (rk and short(rk[0].targets[0].slice) == rv and short(rk[0].value) == kv):
                probs.append((f"row {rv} does not remember the key it was partitioned under in the same iteration", lp))
        return probs

    # ------------------------------------------------------------------ aggregator blocks
    def _blocks(self) -> None:
        self.blocks: Dict[str, AggBlock] = {}
        self.apply_block: Optional[ast.If] = None
        for st in self.body:
            if not isinstance(st, ast.If):
                continue
            t = st.test
            pname = None
            if isinstance(t, ast.Name) and t.id.endswith("_over"):
                pname = t.id
            elif short(t) in ("apply", "apply is not None"):
                self.apply_block = st
                continue
            if pname is None:
                continue
            b = AggBlock(pname, st, None)
            loops = [s for s in st.body if isinstance(s, ast.For)]
            if len(loops) != 1 or len(st.body) != 1 or st.orelse:
                b.problems.append("block is not a single loop over its parameter")
                self.blocks[pname] = b
                continue
            lp = loops[0]
            b.loop = lp
            if short(lp.iter) != pname or not isinstance(lp.target, ast.Name):
                b.problems.append(f"loop ranges over `{short(lp.iter)}`, not over `{pname}`")
                self.blocks[pname] = b
                continue
            b.loop_var = lp.target.id
            b.length_guard = any(isinstance(s, ast.If) and short(s.test) in (f"len({b.loop_var}) != {n}" for n in self.nrows)
                                 and any(isinstance(x, ast.Raise) for x in s.body) for s in lp.body)
            local_funcs = {s.name: s for s in lp.body if isinstance(s, ast.FunctionDef)}
            if self.which == "aggregate":
                calls = [n for n in walk_no_nested(lp) if isinstance(n, ast.Call) and short(n.func) == "aggregate_col"]
                calls = [c for c in calls if not any(c is x for fn in local_funcs.values() for x in ast.walk(fn))]
                if len(calls) != 1 or len(calls[0].args) != 3:
                    b.problems.append("no single aggregate_col(col, func, suffix) call")
                else:
                    c = calls[0]
                    b.call = c
                    if short(c.args[0]) != b.loop_var:
                        b.problems.append(f"aggregates `{short(c.args[0])}`, not the loop column `{b.loop_var}`")
                    fn = c.args[1]
                    if isinstance(fn, ast.Name) and fn.id in local_funcs:
                        fn = local_funcs[fn.id]
                    b.func_node = fn if isinstance(fn, (ast.Lambda, ast.FunctionDef)) else None
                    b.suffix = c.args[2].value if isinstance(c.args[2], ast.Constant) else None
            else:
                calls = [n for n in walk_no_nested(lp) if isinstance(n, ast.Call) and short(n.func) == "compute_group_values"]
                if len(calls) != 1 or len(calls[0].args) != 2:
                    b.problems.append("no single compute_group_values(col, fn) call")
                else:
                    c = calls[0]
                    b.call = c
                    if short(c.args[0]) != b.loop_var:
                        b.problems.append(f"aggregates `{short(c.args[0])}`, not the loop column `{b.loop_var}`")
                    fn = c.args[1]
                    if isinstance(fn, ast.Name) and fn.id in local_funcs:
                        fn = local_funcs[fn.id]
                    b.func_node = fn if isinstance(fn, (ast.Lambda, ast.FunctionDef)) else None
                    gm = None
                    for s in lp.body:
                        if isinstance(s, ast.Assign) and s.value is c and isinstance(s.targets[0], ast.Name):
                            gm = s.targets[0].id
                    apps = [n for n in walk_no_nested(lp) if isinstance(n, ast.Call) and short(n.func) == f"{self.result_list}.append"]
                    if len(apps) == 1 and isinstance(apps[0].args[0], ast.Call) and short(apps[0].args[0].func) == "Vector":
                        v = apps[0].args[0]
                        b.data_expr = v.args[0] if v.args else None
                        b.name_expr = kwarg(v, "name")
                        if gm is None or short(b.data_expr) != f"expand_to_rows({gm})":
                            b.problems.append(f"the output column is `{short(b.data_expr, 50) if b.data_expr is not None else '?'}`, not "
                                              f"expand_to_rows(<this column's group values>)")
                        ne = b.name_expr
                        if isinstance(ne, ast.Call) and short(ne.func) == "uniquify" and ne.args and isinstance(ne.args[0], ast.Call) \
                                and short(ne.args[0].func) == "sanitize" and len(ne.args[0].args) == 2:
                            if short(ne.args[0].args[0]) != b.loop_var:
                                b.problems.append(f"the output is named after `{short(ne.args[0].args[0])}`, not its own column")
                            b.suffix = ne.args[0].args[1].value if isinstance(ne.args[0].args[1], ast.Constant) else None
                    else:
                        b.problems.append("no single result_cols.append(Vector(expand_to_rows(...), name=...))")
            if b.func_node is not None:
                params = [a.arg for a in b.func_node.args.args]
                b.func_source = params[0] if params else "vals"
                b.facts = facts_of(b.func_node, b.func_source)
            else:
                b.problems.append("aggregator function not found")
            self.blocks[pname] = b

    # ------------------------------------------------------------------ helpers
    def helper(self, name: str) -> FuncInfo:
        return self.prog.nested(self.f.qualname, name)


def vector_reduction_facts(prog: Program, name: str) -> dict:
    f = prog.func(f"vector.Vector.{name}")
    return facts_of(f.node, "self._underlying")

"""E7' for Table.aggregate / Table.window: semantic model read off the symx event log.

  nrows          len(self)
  OVER           [self._resolve_column(c) for c in <over, normalised to a list>]
  key(row)       tuple(<storage of key column k>[row] for every k)         (partition loop: row in range(nrows))
  index          dict: key -> [rows], filled in row order (first sight stores [row], later appends row)
  groups         list(index.items()) / index.items(): (key, rows) in first-appearance order
  RK (window)    row -> key it was partitioned under
  RC             the list handed to Table(...): its elements, in order, are the OUTPUTS

Every output is classified (key column / built-in aggregate of parameter P / apply entry) from the loop it is produced
in, and its data and name terms are decoded: which reducer closure produced the per-group value from which gathered
values, how the value reaches the rows (window), which naming kernel and uniquifier produced the name.
Nothing depends on statement shapes, helper names or local spellings; what is not understood is reported as a
problem of that output (or AnalysisError when the skeleton itself is missing).
"""
from __future__ import annotations

import ast
from dataclasses import dataclass, field
from typing import Dict, List, Optional, Tuple

from .aggfacts import facts_of
from .core import AnalysisError, FuncInfo, Program
from .symx import NONE, Closure, Cond, Event, Interp, Term, callee, const, elements, kw, show, show_conds, subterms

BUILTINS = ("sum", "mean", "min", "max", "count", "stdev")


@dataclass
class Output:
    ev: Event
    vec: Optional[Term]
    data: Optional[Term] = None
    name: Optional[Term] = None
    dtype: Optional[Term] = None
    kind: str = "?"                    # key | builtin | apply | ?
    param: Optional[str] = None
    loop: Optional[int] = None
    col: Optional[Term] = None
    extra: Tuple[Cond, ...] = ()
    length_guard: bool = False
    reducer: Optional[Closure] = None
    reducer_term: Optional[Term] = None
    facts: dict = field(default_factory=dict)
    suffix: Optional[str] = None
    name_base: Optional[Term] = None
    uniq: Optional[Term] = None
    name_keep: Optional[Tuple[Term, Term]] = None      # (condition, name) when the column keeps a name as it is instead of uniquifying
    flow_problems: List[str] = field(default_factory=list)
    problems: List[str] = field(default_factory=list)
    name_facts: Optional[tuple] = None

    @property
    def node(self) -> ast.AST:
        return self.ev.node


class GroupModel:
    def __init__(self, prog: Program, which: str):
        self.prog = prog
        self.which = which
        self.f: FuncInfo = prog.func(f"table.Table.{which}")
        self.S = ("param", self.f.params[0])
        self.over_param = self.f.params[1]
        self.it = Interp(prog, self.f)
        self.nrows = ("call", ("name", "len"), (self.S,), ())
        self.partition_error: Optional[str] = None
        self.index: Optional[Term] = None
        self.part_loop: Optional[int] = None
        self.key: Optional[Term] = None
        self.group_iters: List[Term] = []
        self.RK: Optional[Term] = None
        self._skeleton()
        try:
            self._partition()
        except AnalysisError as e:
            self.partition_error = str(e)
        self._outputs()

    def _err(self, what: str):
        raise AnalysisError(f"{self.f.qualname}: grouping structure not recognised - {what}")

    def sh(self, t, n: int = 150) -> str:
        return show(t, self.it)[:n] if t is not None else "?"

    # ------------------------------------------------------------------ skeleton
    def _skeleton(self) -> None:
        it = self.it
        self.returns = [e for e in it.events if e.kind == "return" and e.depth == 0]
        if not self.returns:
            self._err("no return")
        final = max(self.returns, key=lambda e: e.seq)
        t = final.term
        self.final = final
        self.RC: Optional[Term] = None
        if t[0] == "call" and t[1] == ("name", "Table") and len(t[2]) == 1 and not t[3] and t[2][0][0] == "obj":
            self.RC = t[2][0]
        if self.RC is None:
            self._err(f"the final return is `{self.sh(t)}`, not Table(<list of result columns>)")

    # ------------------------------------------------------------------ partition
    def is_nrows(self, t: Term) -> bool:
        return t == self.nrows or t == ("attr", self.S, "_length")

    def row_loop(self, L: int) -> bool:
        lp = self.it.loops[L]
        return lp.range is not None and lp.range[0] == const(0) and lp.range[2] == const(1) and self.is_nrows(lp.range[1])

    def _partition(self) -> None:
        it = self.it
        cands = []
        for e in it.events:
            if e.kind == "store" and e.term[0] == "sub" and e.term[1][0] == "obj" and it.objs[e.term[1][1]].kind in ("dict", "defaultdict") \
                    and e.loops and e.value[0] == "obj" and it.objs[e.value[1]].kind == "list" and len(it.objs[e.value[1]].init) == 1:
                cands.append((e.term[1], e.term[2], e.loops[0]))
            if e.kind == "call" and e.term[1][0] == "attr" and e.term[1][2] == "setdefault" and e.term[1][1][0] == "obj" \
                    and it.objs[e.term[1][1][1]].kind in ("dict", "defaultdict") and len(e.term[2]) == 2 and e.loops:
                cands.append((e.term[1][1], e.term[2][0], e.loops[0]))
        cands = [c for c in cands if not it.loops[c[2]].parents]
        if len({c[0] for c in cands}) != 1:
            self._err(f"partition index (a dict of row-index lists filled in a row loop) not found ({len({c[0] for c in cands})} candidates)")
        self.index, self.key, self.part_loop = cands[0]
        self.index_events = [e for e in it.events if self._touches_index(e)]
        items = ("call", ("attr", self.index, "items"), (), ())
        self.group_iters = [items]
        for oid, o in it.objs.items():
            if o.kind == "list" and isinstance(o.node, ast.Call) and o.init == (items,):
                self.group_iters.append(("obj", oid))
        # window: the per-row key memo
        for e in it.events:
            if e.kind == "store" and e.term[0] == "sub" and e.value == self.key and self.part_loop in e.loops and e.term[1] != self.index:
                self.RK = e.term[1]
                self.RK_ev = e
            if e.kind == "call" and e.term[1][0] == "attr" and e.term[1][2] == "append" and e.term[2] == (self.key,) \
                    and self.part_loop in e.loops and e.term[1][1][0] == "obj":
                self.RK = e.term[1][1]
                self.RK_ev = e

    def _is_bucket_term(self, t: Term) -> bool:
        if t[0] == "sub" and t[1] == self.index:
            return True
        return t[0] == "call" and t[1][0] == "attr" and t[1][1] == self.index and t[1][2] in ("get", "setdefault", "pop")

    def _touches_index(self, e: Event) -> bool:
        if e.kind in ("store", "del") and e.term[0] == "sub" and e.term[1] == self.index:
            return True
        if e.kind == "call" and e.term[1][0] == "attr":
            recv, m = e.term[1][1], e.term[1][2]
            if recv == self.index and m not in ("get", "items", "keys", "values", "__contains__", "__len__"):
                return True
            if self._is_bucket_term(recv) and m in ("append", "insert", "sort", "reverse", "pop", "remove", "extend", "clear"):
                return True
        return False

    # ---- key decoding -----------------------------------------------------------------
    def over_list(self) -> Optional[Term]:
        """OVER: the list of resolved key columns."""
        it = self.it
        for oid, o in it.objs.items():
            if o.kind != "listcomp":
                continue
            evs = [e for e in it.events if e.kind == "elem" and e.term == ("obj", oid)]
            if len(evs) != 1:
                continue
            v = evs[0].value
            if v[0] == "call" and v[1] == ("attr", self.S, "_resolve_column") and len(v[2]) == 1 and v[2][0][0] == "elem" \
                    and any(t == ("param", self.over_param) for t in subterms(v[2][0][1])) and evs[0].conds == o.conds:
                return ("obj", oid)
        return None

    def keycol_loop(self, t: Term, OVER: Term) -> Optional[int]:
        """t is the storage of (or the vector that is) key column k, k = position of loop L over all key columns -> L."""
        it = self.it
        if t[0] == "attr" and t[2] == "_underlying":
            t = t[1]
            if t[0] == "elem" and t[1] == OVER:
                return t[2]
            return None
        if t[0] == "elem":
            if t[1] == OVER:
                return t[2]
            src = t[1]
            if src[0] == "obj" and it.objs[src[1]].kind == "listcomp":
                evs = [e for e in it.events if e.kind == "elem" and e.term == src]
                if len(evs) == 1 and evs[0].conds == it.objs[src[1]].conds:
                    lps = [L for L in evs[0].loops if L not in it.objs[src[1]].loops]
                    if len(lps) == 1 and it.loops[lps[0]].iter == OVER \
                            and evs[0].value == ("attr", ("elem", OVER, lps[0]), "_underlying"):
                        return t[2]
        return None

    def partition_problems(self) -> List[Tuple[str, ast.AST]]:
        if self.partition_error:
            raise AnalysisError(self.partition_error)
        it = self.it
        probs: List[Tuple[str, ast.AST]] = []
        lp = it.loops[self.part_loop]
        row = ("idx", lp.id)
        if not self.row_loop(lp.id) or lp.kind != "for":
            probs.append((f"the partition loop ranges over `{self.sh(lp.iter)}`, not range(len(self)): rows are skipped or reordered", lp.node))
        OVER = self.over_list()
        if OVER is None:
            probs.append(("the partition keys are not resolved one by one through self._resolve_column", self.f.node))
        # key = tuple(<key column k>[row] for every k)
        K = self.key
        okk = False
        detail = self.sh(K, 90)
        if OVER is not None and K[0] == "call" and K[1] == ("name", "tuple") and len(K[2]) == 1 and K[2][0][0] == "obj":
            g = K[2][0]
            evs = [e for e in it.events if e.kind == "elem" and e.term == g]
            o = it.objs[g[1]]
            if len(evs) == 1:
                e = evs[0]
                lps = [L for L in e.loops if L not in o.loops]
                v = e.value
                if len(lps) == 1 and e.conds == o.conds and v[0] == "sub" and v[2] == row:
                    Lk = self.keycol_loop(v[1], OVER)
                    if Lk == lps[0]:
                        kl = it.loops[Lk]
                        covers = (kl.range is None and kl.iter is not None and it.same_length(kl.iter, OVER)) or \
                                 (kl.range is not None and kl.range[0] == const(0) and kl.range[2] == const(1)
                                  and kl.range[1][0] == "call" and kl.range[1][1] == ("name", "len") and it.same_length(kl.range[1][2][0], OVER))
                        okk = bool(covers)
                elif e.conds != o.conds:
                    detail += f" [components filtered by `{show_conds(e.conds[len(o.conds):], it)[:60]}`]"
        if not okk:
            probs.append((f"the group key is `{detail}`, not the row's value of EVERY key column in order (None is a key like any other)",
                          lp.node))
        # None / special values are not special-cased around the key: bucket updates are unconditional apart from first sight
        stores = [e for e in self.index_events if e.kind == "store"]
        appends = [e for e in self.index_events if e.kind == "call" and e.term[1][2] == "append" and self._is_bucket_term(e.term[1][1])]
        others = [e for e in self.index_events if e not in stores and e not in appends
                  and not (e.kind == "call" and e.term[1][1] == self.index and e.term[1][2] == "setdefault")]
        for e in others:
            probs.append((f"`{self.sh(e.term, 60)}` reorders / drops groups or rows of a group", e.node))
        for e in self.index_events:
            if lp.id not in e.loops:
                probs.append((f"the partition index is modified outside the partition loop (`{self.sh(e.term, 60)}`)", e.node))

        def inside(e):
            return tuple(e.conds[len(lp.conds):])
        sd = [a for a in appends if a.term[1][1][0] == "call" and a.term[1][1][1][2] == "setdefault"]
        if sd and not stores:
            a = appends[0]
            if len(appends) != 1 or a.term[2] != (row,) or a.term[1][1][2][0] != K or inside(a):
                probs.append(("a row is not appended to the group of its own key exactly once, unconditionally", a.node))
        elif len(stores) == 1 and len(appends) == 1:
            s_, a = stores[0], appends[0]
            if not (s_.term[2] == K and it.objs[s_.value[1]].init == (row,)):
                probs.append((f"a new group starts as `{self.sh(s_.term, 40)} = {self.sh(s_.value, 30)}`, expected index[key] = [row]", s_.node))
            if a.term[2] != (row,) or not (a.term[1][1][0] in ("call", "sub") and K in (a.term[1][1][2] if a.term[1][1][0] == "call" else (a.term[1][1][2],))):
                probs.append(("a repeated key does not append the row index to its own group exactly once", a.node))
            c1, c2 = inside(s_), inside(a)
            if not (len(c1) == 1 and len(c2) == 1 and c1[0][0] == c2[0][0] and c1[0][1] != c2[0][1] and self._first_sight(c1[0])):
                probs.append((f"rows are added to their group only under `{show_conds(c1, it)[:70]}` / `{show_conds(c2, it)[:70]}`: expected "
                              f"exactly the first-sight split (key has no group yet / has one) - None is not special-cased", s_.node))
        else:
            probs.append((f"expected one first-sight store and one append per row in the partition loop, found {len(stores)} / {len(appends)}",
                          lp.node))
        if lp.breaks or lp.returns:
            probs.append(("break/return in the partition loop: later rows are not grouped", lp.node))
        # nothing reorders the groups afterwards
        for e in it.events:
            if e.kind == "call" and callee(e.term) in ("sorted", "reversed", "set", "frozenset") and e.term[2]:
                if any(t == self.index or t in self.group_iters for t in subterms(e.term[2][0])):
                    probs.append((f"`{self.sh(e.term, 50)}` reorders the groups: first-appearance order is lost", e.node))
            if e.kind == "call" and e.term[1][0] == "attr" and e.term[1][1] in self.group_iters \
                    and e.term[1][2] in ("sort", "reverse", "pop", "popitem", "clear", "remove", "insert"):
                probs.append((f"`{self.sh(e.term, 50)}` reorders / drops groups", e.node))
        if self.which == "window":
            if self.RK is None:
                probs.append((f"row @{lp.id} does not remember the key it was partitioned under in the same iteration", lp.node))
            else:
                e = self.RK_ev
                ok = not inside(e) and (e.kind == "call" or e.term[2] == row)
                if not ok:
                    probs.append(("the per-row key memo is not written for every row at its own position", e.node))
        seen = set()
        return [p for p in probs if not (p[0] in seen or seen.add(p[0]))]

    def _first_sight(self, c: Cond) -> bool:
        t, pol = c
        if t[0] == "cmp" and t[1] == "Is" and t[3] == NONE and pol:
            b = t[2]
            return b[0] == "call" and b[1] == ("attr", self.index, "get") and b[2] == (self.key,)
        if t[0] == "cmp" and t[1] == "In" and t[3] == self.index and not pol:
            return t[2] == self.key
        if t[0] == "call" and t[1] == ("attr", self.index, "get") and t[2] == (self.key,) and not pol:
            return True
        return False

    # ---- groups ---------------------------------------------------------------------------
    def group_loop(self, L: int) -> bool:
        lp = self.it.loops[L]
        return lp.iter is not None and lp.iter in self.group_iters

    def group_key(self, L: int) -> List[Term]:
        lp = self.it.loops[L]
        return [("key", self.index, L), ("sub", ("elem", lp.iter, L), const(0))]

    def group_rows(self, L: int) -> List[Term]:
        lp = self.it.loops[L]
        return [("val", self.index, L), ("sub", ("elem", lp.iter, L), const(1))]

    # ------------------------------------------------------------------ outputs
    def _outputs(self) -> None:
        it = self.it
        rc = self.RC
        o = it.objs[rc[1]]
        self.outputs: List[Output] = []
        self.rc_problems: List[Tuple[str, ast.AST]] = []
        if o.init:
            self.rc_problems.append(("the result column list does not start empty", o.node))
        for e in it.events:
            if e.kind == "call" and e.term[1][0] == "attr" and e.term[1][1] == rc and e.term[1][2] != "append":
                self.rc_problems.append((f"the result column list is modified by .{e.term[1][2]}()", e.node))
        for e in elements(it, rc):
            v = e.value if e.kind == "elem" else (e.term[2][0] if e.kind == "call" and len(e.term[2]) == 1 else None)
            out = Output(e, v)
            self.outputs.append(out)
            if v is None or not (v[0] == "call" and v[1] == ("name", "Vector")):
                out.problems.append(f"a result column is `{self.sh(v, 60)}`, not a Vector(...)")
                continue
            out.data = v[2][0] if v[2] else kw(v, "initial")
            out.name = kw(v, "name") if kw(v, "name") is not None else (v[2][2] if len(v[2]) >= 3 else None)
            out.dtype = kw(v, "dtype") if kw(v, "dtype") is not None else (v[2][1] if len(v[2]) >= 2 else None)
            self._classify(out)
            self._decode_name(out)
            if out.kind in ("builtin", "apply"):
                self._decode_value(out)

    def _params_in(self, t: Term, depth: int = 0) -> List[str]:
        """Parameters (<x>_over / apply / over) a column-list term is computed from (looking through comprehensions)."""
        it = self.it
        names: List[str] = []

        def add(n):
            if n not in names:
                names.append(n)
        for x in subterms(t):
            if x[0] == "param" and (x[1].endswith("_over") or x[1] in ("apply", self.over_param)):
                add(x[1])
            elif x[0] == "obj" and depth < 4:
                o = it.objs[x[1]]
                for i in o.init:
                    for n in self._params_in(i, depth + 1):
                        add(n)
                for e in it.events:
                    if e.kind == "elem" and e.term == x:
                        for L in e.loops:
                            if L not in o.loops and it.loops[L].iter is not None:
                                for n in self._params_in(it.loops[L].iter, depth + 1):
                                    add(n)
        return names

    def _classify(self, out: Output) -> None:
        it = self.it
        e = out.ev
        own = [L for L in e.loops if it.loops[L].kind != "comp" or L in e.loops]
        if not e.loops:
            out.problems.append("the column is not produced in a loop over the columns of one parameter")
            out.extra = tuple(e.conds)
            return
        L = e.loops[0]
        lp = it.loops[L]
        out.loop = L
        src = lp.domain if (lp.domain is not None and lp.domain[0] != "tuple") else lp.iter
        names = self._params_in(src) if src is not None else []
        guard_terms = [src]
        if len(names) == 1 and names[0] == self.over_param:
            out.kind, out.param = "key", names[0]
            out.col = ("elem", src, L)
        elif len(names) == 1 and names[0] == "apply":
            out.kind, out.param = "apply", "apply"
            guard_terms.append(("param", "apply"))
        elif len(names) == 1:
            out.kind, out.param = "builtin", names[0]
            out.col = ("elem", src, L)
            guard_terms.append(("param", names[0]))
        else:
            out.problems.append(f"the column is produced in a loop over `{self.sh(src, 60)}` (parameters {names})")
        if len(e.loops) != 1:
            out.problems.append("the output column is added inside a nested loop (more than once per input column)")
        # conditions: the parameter guard and the (negated) length guard are expected, anything else is extra
        extra = []
        for c, pol in e.conds:
            if c in guard_terms and pol:
                continue
            if c[0] == "cmp" and c[1] == "Is" and c[2] in guard_terms and c[3] == NONE and not pol:
                continue
            if c[0] == "cmp" and c[1] == "Eq" and pol and self._is_len_vs_nrows(c):
                continue
            if c[0] == "call" and c[1] == ("name", "isinstance"):
                continue            # normalisation of the parameter (single column vs list)
            extra.append((c, pol))
        out.extra = tuple(extra)

    def _is_len_vs_nrows(self, c: Term) -> bool:
        a, b = c[2], c[3]
        for x, y in ((a, b), (b, a)):
            if self.is_nrows(y) and x[0] == "call" and x[1] == ("name", "len") and len(x[2]) == 1:
                return True
        return False

    def length_guarded(self, col: Term, before_seq: int, L: int) -> bool:
        """A raise under `len(col) != nrows` in loop L before event `before_seq`."""
        for e in self.it.events:
            if e.kind == "raise" and e.seq < before_seq and L in e.loops and e.conds:
                c, pol = e.conds[-1]
                if c[0] == "cmp" and c[1] == "Eq" and not pol:
                    for x, y in ((c[2], c[3]), (c[3], c[2])):
                        if self.is_nrows(y) and x == ("call", ("name", "len"), (col,), ()):
                            return True
        return False

    # ---- names ------------------------------------------------------------------------------
    def uniq_call(self, t: Term):
        """(identity of the uniquifier, base name) if t is the call of a uniquifier: a local closure `uniquify(name)` that loops until
        the name is free (its set of used names is a variable of the enclosing function), or a later module-level helper / method of
        that kind taking the set as its second argument (`_uniquify_name(name, used_names)`: the identity includes WHICH set)."""
        it = self.it
        if t[0] != "call" or t[3]:
            return None
        if t[1][0] == "lam" and len(t[2]) == 1 and it.atomic_closure(it.closures[t[1][1]]):
            return t[1], t[2][0]
        if t[1][0] in ("name", "attr") and len(t[2]) == 2 and t[2][1][0] == "obj" and it.objs[t[2][1][1]].kind == "set":
            fn = it.resolve_function(t[1])
            if fn is not None and it.inline(fn) and it.atomic_function(fn):
                return ("fn", fn.qualname, t[2][1]), t[2][0]
        return None

    def uniq_function(self, uid):
        """the FuncInfo of a uniquifier identity (closure or package function)"""
        if uid[0] == "lam":
            return self.it.closures[uid[1]].finfo
        return self.prog.functions.get(uid[1])

    def _decode_name(self, out: Output) -> None:
        it = self.it
        nm = out.name
        if nm is None:
            out.problems.append("the output column has no name")
            return
        is_uniq = lambda t: self.uniq_call(t) is not None
        if is_uniq(nm):
            out.uniq, out.name_base = self.uniq_call(nm)
        elif nm[0] == "ifexp" and is_uniq(nm[3]):
            # <name kept as it is> if <condition> else uniquify(<base>): judged by the key-column rule
            out.uniq, out.name_base = self.uniq_call(nm[3])
            out.name_keep = (nm[1], nm[2])
        elif out.kind == "key" or any(is_uniq(x) for x in subterms(nm)):
            # a name chosen by cases (kept as it is / uniquified): judged by the key-column rule, which evaluates the cases
            uq = [x for x in subterms(nm) if is_uniq(x)]
            out.uniq = self.uniq_call(uq[0])[0] if uq else None
            out.name_base = nm
            out.name_keep = (nm, nm)
        else:
            out.problems.append(f"output name `{self.sh(nm, 60)}` does not pass through the uniquifier")
            out.name_base = nm

    def name_kernel_facts(self, out: Output) -> Optional[tuple]:
        """(base from own column's stored name or 'col', sanitised, fallback 'col', format f'{s}_{suffix}', suffix)."""
        b = out.name_base
        if b is None or out.col is None:
            return None
        col = out.col
        own_name = ("attr", col, "_name")
        subs = list(subterms(b))
        base_ok = any(t == ("bool", "or", (own_name, const("col"))) or
                      (t[0] == "ifexp" and own_name in t[1:] and const("col") in t[1:]) for t in subs)
        san_calls = [t for t in subs if t[0] == "call" and t[1] == ("name", "_sanitize_user_name")]
        san_ok = bool(san_calls) and all(own_name in list(subterms(t)) for t in san_calls)
        other_cols = [t for t in subs if t[0] == "attr" and t[2] == "_name" and t != own_name]
        fallback_ok = False
        fmt_ok = False
        suffix = None
        if b[0] == "fstr" and len(b[1]) == 3 and b[1][1] == const("_") and b[1][0][0] == "fmt" and b[1][2][0] == "fmt" \
                and b[1][0][2] == -1 and b[1][0][3] == NONE and b[1][2][2] == -1:
            fmt_ok = True
            s = b[1][0][1]
            sfx = b[1][2][1]
            suffix = sfx[2] if sfx[0] == "const" else None
            fallback_ok = (s[0] == "bool" and s[1] == "or" and len(s[2]) == 2 and s[2][0] in san_calls and s[2][1] == const("col")) or \
                          (s[0] == "ifexp" and s[1] == ("cmp", "Is", san_calls[0] if san_calls else NONE, NONE) and s[2] == const("col")
                           and s[3] in san_calls)
        elif b[0] == "fstr" and len(b[1]) == 2 and b[1][0][0] == "fmt" and b[1][1][0] == "const" and str(b[1][1][2]).startswith("_"):
            fmt_ok = True
            suffix = b[1][1][2][1:]
            s = b[1][0][1]
            fallback_ok = (s[0] == "bool" and s[1] == "or" and len(s[2]) == 2 and s[2][0] in san_calls and s[2][1] == const("col")) or \
                          (s[0] == "ifexp" and s[1] == ("cmp", "Is", san_calls[0] if san_calls else NONE, NONE) and s[2] == const("col")
                           and s[3] in san_calls)
        return (base_ok, san_ok and not other_cols, fallback_ok, fmt_ok, suffix)

    # ---- values -------------------------------------------------------------------------------
    def _gather_of(self, vals: Term, col_data: List[Term], Lg: int) -> Optional[str]:
        """None if `vals` is [data[i] for i in rows(group Lg)] (every row of the group, row order, no filter); else what is wrong."""
        it = self.it
        if vals[0] != "obj" or it.objs[vals[1]].kind not in ("listcomp", "list"):
            return f"the values handed to the aggregate function are `{self.sh(vals, 60)}`, not a list gathered from the group's rows"
        evs = elements(it, vals)
        o = it.objs[vals[1]]
        if len(evs) != 1 or o.init:
            return "the group's values are not gathered by one pass over the group's rows"
        e = evs[0]
        v = e.value if e.kind == "elem" else (e.term[2][0] if e.term[2] else None)
        lps = [L for L in e.loops if L not in o.loops]
        if len(lps) != 1:
            return "the group's values are not gathered by one pass over the group's rows"
        Lv = lps[0]
        rows = self.group_rows(Lg)
        if it.loops[Lv].iter not in rows:
            return f"values are gathered over `{self.sh(it.loops[Lv].iter, 50)}`, not over all row indices of the group in stored order"
        if e.conds[len(o.conds):]:
            return f"values are filtered by `{show_conds(e.conds[len(o.conds):], it)[:60]}` before the aggregate function sees them"
        ok = v is not None and v[0] == "sub" and v[1] in col_data and v[2] == ("elem", it.loops[Lv].iter, Lv)
        if not ok:
            return f"gathered element is `{self.sh(v, 60)}`, not the aggregated column's own value at the group's row"
        return None

    def _decode_value(self, out: Output) -> None:
        it = self.it
        e = out.ev
        L = out.loop
        if out.kind == "apply":
            lp = it.loops[L]
            val = ("val", ("param", "apply"), L)
            spec, fn = ("sub", val, const(0)), ("sub", val, const(1))
            out.col = ("call", ("attr", self.S, "_resolve_column"), (spec,), ())
            out.reducer_term = fn
            if not any(ev.kind == "call" and ev.term == out.col and L in ev.loops for ev in it.events):
                out.flow_problems.append("the apply column is not resolved through self._resolve_column(<the entry's column spec>)")
        col = out.col
        out.length_guard = self.length_guarded(col, e.seq, L)
        col_data = [("attr", col, "_underlying"), col]
        data = out.data
        per_group_value: Optional[Term] = None
        Lg: Optional[int] = None
        if self.which == "aggregate":
            # data: list with one element per group, in group order
            if data is None or data[0] != "obj":
                out.flow_problems.append(f"the output column holds `{self.sh(data, 60)}`, not a list with one value per group")
                return
            evs = elements(it, data)
            if len(evs) != 1 or it.objs[data[1]].init:
                out.flow_problems.append(f"not exactly one result per group ({len(evs)} fill sites)")
                return
            ge = evs[0]
            lps = [x for x in ge.loops if x not in e.loops]
            if len(lps) != 1 or not self.group_loop(lps[0]):
                out.flow_problems.append("the per-group values are not produced by one pass over the groups in first-appearance order")
                return
            Lg = lps[0]
            if ge.conds[len(e.conds):] and tuple(ge.conds[:len(e.conds)]) == tuple(e.conds):
                out.flow_problems.append(f"a group's value is recorded only under `{show_conds(ge.conds[len(e.conds):], it)[:60]}`")
            per_group_value = ge.value if ge.kind == "elem" else (ge.term[2][0] if ge.term[2] else None)
        else:
            # data: [GM[RK[i]] for i in rows]
            if data is None or data[0] != "obj" or it.objs[data[1]].kind not in ("listcomp", "list"):
                out.flow_problems.append(f"the output column holds `{self.sh(data, 60)}`, not one value per row looked up by the row's group key")
                return
            evs = elements(it, data)
            if len(evs) != 1 or it.objs[data[1]].init:
                out.flow_problems.append("the output is not filled by one pass over the rows")
                return
            re_ = evs[0]
            lps = [x for x in re_.loops if x not in e.loops]
            v = re_.value if re_.kind == "elem" else (re_.term[2][0] if re_.term[2] else None)
            okrow = False
            GM = None
            if len(lps) == 1 and v is not None and v[0] == "sub" and self.RK is not None:
                Li = lps[0]
                lpi = it.loops[Li]
                rk = v[2]
                covers = self.row_loop(Li) or lpi.iter == self.RK
                if covers and rk in (("sub", self.RK, ("idx", Li)), ("elem", self.RK, Li)) and not re_.conds[len(it.objs[data[1]].conds):]:
                    okrow = True
                    GM = v[1]
            if not okrow:
                out.flow_problems.append(f"row values are `{self.sh(v, 70)}`: expected group_map[<the key row i was partitioned under>] for every "
                                         f"row i in row order")
                return
            if GM[0] != "obj":
                out.flow_problems.append(f"group values come from `{self.sh(GM, 50)}`, not from a map built for this column")
                return
            gevs = elements(it, GM)
            if len(gevs) != 1 or it.objs[GM[1]].init:
                out.flow_problems.append(f"the group map is filled at {len(gevs)} sites (expected one entry per group, fresh per column)")
                return
            ge = gevs[0]
            lps = [x for x in ge.loops if x not in e.loops]
            if len(lps) != 1 or not self.group_loop(lps[0]):
                out.flow_problems.append("the group map is not filled by one pass over the groups")
                return
            Lg = lps[0]
            if ge.kind == "store":
                k, per_group_value = ge.term[2], ge.value
            elif ge.kind == "elem" and ge.value[0] == "tuple" and len(ge.value[1]) == 2:
                k, per_group_value = ge.value[1]
            else:
                out.flow_problems.append("the group map entry is not key -> value")
                return
            if k not in self.group_key(Lg):
                out.flow_problems.append(f"the group map is keyed by `{self.sh(k, 50)}`, not by the group's key")
            extra = ge.conds[len(e.conds):] if tuple(ge.conds[:len(e.conds)]) == tuple(e.conds) else ()
            if extra:
                out.flow_problems.append(f"a group's value is recorded only under `{show_conds(extra, it)[:60]}`")
            created = it.objs[GM[1]]
            if L not in created.loops:
                out.flow_problems.append("the group map does not start empty for every aggregated column")
        # per_group_value must be reducer(gathered values)
        red_ev = None

        def reducer_of(ev):
            """the function evaluated in line by ev: a local closure, or a module-level function introduced after the reference tree"""
            if ev.term[1][0] == "lam":
                return it.closures[ev.term[1][1]]
            if ev.term[1][0] == "name" and ev.term[1][1] in self.prog.functions:
                return self.prog.functions[ev.term[1][1]]
            return None
        def bound_args(ev):
            """a reducer made with functools.partial - partial(extreme, min)(values) is evaluated in line as extreme(min, values): the
            arguments before the gathered values must be builtins (min, max, ...) or constants"""
            return all(a[0] == "const" or (a[0] == "name" and a[1] in ("min", "max", "sum", "len", "any", "all")) for a in ev.term[2][:-1])
        for ev in it.events:
            if ev.kind == "inline" and Lg in ev.loops and ev.value == per_group_value and len(ev.term[2]) >= 1 and not ev.term[3] \
                    and bound_args(ev) and reducer_of(ev) is not None:
                if self._gather_of(ev.term[2][-1], col_data, Lg) is None or red_ev is None:
                    red_ev = ev
        if red_ev is not None:
            out.reducer = reducer_of(red_ev)
            out.reducer_term = red_ev.term[1]
            why = self._gather_of(red_ev.term[2][-1], col_data, Lg)
            if why:
                out.flow_problems.append(why)
            node = out.reducer.node
            params = [a.arg for a in node.args.args]
            k_vals = len(red_ev.term[2]) - 1
            binds = dict(self._bindings(out.reducer))
            for p_, a_ in zip(params[:k_vals], red_ev.term[2][:k_vals]):
                binds[p_] = ast.Name(id=a_[1], ctx=ast.Load()) if a_[0] == "name" else ast.Constant(value=a_[2])
            out.facts = facts_of(node, params[k_vals] if len(params) > k_vals else "vals", self._helpers(), binds)
        elif per_group_value is not None and per_group_value[0] == "call" and len(per_group_value[2]) == 1 and not per_group_value[3] \
                and (out.kind == "apply" and per_group_value[1] == out.reducer_term):
            why = self._gather_of(per_group_value[2][0], col_data, Lg)
            if why:
                out.flow_problems.append(why)
        else:
            inl = [ev for ev in it.events if ev.kind == "inline" and Lg in ev.loops and ev.term[1][0] == "lam" and len(ev.term[2]) == 1
                   and self._gather_of(ev.term[2][0], col_data, Lg) is None]
            if inl:
                out.reducer = it.closures[inl[0].term[1][1]]
                node = out.reducer.node
                params = [a.arg for a in node.args.args]
                out.facts = facts_of(node, params[0] if params else "vals", self._helpers(), self._bindings(out.reducer))
                out.flow_problems.append(f"the value recorded for a group is `{self.sh(per_group_value, 70)}`, not the aggregate function's result "
                                         f"itself (a pass-through of the group's own value would leak a None)")
            else:
                out.flow_problems.append(f"the value recorded for a group is `{self.sh(per_group_value, 70)}`: no aggregate function applied to the "
                                         f"group's gathered values was found")

    def _helpers(self):
        """single-expression helpers a reducer may call: functions nested in the analysed function and module-level functions"""
        out = {}
        for q, g in self.prog.functions.items():
            if isinstance(g.node, ast.Lambda) or not isinstance(g.node, ast.FunctionDef):
                continue
            if q.startswith(self.f.qualname + ".<locals>.") or (g.parent is None and g.cls is None and g.module == self.f.module):
                out.setdefault(g.name, g.node)
        return out

    def _bindings(self, reducer):
        """free variables of a reducer closure that a factory bound to a builtin (extreme_func(min) -> pick = min)"""
        out = {}
        fr = getattr(reducer, "frame", None)
        node = getattr(reducer, "node", None)
        if fr is None or node is None:
            return out
        own = {a.arg for a in node.args.args}
        used = {n.id for n in ast.walk(node) if isinstance(n, ast.Name)} - own
        while fr is not None:
            for name in used:
                t = fr.env.get(name)
                if name not in out and t is not None and t[0] == "name" and t[1] in ("min", "max", "sum", "len", "any", "all"):
                    out[name] = ast.Name(id=t[1], ctx=ast.Load())
            fr = fr.parent
        return out

    # ------------------------------------------------------------------ conveniences
    def builtin_outputs(self) -> Dict[str, List[Output]]:
        d: Dict[str, List[Output]] = {}
        for o in self.outputs:
            if o.kind == "builtin":
                d.setdefault(o.param, []).append(o)
        return d

    def key_outputs(self) -> List[Output]:
        return [o for o in self.outputs if o.kind == "key"]

    def apply_outputs(self) -> List[Output]:
        return [o for o in self.outputs if o.kind == "apply"]

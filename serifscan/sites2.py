"""E5' - construction sites on the symx event log.

Every `Vector(...)` / `_Int(...)`.. / `cls(...)` / `Table(...)` / `<x>.copy(...)` call EVENT of every function of the package,
with the data / dtype / name TERMS (copy propagation, inlined helpers and closures, comprehension == append loop are
already taken care of by symx).  A site inside a helper that is not part of the reference vocabulary is seen in the
context of each caller (concrete argument terms); analysed on its own, its parameters are PARAM data ("checked at the
callers").

Data classes (computed on terms):
    SAME(obj, how)       identity / slice / filter / filter-not-none / permutation / gather / mask of obj's own elements
    FILL(obj, v)         `v if x is None else x` over obj's elements
    bool-valued / never-None element terms, vector-valued elements (table construction), PARAM(p), COMPUTED
"""
from __future__ import annotations

import ast
from dataclasses import dataclass
from typing import Dict, List, Optional, Tuple

from .core import AnalysisError, FuncInfo, Program
from .symx import NONE, Event, Interp, Term, const, elements, flatten_conds, kw, show, single_element, subterms

CTOR_PARAMS = ["initial", "dtype", "name", "as_row"]
CTORS = ("Vector", "Table", "_Int", "_Float", "_String", "_Date")


@dataclass
class Site2:
    it: Interp
    ev: Event
    top: FuncInfo
    qual: str
    kind: str                     # Vector | cls | Table | copy
    recv: Optional[Term]
    data: Optional[Term]
    dtype: Optional[Term]
    name: Optional[Term]
    name_given: bool

    @property
    def node(self) -> ast.AST:
        return self.ev.node

    @property
    def call(self) -> Term:
        return self.ev.term

    def sh(self, t, n: int = 70) -> str:
        return show(t, self.it)[:n] if t is not None else "-"

    @property
    def func(self) -> FuncInfo:
        f = self.it.prog.functions.get(self.qual)
        return f if f is not None else self.top


_CACHE: Dict[int, Tuple[List[Site2], Dict[str, Interp]]] = {}


def interp_of(prog: Program, f: FuncInfo) -> Interp:
    all_sites2(prog)
    d = _CACHE[id(prog)][1]
    if f.qualname not in d:
        d[f.qualname] = Interp(prog, f)
    return d[f.qualname]


def all_sites2(prog: Program) -> List[Site2]:
    c = _CACHE.get(id(prog))
    if c is not None:
        return c[0]
    from .symx import baseline_functions
    out: List[Site2] = []
    interps: Dict[str, Interp] = {}
    base = baseline_functions()
    funcs = [f for f in prog.functions.values() if not isinstance(f.node, ast.Lambda)]
    # functions of the reference vocabulary first; a helper introduced later is judged in the context of its callers (where it
    # is evaluated in line) - and on its own only if nothing evaluates it in line
    funcs.sort(key=lambda f: (f.qualname not in base, f.qualname))
    inlined = set()
    for f in funcs:
        q = f.qualname
        if q not in base and q in inlined:
            continue
        it = Interp(prog, f)
        interps[q] = it
        for e in it.events:
            if e.kind == "inline":
                if e.term[1][0] == "name":
                    inlined.add(e.term[1][1])
                elif e.term[1][0] == "lam" and it.closures[e.term[1][1]].finfo is not None:
                    inlined.add(it.closures[e.term[1][1]].finfo.qualname)
        for e in it.events:
            if e.kind != "call":
                continue
            t = e.term
            fn = t[1]
            kind = None
            recv = None
            if fn[0] == "name" and fn[1] in CTORS:
                kind = fn[1] if fn[1] in ("Vector", "Table") else "Vector"
            elif fn == ("param", "cls") or fn == ("name", "cls"):
                owner = prog.functions.get(e.func)
                if owner is not None and owner.cls and "classmethod" in owner.decorators:
                    kind = "cls"
            elif fn[0] == "attr" and fn[2] == "copy":
                if _is_container(it, fn[1]):
                    continue
                kind, recv = "copy", fn[1]
            if kind is None:
                continue
            if kind == "copy":
                data = t[2][0] if t[2] else kw(t, "new_values")
                name = kw(t, "name") if kw(t, "name") is not None else (t[2][1] if len(t[2]) > 1 else None)
                out.append(Site2(it, e, f, e.func, kind, recv, data, None, name, name is not None))
            else:
                vals: Dict[str, Term] = {}
                for i, a in enumerate(t[2]):
                    if i < len(CTOR_PARAMS):
                        vals[CTOR_PARAMS[i]] = a
                for k, v in t[3]:
                    vals[k] = v
                out.append(Site2(it, e, f, e.func, kind, None, vals.get("initial"), vals.get("dtype"), vals.get("name"), "name" in vals))
    _CACHE.clear()
    _CACHE[id(prog)] = (out, interps)
    return out


def standalone_interps(prog: Program) -> Dict[str, Interp]:
    """qualname -> event log of every function that is analysed on its own: the functions of the reference vocabulary and the
    later helpers that nothing evaluates in line (a helper evaluated in line is judged in its callers' logs)."""
    all_sites2(prog)
    return _CACHE[id(prog)][1]


def _is_container(it: Interp, t: Term) -> bool:
    """receiver of .copy() that is a dict / list / set object of the function (not a vector)"""
    return t[0] == "obj" and it.objs[t[1]].kind in ("dict", "list", "set", "defaultdict", "OrderedDict")


# ---------------------------------------------------------------------------------------------
# term recognisers
# ---------------------------------------------------------------------------------------------
def leaves(t: Optional[Term]) -> List[Term]:
    """Alternatives of a value selected by conditionals."""
    if t is None:
        return []
    if t[0] == "ifexp":
        return leaves(t[2]) + leaves(t[3])
    if t[0] == "phi":
        return [y for x in t[1] for y in leaves(x)]
    return [t]


def leaves_with_conds(t: Optional[Term], conds: tuple = ()) -> List[Tuple[Term, tuple]]:
    """Alternatives of a value selected by conditionals, each with the (flattened) conditions that select it."""
    if t is None:
        return []
    if t[0] == "ifexp":
        return leaves_with_conds(t[2], conds + ((t[1], True),)) + leaves_with_conds(t[3], conds + ((t[1], False),))
    return [(t, tuple(flatten_conds(conds)))]


def strip_seq(it: Interp, t: Term) -> Term:
    """Remove tuple()/list() wrappers."""
    while True:
        if t[0] == "call" and t[1] in (("name", "tuple"), ("name", "list")) and len(t[2]) == 1 and not t[3]:
            t = t[2][0]
        elif t[0] == "obj" and it.objs[t[1]].kind == "list" and isinstance(it.objs[t[1]].node, ast.Call) and len(it.objs[t[1]].init) == 1 \
                and not it._mutated(t):
            t = it.objs[t[1]].init[0]
        else:
            return t


def storage_owner(t: Term) -> Optional[Term]:
    """obj if t is obj._underlying (or a vector-like term iterated directly: a parameter or a column element)."""
    if t[0] == "attr" and t[2] == "_underlying":
        return t[1]
    if t[0] == "param":
        return t
    return None


def comp_parts(it: Interp, t: Term):
    """(loops, extra conds, element value, event) of a comprehension / single-fill buffer, looking through tuple()/list()."""
    t = strip_seq(it, t)
    if t[0] != "obj" or it.objs[t[1]].kind not in ("listcomp", "genexp", "list", "setcomp"):
        return None
    return single_element(it, t)


def same_elements_of(it: Interp, t: Term, depth: int = 0) -> Optional[Tuple[Term, str]]:
    """(obj, how) if t denotes a sequence made only of elements of obj's storage."""
    if depth > 6:
        return None
    t = strip_seq(it, t)
    o = storage_owner(t) if t[0] == "attr" else None
    if o is not None:
        return (o, "identity")
    if t[0] == "sub":
        inner = t[1]
        if inner[0] == "attr" and inner[2] == "_underlying":
            return (inner[1], "slice/index")
    if t[0] == "call" and t[1][0] == "name" and t[1][1] in ("sorted", "reversed") and t[2]:
        r = same_elements_of(it, t[2][0], depth + 1)
        if r:
            return (r[0], "permutation")
    if t[0] == "ifexp":
        a, b = same_elements_of(it, t[2], depth + 1), same_elements_of(it, t[3], depth + 1)
        if a and b and a[0] == b[0]:
            return (a[0], "identity")
        return None
    cp = comp_parts(it, t)
    if cp is not None and len(cp[0]) == 1:
        (L,), extra, v, ev = cp
        lp = it.loops[L]
        src = lp.iter
        fc = flatten_conds(extra)
        # (x for x in obj._underlying [if ...])
        if src is not None and v == ("elem", src, L):
            o = storage_owner(src)
            if o is None:
                r = same_elements_of(it, src, depth + 1)
                if r is not None:
                    o = r[0]
            if o is not None:
                how = "identity"
                if fc:
                    how = "filter-not-none" if fc == [(("cmp", "Is", v, NONE), False)] else "filter"
                return (o, how)
        # (x for x, y in zip(obj, key, ...) if y)
        if lp.domain is not None and lp.domain[0] == "tuple" and lp.iter is not None and lp.iter[0] == "call" \
                and lp.iter[1] == ("name", "zip") and lp.domain[1] and v == ("elem", lp.domain[1][0], L):
            o = storage_owner(lp.domain[1][0])
            if o is not None:
                return (o, "mask")
        # (obj[k] for k in key)
        if v[0] == "sub" and not fc and src is not None and v[2] == ("elem", src, L):
            o = storage_owner(v[1])
            if o is not None:
                return (o, "gather")
    return None


def fill_of(it: Interp, t: Term) -> Optional[Tuple[Term, Term]]:
    """tuple(v if x is None else x for x in obj._underlying) -> (obj, v)"""
    cp = comp_parts(it, t)
    if cp is not None and len(cp[0]) == 1 and not cp[1]:
        (L,), _, v, ev = cp
        src = it.loops[L].iter
        if src is not None:
            x = ("elem", src, L)
            if v[0] == "ifexp" and v[1] == ("cmp", "Is", x, NONE) and v[3] == x:
                o = storage_owner(src)
                if o is not None:
                    return (o, v[2])
    return None


def is_bool_term(t: Term) -> bool:
    k = t[0]
    if k == "const":
        return isinstance(t[2], bool)
    if k == "cmp":
        return t[1] in ("Is", "IsNot", "In", "NotIn")     # rich comparisons may return non-bools
    if k == "un" and t[1] == "Not":
        return True
    if k == "call" and t[1][0] == "name" and t[1][1] in ("bool", "isinstance", "b_isinstance", "callable", "hasattr"):
        return True
    if k == "ifexp":
        return is_bool_term(t[2]) and is_bool_term(t[3])
    if k == "bool":
        return all(is_bool_term(x) for x in t[2])
    return False


def is_never_none_term(it: Interp, t: Term) -> bool:
    if t[0] in ("tuple", "fstr"):
        return True
    if t[0] == "obj":
        return True
    if t[0] == "const":
        return t[2] is not None
    return is_bool_term(t)


def element_values(it: Interp, t: Term) -> Optional[List[Tuple[Term, tuple]]]:
    """Element value terms (with their extra conditions) of a comprehension / buffer; None if t is not one."""
    t = strip_seq(it, t)
    if t[0] != "obj" or it.objs[t[1]].kind not in ("listcomp", "genexp", "list", "setcomp"):
        return None
    o = it.objs[t[1]]
    out = [(x, ()) for x in o.init]
    for e in elements(it, t):
        v = e.value if e.kind == "elem" else (e.term[2][0] if e.kind == "call" and len(e.term[2]) == 1 and e.term[1][2] in ("append", "add")
                                              else None)
        if v is None:
            return None
        out.append((v, tuple(e.conds[len(o.conds):])))
    return out


def const_bool_seq(it: Interp, t: Term) -> bool:
    """[True] * n / (False,) * n / [True, False] ..."""
    t = strip_seq(it, t)
    if t[0] == "bin" and t[1] == "Mult":
        return const_bool_seq(it, t[2]) or const_bool_seq(it, t[3])
    if t[0] == "tuple":
        return bool(t[1]) and all(x[0] == "const" and isinstance(x[2], bool) for x in t[1])
    if t[0] == "obj" and it.objs[t[1]].kind == "list" and isinstance(it.objs[t[1]].node, ast.List) and not it._mutated(t):
        init = it.objs[t[1]].init
        return bool(init) and all(x[0] == "const" and isinstance(x[2], bool) for x in init)
    return False


def dtype_of(t: Term) -> Optional[Term]:
    """obj._dtype / obj.schema() -> obj"""
    if t[0] == "attr" and t[2] == "_dtype":
        return t[1]
    if t[0] == "call" and t[1][0] == "attr" and t[1][2] == "schema" and not t[2] and not t[3]:
        return t[1][1]
    return None


KIND_NAMES = ("object", "bool", "int", "float", "str", "complex", "bytes", "date", "datetime")


def const_dtype(t: Term) -> Optional[Tuple[Term, object]]:
    """DataType(K[, nullable=N]) / bare python type -> (K term, nullable: False | True | term)"""
    if t[0] == "name" and t[1] in KIND_NAMES:
        return (t, False)
    if t[0] == "call" and t[1] == ("name", "DataType") and (t[2] or kw(t, "kind") is not None):
        k = t[2][0] if t[2] else kw(t, "kind")
        n = t[2][1] if len(t[2]) > 1 else kw(t, "nullable")
        if n is None:
            nn: object = False
        elif n[0] == "const":
            nn = bool(n[2])
        else:
            nn = n
        return (k, nn)
    return None


def is_vector_term(it: Interp, x: Term, f: Optional[FuncInfo] = None, loop_iter: Optional[Term] = None) -> bool:
    """Does x evaluate to a Vector (column)?"""
    if x[0] == "param" and x[1] in ("self", "other"):
        return True
    if x[0] == "call":
        fn = x[1]
        if fn[0] == "name" and fn[1] in CTORS:
            return True
        if fn[0] in ("param", "name") and fn[1] in ("op", "op_func") and loop_iter is not None:
            over_cols = any(y[0] == "call" and y[1][0] == "attr" and y[1][2] == "cols" for y in subterms(loop_iter))
            return over_cols or (f is not None and f.cls == "Table")
        if fn[0] == "attr" and fn[2] in ("copy", "_elementwise_compare", "_elementwise_operation", "T"):
            return True
        if fn[0] in ("param",) and loop_iter is not None and any(y[0] == "call" and y[1][0] == "attr" and y[1][2] == "cols"
                                                                  for y in subterms(loop_iter)):
            return True          # a callback applied to each column (per-column recursion helper)
    if x[0] == "attr" and x[2] == "T":
        return True
    if x[0] == "bin":
        return True              # operator between columns
    if x[0] == "sub" and loop_iter is not None and f is not None and f.cls == "Table":
        if x[1][0] == "elem" and x[1][1] == ("attr", ("param", "self"), "_underlying"):
            return True
    return False


def vector_valued(it: Interp, t: Optional[Term], f: Optional[FuncInfo] = None, depth: int = 0) -> bool:
    """Do the ELEMENTS of data term t evaluate to Vectors (=> table construction)?"""
    if t is None or depth > 5:
        return False
    t = strip_seq(it, t)
    if t[0] == "ifexp":
        return vector_valued(it, t[2], f, depth + 1) and vector_valued(it, t[3], f, depth + 1)
    if t[0] == "tuple":
        return bool(t[1]) and all(is_vector_term(it, x[1] if x[0] == "star" else x, f) for x in t[1])
    if t[0] == "bin" and t[1] == "Add":
        return vector_valued(it, t[2], f, depth + 1) and vector_valued(it, t[3], f, depth + 1)
    if t[0] == "call" and t[1][0] == "attr" and t[1][2] == "cols":
        return True
    if t[0] == "sub":
        return vector_valued(it, t[1], f, depth + 1)
    ev = element_values(it, t)
    if ev is not None and ev:
        o = it.objs[t[1]]
        its = []
        for e in elements(it, t):
            for L in e.loops:
                if L not in o.loops and it.loops[L].iter is not None:
                    its.append(it.loops[L].iter)
        li = its[0] if its else None
        return all(is_vector_term(it, v, f, li) for v, _ in ev)
    return False

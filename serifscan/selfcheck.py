"""Engine sanity check run by MANIFEST.setup_cmd: imports every rule module and
exercises the CFG on a fixture (dead raise, dominance, must-pass-through)."""
from __future__ import annotations

import ast
import importlib
import os

from .cfg import CFG
from .core import FuncInfo

FIX = '''
def f(xs, flag):
    out = []
    for x in xs:
        found = False
        for y in x:
            if y:
                found = True
                break
                if not found:
                    raise KeyError(y)
        out.append(found)
    try:
        g(out)
    except TypeError:
        return None
    if flag:
        return out
    return []
'''


def selfcheck() -> int:
    here = os.path.dirname(__file__)
    n = 0
    for fn in sorted(os.listdir(os.path.join(here, "rules"))):
        if fn.startswith("c") and fn.endswith(".py"):
            importlib.import_module(f"serifscan.rules.{fn[:-3]}")
            n += 1
    tree = ast.parse(FIX)
    fi = FuncInfo("fix.f", "f", "fix", tree.body[0], None, None)
    cfg = CFG(fi)
    dead = [x for x in cfg.stmt_nodes() if not cfg.is_reachable(x)]
    assert any(isinstance(d.ast, ast.Raise) for d in dead), "CFG must find the dead raise of the fixture"
    first = cfg.node_of(tree.body[0].body[0])
    assert all(cfg.dominates(first, x) for x in cfg.stmt_nodes() if cfg.is_reachable(x))
    app = [x for x in cfg.stmt_nodes() if isinstance(x.ast, ast.Expr) and "append" in ast.unparse(x.ast)][0]
    loop = cfg.node_of(tree.body[0].body[1])
    # every path around the outer loop body passes the append
    assert cfg.path_avoiding(loop, [loop], lambda m: m is app, edge_ok=lambda a, b, l: not (a is loop and l == "done")) is None
    print(f"serifscan selfcheck ok: {n} rule modules import, CFG fixture behaves")
    return 0

"""E6 - finite abstract evaluator for the package's *decision* functions.

A small interpreter for the expression/statement subset used by DataType.promote_with,
infer_kind, infer_dtype, validate_scalar, Vector._can_promote, _resolve_binary_name and the
sort key functions, over abstract values drawn from a finite tag domain.  It evaluates the
REPO'S syntax trees, not a model: values are only ever touched through type tests, identity
tests and attribute reads, so the finite domain is exact for these functions.  Anything
outside the subset stops the analysis with AnalysisError naming the node (exit 2).

This is abstract interpretation over a finite lattice (the dataflow end of the family): no
path conditions are accumulated, nothing is handed to a solver.
"""
from __future__ import annotations

import ast
from dataclasses import dataclass
from typing import Any, Dict, List, Optional, Tuple

from .core import AnalysisError, FuncInfo, Program, attr_chain, short

# ---------------------------------------------------------------------------
# class table: tag -> proper ancestors (nearest first)
# ---------------------------------------------------------------------------
CORE_CLASSES: Dict[str, Tuple[str, ...]] = {
    "object": (),
    "NoneType": ("object",),
    "bool": ("int", "object"),
    "int": ("object",),
    "float": ("object",),
    "complex": ("object",),
    "str": ("object",),
    "bytes": ("object",),
    "bytearray": ("object",),
    "date": ("object",),
    "datetime": ("date", "object"),
    "list": ("object",),
    "dict": ("object",),
    "tuple": ("object",),
    "A": ("object",),            # two unrelated user classes
    "B": ("object",),
    "type": ("object",),
    # strict subclasses of builtins (arbitrary other classes that ARE ints/strs/... for isinstance)
    "sub_int": ("int", "object"),
    "sub_float": ("float", "object"),
    "sub_str": ("str", "object"),
    "sub_date": ("date", "object"),
    "sub_datetime": ("datetime", "date", "object"),
    "sub_A": ("A", "object"),
}


@dataclass(frozen=True)
class Inst:
    tag: str

    def __repr__(self):
        return f"<{self.tag} instance>"


@dataclass(frozen=True)
class Cls:
    tag: str

    def __repr__(self):
        return f"<class {self.tag}>"


@dataclass(frozen=True)
class Const:
    v: Any

    def __repr__(self):
        return f"{self.v!r}"


@dataclass(frozen=True)
class DT:
    kind: str
    nullable: bool

    def __repr__(self):
        return f"<{self.kind}{'?' if self.nullable else ''}>"


@dataclass(frozen=True)
class Tup:
    items: Tuple[Any, ...]


@dataclass(frozen=True)
class AnyIndex:
    """A sequence every element of which is the abstract value `item` (data[i] for an unknown i)."""
    item: Any


@dataclass(frozen=True)
class FuncRef:
    qualname: str


@dataclass(frozen=True)
class Opaque:
    what: str


class Closure:
    """A lambda / nested def together with the environment it was created in."""

    def __init__(self, node, env):
        self.node = node
        self.env = env


class Obj:
    """A mutable abstract object with named fields (used for `self` of a Vector)."""

    def __init__(self, cls: str, fields: Dict[str, Any]):
        self.cls = cls
        self.fields = dict(fields)

    def __repr__(self):
        return f"<{self.cls} {self.fields}>"


NONE = Const(None)
TRUE = Const(True)
FALSE = Const(False)


class IdentityOfValues(AnalysisError):
    """the code compares two non-singleton values with `is`"""


class Raised(Exception):
    def __init__(self, exc: str):
        self.exc = exc


class _Return(Exception):
    def __init__(self, value):
        self.value = value


class _Break(Exception):
    pass


class _Continue(Exception):
    pass


EXC_PARENTS = {
    "SerifTypeError": ("TypeError", "SerifError", "Exception"),
    "SerifValueError": ("ValueError", "SerifError", "Exception"),
    "SerifKeyError": ("KeyError", "SerifError", "Exception"),
    "TypeError": ("Exception",), "ValueError": ("Exception",), "KeyError": ("Exception",),
}


def value_of_tag(tag: str):
    return NONE if tag == "NoneType" else Inst(tag)


class Interp:
    def __init__(self, prog: Program, classes: Optional[Dict[str, Tuple[str, ...]]] = None):
        self.prog = prog
        self.classes = dict(classes or CORE_CLASSES)
        self.warned: List[str] = []
        self.steps = 0
        self.hooks: Dict[str, Any] = {}      # qualname -> python callable(interp, recv, args, kwargs) modelling a method

    # -- class relations ---------------------------------------------------
    def is_subclass(self, tag: str, of: str) -> bool:
        if tag not in self.classes:
            raise AnalysisError(f"abstract evaluator: unknown class tag {tag}")
        return tag == of or of in self.classes[tag]

    def tag_of(self, v) -> str:
        if isinstance(v, Inst):
            return v.tag
        if isinstance(v, Const):
            if v.v is None:
                return "NoneType"
            return type(v.v).__name__
        if isinstance(v, DT):
            return "DataType"
        if isinstance(v, Cls):
            return "type"
        if isinstance(v, Tup):
            return "tuple"
        raise AnalysisError(f"abstract evaluator: type() of {v!r}")

    def truth(self, v, node) -> bool:
        if isinstance(v, Const):
            return bool(v.v)
        if isinstance(v, (Cls, DT, FuncRef)):
            return True
        if isinstance(v, Tup):
            return len(v.items) > 0
        raise AnalysisError(f"abstract evaluator: truth value of {v!r} is not determined by its type "
                            f"(at `{short(node)}`, line {getattr(node, 'lineno', '?')})")

    # -- function calls ------------------------------------------------------
    def call(self, qualname: str, args: List[Any], kwargs: Optional[Dict[str, Any]] = None):
        """Run a package function on abstract arguments -> ('return', value) | ('raise', excname)."""
        f = self.prog.func(qualname)
        env = self._bind(f, args, kwargs or {})
        try:
            try:
                self.exec_body(f.body, env, f)
            except _Return as r:
                return ("return", r.value)
            return ("return", NONE)
        except Raised as r:
            return ("raise", r.exc)

    def _bind(self, f: FuncInfo, args, kwargs) -> Dict[str, Any]:
        a = f.node.args
        names = [x.arg for x in a.posonlyargs + a.args]
        env: Dict[str, Any] = {}
        defaults = [None] * (len(names) - len(a.defaults)) + list(a.defaults)
        for i, n in enumerate(names):
            if i < len(args):
                env[n] = args[i]
            elif n in kwargs:
                env[n] = kwargs[n]
            elif defaults[i] is not None:
                env[n] = self.ev(defaults[i], {}, f)
            else:
                raise AnalysisError(f"abstract evaluator: missing argument {n} for {f.qualname}")
        for k, d in zip(a.kwonlyargs, a.kw_defaults):
            if k.arg in kwargs:
                env[k.arg] = kwargs[k.arg]
            elif d is not None:
                env[k.arg] = self.ev(d, {}, f)
        env["__module__"] = f.module
        return env

    # -- statements ----------------------------------------------------------
    def exec_body(self, body: List[ast.stmt], env: Dict[str, Any], f: FuncInfo) -> None:
        for st in body:
            self.exec_stmt(st, env, f)

    def exec_stmt(self, st: ast.stmt, env, f) -> None:
        self.steps += 1
        if self.steps > 2_000_000:
            raise AnalysisError("abstract evaluator: step budget exhausted")
        if isinstance(st, ast.Expr):
            if isinstance(st.value, ast.Constant):
                return
            self.ev(st.value, env, f)
        elif isinstance(st, ast.Assign):
            v = self.ev(st.value, env, f)
            for t in st.targets:
                self._assign(t, v, env, f)
        elif isinstance(st, ast.AnnAssign):
            if st.value is not None:
                self._assign(st.target, self.ev(st.value, env, f), env, f)
        elif isinstance(st, ast.If):
            if self.truth(self.ev(st.test, env, f), st.test):
                self.exec_body(st.body, env, f)
            else:
                self.exec_body(st.orelse, env, f)
        elif isinstance(st, ast.Return):
            raise _Return(self.ev(st.value, env, f) if st.value is not None else NONE)
        elif isinstance(st, ast.Raise):
            exc = st.exc
            if isinstance(exc, ast.Call):
                exc = exc.func
            if isinstance(exc, ast.Name):
                raise Raised(exc.id)
            raise AnalysisError(f"abstract evaluator: raise of `{short(st)}`")
        elif isinstance(st, ast.Pass):
            return
        elif isinstance(st, ast.Try):
            try:
                self.exec_body(st.body, env, f)
            except Raised as r:
                for h in st.handlers:
                    if self._catches(h, r.exc):
                        self.exec_body(h.body, env, f)
                        break
                else:
                    raise
            else:
                self.exec_body(st.orelse, env, f)
            if st.finalbody:
                self.exec_body(st.finalbody, env, f)
        elif isinstance(st, ast.For):
            it = self.ev(st.iter, env, f)
            if not isinstance(it, Tup):
                raise AnalysisError(f"abstract evaluator: for-loop over {it!r} at line {st.lineno}")
            broke = False
            for x in it.items:
                self._assign(st.target, x, env, f)
                try:
                    self.exec_body(st.body, env, f)
                except _Break:
                    broke = True
                    break
                except _Continue:
                    continue
            if not broke:
                self.exec_body(st.orelse, env, f)
        elif isinstance(st, ast.Break):
            raise _Break()
        elif isinstance(st, ast.Continue):
            raise _Continue()
        elif isinstance(st, (ast.Import, ast.ImportFrom, ast.Global)):
            return
        else:
            raise AnalysisError(f"abstract evaluator: statement `{short(st)}` (line {st.lineno} of {f.qualname}) "
                                f"is outside the evaluated subset")

    def _catches(self, h: ast.ExceptHandler, exc: str) -> bool:
        if h.type is None:
            return True
        names = [h.type.id] if isinstance(h.type, ast.Name) else [e.id for e in h.type.elts if isinstance(e, ast.Name)]
        for n in names:
            if n == exc or n in EXC_PARENTS.get(exc, ()) or n in ("Exception", "BaseException"):
                return True
        return False

    def _assign(self, t: ast.AST, v, env, f) -> None:
        if isinstance(t, ast.Name):
            env[t.id] = v
        elif isinstance(t, (ast.Tuple, ast.List)) and isinstance(v, Tup) and len(v.items) == len(t.elts) \
                and not any(isinstance(e, ast.Starred) for e in t.elts):
            for e, x in zip(t.elts, v.items):
                self._assign(e, x, env, f)
        elif isinstance(t, (ast.Tuple, ast.List)) and isinstance(v, Tup) and sum(isinstance(e, ast.Starred) for e in t.elts) == 1 \
                and len(v.items) >= len(t.elts) - 1:
            k = next(i for i, e in enumerate(t.elts) if isinstance(e, ast.Starred))
            after = len(t.elts) - k - 1
            items = list(v.items)
            for e, x in zip(t.elts[:k], items[:k]):
                self._assign(e, x, env, f)
            self._assign(t.elts[k].value, Tup(tuple(items[k:len(items) - after])), env, f)
            for e, x in zip(t.elts[k + 1:], items[len(items) - after:]):
                self._assign(e, x, env, f)
        elif isinstance(t, ast.Attribute) and isinstance(self.ev(t.value, env, f), Obj):
            self.ev(t.value, env, f).fields[t.attr] = v
        else:
            raise AnalysisError(f"abstract evaluator: assignment target `{short(t)}` in {f.qualname}")

    # -- expressions -----------------------------------------------------------
    def ev(self, e: ast.AST, env, f):
        m = getattr(self, "_e_" + type(e).__name__, None)
        if m is None:
            raise AnalysisError(f"abstract evaluator: expression `{short(e)}` ({type(e).__name__}, line "
                                f"{getattr(e, 'lineno', '?')} of {f.qualname}) is outside the evaluated subset")
        return m(e, env, f)

    def _e_Constant(self, e, env, f):
        return Const(e.value)

    def _e_JoinedStr(self, e, env, f):
        return Const("<formatted string>")

    def _e_Name(self, e, env, f):
        if e.id in env:
            return env[e.id]
        if e.id in self.classes:
            return Cls(e.id)
        if e.id in ("True", "False", "None"):
            return Const(eval(e.id))
        if e.id == "DataType":
            return Cls("DataType")
        # package function?
        mod = env.get("__module__", f.module)
        for q in (f"{mod}.{e.id}",):
            if q in self.prog.functions:
                return FuncRef(q)
        imp = self.prog.modules[mod].imports.get(e.id) if mod in self.prog.modules else None
        if imp and f"{imp[0]}.{imp[1]}" in self.prog.functions:
            return FuncRef(f"{imp[0]}.{imp[1]}")
        if e.id in ("isinstance", "issubclass", "type", "float", "int", "complex", "bool", "str", "len", "warnings",
                    "Vector", "SerifTypeError", "TypeError"):
            return Opaque(e.id)
        # module-level constant (a table hoisted out of a function): evaluate its defining expression once
        if mod in self.prog.modules:
            key = (mod, e.id)
            cache = self.__dict__.setdefault("_modconst", {})
            if key in cache:
                return cache[key]
            defs = [st for st in self.prog.modules[mod].tree.body
                    if (isinstance(st, ast.Assign) and any(isinstance(t, ast.Name) and t.id == e.id for t in st.targets))
                    or (isinstance(st, ast.AnnAssign) and isinstance(st.target, ast.Name) and st.target.id == e.id and st.value is not None)]
            if len(defs) == 1:
                cache[key] = self.ev(defs[0].value, {"__module__": mod}, f)
                return cache[key]
        raise AnalysisError(f"abstract evaluator: unbound name `{e.id}` in {f.qualname} (line {e.lineno})")

    def _e_Tuple(self, e, env, f):
        return Tup(tuple(self.ev(x, env, f) for x in e.elts))

    _e_List = _e_Tuple

    def _e_Subscript(self, e, env, f):
        v = self.ev(e.value, env, f)
        if isinstance(v, AnyIndex):
            return v.item
        if isinstance(v, Tup) and isinstance(e.slice, ast.Constant) and isinstance(e.slice.value, int):
            return v.items[e.slice.value]
        if isinstance(v, Tup) and isinstance(e.slice, ast.Slice):
            parts = []
            for b in (e.slice.lower, e.slice.upper, e.slice.step):
                if b is None:
                    parts.append(None)
                    continue
                c = self.ev(b, env, f)
                if not (isinstance(c, Const) and (c.v is None or (isinstance(c.v, int) and not isinstance(c.v, bool)))):
                    raise AnalysisError(f"abstract evaluator: slice bound `{short(b)}` of {c!r}")
                parts.append(c.v)
            return Tup(tuple(v.items[slice(*parts)]))
        if isinstance(v, Tup):
            i = self.ev(e.slice, env, f)
            if isinstance(i, Const) and isinstance(i.v, int) and not isinstance(i.v, bool):
                if not -len(v.items) <= i.v < len(v.items):
                    raise Raised("IndexError")
                return v.items[i.v]
        raise AnalysisError(f"abstract evaluator: subscript `{short(e)}` of {v!r}")

    def run_function_node(self, node: ast.AST, owner: FuncInfo, args: List[Any], closure: Dict[str, Any]):
        """Evaluate a nested def / lambda node with positional args in a closure environment."""
        a = node.args
        names = [x.arg for x in a.posonlyargs + a.args]
        env = dict(closure)
        defaults = [None] * (len(names) - len(a.defaults)) + list(a.defaults)
        for i, n in enumerate(names):
            if i < len(args):
                env[n] = args[i]
            elif defaults[i] is not None:
                env[n] = self.ev(defaults[i], closure, owner)
            else:
                raise AnalysisError(f"abstract evaluator: missing argument {n}")
        env.setdefault("__module__", owner.module)
        try:
            if isinstance(node, ast.Lambda):
                return ("return", self.ev(node.body, env, owner))
            try:
                self.exec_body(node.body, env, owner)
            except _Return as r:
                return ("return", r.value)
            return ("return", NONE)
        except Raised as r:
            return ("raise", r.exc)

    def _e_Lambda(self, e, env, f):
        return Closure(e, env)

    def _comp(self, e, env, f):
        """Comprehension over tuples of abstract values: evaluated eagerly (the element expressions of the evaluated subset
        have no effects), filters applied."""
        out = []

        def rec(i, env2):
            if i == len(e.generators):
                out.append(self.ev(e.elt, env2, f))
                return
            g = e.generators[i]
            seq = self.ev(g.iter, env2, f)
            if not isinstance(seq, Tup):
                raise AnalysisError(f"abstract evaluator: comprehension over {seq!r} at line {e.lineno}")
            for x in seq.items:
                env3 = dict(env2)
                self._assign(g.target, x, env3, f)
                if all(self.truth(self.ev(c, env3, f), c) for c in g.ifs):
                    rec(i + 1, env3)
        rec(0, env)
        return Tup(tuple(out))

    _e_GeneratorExp = _comp
    _e_ListComp = _comp

    def _e_UnaryOp(self, e, env, f):
        if isinstance(e.op, ast.Not):
            return Const(not self.truth(self.ev(e.operand, env, f), e.operand))
        if isinstance(e.op, (ast.USub, ast.UAdd)):
            v = self.ev(e.operand, env, f)
            if isinstance(v, Const) and isinstance(v.v, (int, float)) and not isinstance(v.v, bool):
                return Const(-v.v if isinstance(e.op, ast.USub) else +v.v)
        raise AnalysisError(f"abstract evaluator: unary operator in `{short(e)}`")

    def _e_BoolOp(self, e, env, f):
        last = None
        for v in e.values:
            last = self.ev(v, env, f)
            t = self.truth(last, v)
            if isinstance(e.op, ast.And) and not t:
                return last
            if isinstance(e.op, ast.Or) and t:
                return last
        return last

    def _e_IfExp(self, e, env, f):
        return self.ev(e.body if self.truth(self.ev(e.test, env, f), e.test) else e.orelse, env, f)

    def same(self, a, b) -> bool:
        """Identity / equality on abstract values (types, constants, DataTypes are value-like here)."""
        if isinstance(a, Cls) and isinstance(b, Cls):
            return a.tag == b.tag
        if isinstance(a, Const) and isinstance(b, Const):
            return type(a.v) is type(b.v) and a.v == b.v
        if isinstance(a, DT) and isinstance(b, DT):
            return a == b
        if type(a) is not type(b):
            return False
        if isinstance(a, Inst):
            raise AnalysisError(f"abstract evaluator: identity/equality of two instances {a!r} / {b!r} is value-dependent")
        return a == b

    def _e_Compare(self, e, env, f):
        left = self.ev(e.left, env, f)
        result = True
        for op, right_e in zip(e.ops, e.comparators):
            right = self.ev(right_e, env, f)
            if isinstance(op, (ast.Is, ast.Eq)):
                r = self._is_or_eq(left, right, op)
            elif isinstance(op, (ast.IsNot, ast.NotEq)):
                r = not self._is_or_eq(left, right, op)
            elif isinstance(op, (ast.In, ast.NotIn)):
                if not isinstance(right, Tup):
                    raise AnalysisError(f"abstract evaluator: `in` over {right!r}")
                r = any(self._is_or_eq(left, x, op) for x in right.items)
                if isinstance(op, ast.NotIn):
                    r = not r
            elif isinstance(left, Const) and isinstance(right, Const) and all(
                    isinstance(c.v, (int, float)) and not isinstance(c.v, bool) for c in (left, right)):
                # (two known numbers: positions on a ladder, lengths)
                r = {ast.Lt: left.v < right.v, ast.LtE: left.v <= right.v, ast.Gt: left.v > right.v, ast.GtE: left.v >= right.v}[type(op)]
            else:
                raise AnalysisError(f"abstract evaluator: comparison `{short(e)}` is value-dependent")
            if not r:
                return FALSE
            left = right
        return Const(result)

    def _is_or_eq(self, a, b, op) -> bool:
        # None is a singleton; instances are never None
        if isinstance(a, Inst) and isinstance(b, Const) and b.v is None:
            return False
        if isinstance(b, Inst) and isinstance(a, Const) and a.v is None:
            return False
        if isinstance(a, Inst) and isinstance(b, (Cls, DT)) or isinstance(b, Inst) and isinstance(a, (Cls, DT)):
            return False
        if isinstance(op, (ast.Is, ast.IsNot)) and isinstance(a, Const) and isinstance(b, Const) \
                and isinstance(a.v, (str, bytes, int, float, complex, tuple)) and not isinstance(a.v, bool) \
                and isinstance(b.v, (str, bytes, int, float, complex, tuple)) and not isinstance(b.v, bool) and a.v == b.v:
            # two EQUAL strings / numbers need not be the same object: `is` on them is decided by interning, not by the values
            raise IdentityOfValues(f"`is` between two equal values of type {type(a.v).__name__} ({a.v!r}) is not determined by the values "
                                   f"(equal strings built at run time are different objects)")
        return self.same(a, b)

    def _e_Attribute(self, e, env, f):
        ch = attr_chain(e)
        if ch and ch[0] == "warnings":
            return Opaque("warnings." + e.attr)
        if ch and ch[:1] == ["datetime"] and e.attr in ("min", "combine", "fromisoformat"):
            return Opaque("datetime." + e.attr)
        v = self.ev(e.value, env, f)
        if isinstance(v, DT):
            if e.attr == "kind":
                return Cls(v.kind)
            if e.attr == "nullable":
                return Const(v.nullable)
            m = self.prog.method("DataType", e.attr)
            if m is not None:
                if "property" in m.decorators:
                    r = self._invoke(m, [v], {})
                    return r
                return Tup((FuncRef(m.qualname), v))      # bound method
            raise AnalysisError(f"abstract evaluator: DataType has no attribute {e.attr}")
        if isinstance(v, Cls) and e.attr == "__name__":
            return Const(v.tag)
        if isinstance(v, Obj):
            if e.attr in v.fields:
                return v.fields[e.attr]
            m = self.prog.method(v.cls, e.attr)
            if m is not None:
                if "staticmethod" in m.decorators:
                    return FuncRef(m.qualname)
                return Tup((FuncRef(m.qualname), v))
            raise AnalysisError(f"abstract evaluator: {v.cls} object has no modelled attribute {e.attr}")
        if isinstance(v, Opaque):
            return Opaque(f"{v.what}.{e.attr}")
        raise AnalysisError(f"abstract evaluator: attribute `{short(e)}` of {v!r} in {f.qualname}")

    def _invoke(self, m: FuncInfo, args, kwargs):
        env = self._bind(m, args, kwargs)
        try:
            self.exec_body(m.body, env, m)
        except _Return as r:
            return r.value
        return NONE

    def _e_Call(self, e, env, f):
        fn = e.func
        name = ".".join(attr_chain(fn)) if attr_chain(fn) else None
        if name and name.startswith("warnings."):
            self.warned.append(f.qualname)
            return NONE
        if name == "type" and len(e.args) == 1:
            return Cls(self.tag_of(self.ev(e.args[0], env, f)))
        if name == "getattr" and len(e.args) in (2, 3):
            attr = self.ev(e.args[1], env, f)
            if not (isinstance(attr, Const) and isinstance(attr.v, str)):
                raise AnalysisError(f"abstract evaluator: getattr with a computed name `{short(e)}`")
            fake = ast.Attribute(value=e.args[0], attr=attr.v, ctx=ast.Load())
            ast.copy_location(fake, e)
            return self.ev(fake, env, f)
        if name == "next" and len(e.args) in (1, 2):
            seq = self.ev(e.args[0], env, f)
            if not isinstance(seq, Tup):
                raise AnalysisError(f"abstract evaluator: next() over {seq!r}")
            if seq.items:
                return seq.items[0]
            if len(e.args) == 2:
                return self.ev(e.args[1], env, f)
            raise Raised("StopIteration")
        if name in ("any", "all") and len(e.args) == 1:
            seq = self.ev(e.args[0], env, f)
            if not isinstance(seq, Tup):
                raise AnalysisError(f"abstract evaluator: {name}() over {seq!r}")
            vals = [self.truth(x, e) for x in seq.items]
            return Const(any(vals) if name == "any" else all(vals))
        if name in ("tuple", "list") and len(e.args) == 1:
            seq = self.ev(e.args[0], env, f)
            if isinstance(seq, Tup):
                return seq
        if name == "reversed" and len(e.args) == 1 and not e.keywords:
            seq = self.ev(e.args[0], env, f)
            if not isinstance(seq, Tup):
                raise AnalysisError(f"abstract evaluator: reversed() over {seq!r}")
            return Tup(tuple(reversed(seq.items)))
        if name == "len" and len(e.args) == 1:
            seq = self.ev(e.args[0], env, f)
            if isinstance(seq, Tup):
                return Const(len(seq.items))
        if name == "enumerate" and len(e.args) == 1 and not e.keywords:
            seq = self.ev(e.args[0], env, f)
            if isinstance(seq, Tup):
                return Tup(tuple(Tup((Const(i), x)) for i, x in enumerate(seq.items)))
        if name == "zip" and e.args and all(k.arg == "strict" for k in e.keywords):
            seqs = [self.ev(a, env, f) for a in e.args]
            if all(isinstance(q, Tup) for q in seqs):
                return Tup(tuple(Tup(tuple(xs)) for xs in zip(*(q.items for q in seqs))))
        if name == "range" and 1 <= len(e.args) <= 3 and not e.keywords:
            bs = [self.ev(a, env, f) for a in e.args]
            if all(isinstance(b, Const) and isinstance(b.v, int) and not isinstance(b.v, bool) for b in bs) and len(range(*[b.v for b in bs])) <= 64:
                return Tup(tuple(Const(i) for i in range(*[b.v for b in bs])))
        if name in ("max", "min") and e.args and not e.keywords:
            vals = [self.ev(a, env, f) for a in e.args]
            if len(vals) == 1 and isinstance(vals[0], Tup):
                vals = list(vals[0].items)
            if vals and all(isinstance(b, Const) and isinstance(b.v, int) and not isinstance(b.v, bool) for b in vals):
                return Const((max if name == "max" else min)(b.v for b in vals))
        if name in ("isinstance", "issubclass", "b_isinstance") and len(e.args) == 2:
            x = self.ev(e.args[0], env, f)
            c = self.ev(e.args[1], env, f)
            cs = c.items if isinstance(c, Tup) else (c,)
            if not all(isinstance(k, Cls) for k in cs):
                raise AnalysisError(f"abstract evaluator: `{short(e)}` against non-class {c!r}")
            if name == "issubclass":
                if not isinstance(x, Cls):
                    raise Raised("TypeError")
                return Const(any(self.is_subclass(x.tag, k.tag) for k in cs))
            t = self.tag_of(x)
            if t not in self.classes:
                return FALSE
            return Const(any(self.is_subclass(t, k.tag) for k in cs))
        if name in ("float", "int", "complex", "bool", "str") and len(e.args) == 1:
            self.ev(e.args[0], env, f)
            return Inst(name)
        if name in ("datetime.combine",):
            return Inst("datetime")
        if name and name.startswith("datetime.min"):
            return Opaque(name)
        if name == "DataType" or (isinstance(fn, ast.Name) and fn.id == "DataType"):
            args = [self.ev(a, env, f) for a in e.args]
            kw = {k.arg: self.ev(k.value, env, f) for k in e.keywords}
            kind = args[0] if args else kw.get("kind")
            nullable = args[1] if len(args) > 1 else kw.get("nullable", FALSE)
            if not isinstance(kind, Cls) or not isinstance(nullable, Const):
                raise AnalysisError(f"abstract evaluator: DataType({kind!r}, {nullable!r}) at line {e.lineno}")
            return DT(kind.tag, bool(nullable.v))
        if isinstance(fn, ast.Attribute) and fn.attr in ("index", "count") and len(e.args) == 1 and not e.keywords:
            recv = self.ev(fn.value, env, f)
            if isinstance(recv, Tup):
                x = self.ev(e.args[0], env, f)
                hits = [i for i, y in enumerate(recv.items) if self.same(y, x)]
                if fn.attr == "count":
                    return Const(len(hits))
                if not hits:
                    raise Raised("ValueError")
                return Const(hits[0])
        # method call on an abstract receiver / package function
        callee = self.ev(fn, env, f)
        args = [self.ev(a, env, f) for a in e.args]
        kw = {k.arg: self.ev(k.value, env, f) for k in e.keywords}
        if isinstance(callee, FuncRef):
            if callee.qualname in self.hooks:
                return self.hooks[callee.qualname](self, None, args, kw)
            return self._invoke(self.prog.func(callee.qualname), args, kw)
        if isinstance(callee, Tup) and len(callee.items) == 2 and isinstance(callee.items[0], FuncRef):
            q = callee.items[0].qualname
            if q in self.hooks:
                return self.hooks[q](self, callee.items[1], args, kw)
            return self._invoke(self.prog.func(q), [callee.items[1]] + args, kw)
        if isinstance(callee, Opaque):
            return Opaque(f"{callee.what}(...)")
        if isinstance(callee, Cls) and callee.tag in ("float", "int", "complex", "bool", "str") and len(args) == 1 and not kw:
            return Inst(callee.tag)          # (a builtin type handed over as a value - convert(number) with convert = float)
        raise AnalysisError(f"abstract evaluator: call `{short(e)}` in {f.qualname} (line {e.lineno})")

"""E1/E2 - program index and call resolution for the serif package.

Everything here works on syntax trees only.  Nothing imports or executes serif.
A Program can be built from a directory (the registered checks: /repo/src/serif
as it is on disk *now*) or from an in-memory {module: source} mapping (the
armed-mutant self-test, which edits the current source in memory).
"""
from __future__ import annotations

import ast
import os
from dataclasses import dataclass, field
from typing import Dict, Iterator, List, Optional, Tuple

EXPECTED_MODULES = {
    "__init__", "alias_tracker", "csv", "display", "errors", "naming",
    "table", "typeutils", "typing", "vector",
}


class AnalysisError(Exception):
    """The engine cannot analyse the tree (vanished anchor, unknown construct,
    instance count below the confirmed minimum).  Exit code 2, never a pass."""


# --------------------------------------------------------------------------
# data classes
# --------------------------------------------------------------------------
@dataclass
class ModuleInfo:
    name: str
    path: str
    source: str
    tree: ast.Module
    imports: Dict[str, Tuple[str, str]] = field(default_factory=dict)  # local -> (module, name)


@dataclass
class ClassInfo:
    name: str
    module: str
    node: ast.ClassDef
    bases: List[str]
    mro: List[str] = field(default_factory=list)
    methods: Dict[str, "FuncInfo"] = field(default_factory=dict)


@dataclass
class FuncInfo:
    qualname: str            # e.g. table.Table.aggregate.<locals>.aggregate_col
    name: str
    module: str
    node: ast.AST            # FunctionDef | Lambda
    cls: Optional[str]       # owning class name (for methods and things nested in methods)
    parent: Optional[str]    # qualname of the enclosing function, if nested
    is_method: bool = False
    decorators: Tuple[str, ...] = ()

    @property
    def lineno(self) -> int:
        return getattr(self.node, "lineno", 0)

    @property
    def params(self) -> List[str]:
        a = self.node.args
        names = [x.arg for x in a.posonlyargs + a.args]
        if a.vararg:
            names.append(a.vararg.arg)
        names += [x.arg for x in a.kwonlyargs]
        if a.kwarg:
            names.append(a.kwarg.arg)
        return names

    @property
    def body(self) -> List[ast.stmt]:
        if isinstance(self.node, ast.Lambda):
            return [ast.Return(value=self.node.body, lineno=self.node.lineno, col_offset=0)]
        return self.node.body


# --------------------------------------------------------------------------
# small AST helpers used everywhere
# --------------------------------------------------------------------------
def unparse(node: ast.AST) -> str:
    """Normalised text of a construct (independent of formatting/comments)."""
    try:
        return ast.unparse(node)
    except Exception:  # pragma: no cover
        return ast.dump(node)


def short(node: ast.AST, n: int = 110) -> str:
    s = " ".join(unparse(node).split())
    return s if len(s) <= n else s[: n - 3] + "..."


def walk_no_nested(node: ast.AST, *, include_root: bool = True) -> Iterator[ast.AST]:
    """ast.walk that does not descend into nested function/class definitions
    (lambdas and comprehensions ARE descended: they run in the enclosing flow)."""
    stack = [node]
    first = True
    while stack:
        n = stack.pop()
        if not first and isinstance(n, (ast.FunctionDef, ast.AsyncFunctionDef, ast.ClassDef)):
            continue
        if include_root or not first:
            yield n
        first = False
        stack.extend(reversed(list(ast.iter_child_nodes(n))))


def walk_stmts(body: List[ast.stmt]) -> Iterator[ast.stmt]:
    """All statements in a body, recursively, not entering nested defs."""
    for st in body:
        yield st
        for fld in ("body", "orelse", "finalbody"):
            sub = getattr(st, fld, None)
            if sub and not isinstance(st, (ast.FunctionDef, ast.AsyncFunctionDef, ast.ClassDef)):
                yield from walk_stmts(sub)
        if isinstance(st, ast.Try):
            for h in st.handlers:
                yield from walk_stmts(h.body)


def attr_chain(node: ast.AST) -> Optional[List[str]]:
    """a.b.c -> ['a','b','c'] ; None when the root is not a plain name."""
    parts: List[str] = []
    while isinstance(node, ast.Attribute):
        parts.append(node.attr)
        node = node.value
    if isinstance(node, ast.Name):
        parts.append(node.id)
        return list(reversed(parts))
    return None


def call_name(call: ast.Call) -> Optional[str]:
    """Dotted name of the callee if it is a plain name / attribute chain."""
    ch = attr_chain(call.func)
    return ".".join(ch) if ch else None


def names_in(node: ast.AST) -> set:
    return {n.id for n in ast.walk(node) if isinstance(n, ast.Name)}


def is_none(node: ast.AST) -> bool:
    return isinstance(node, ast.Constant) and node.value is None


def const_str(node: ast.AST) -> Optional[str]:
    return node.value if isinstance(node, ast.Constant) and isinstance(node.value, str) else None


def kwarg(call: ast.Call, name: str) -> Optional[ast.AST]:
    for k in call.keywords:
        if k.arg == name:
            return k.value
    return None


# --------------------------------------------------------------------------
# the program index
# --------------------------------------------------------------------------
class Program:
    def __init__(self, sources: Dict[str, str], root: str = "<memory>"):
        self.root = root
        self.modules: Dict[str, ModuleInfo] = {}
        self.classes: Dict[str, ClassInfo] = {}
        self.functions: Dict[str, FuncInfo] = {}
        self._parents: Dict[int, ast.AST] = {}
        for name, src in sorted(sources.items()):
            path = os.path.join(root, name + ".py")
            try:
                tree = ast.parse(src, filename=path)
            except SyntaxError as e:
                raise AnalysisError(f"module {name} does not parse: {e}")
            self.modules[name] = ModuleInfo(name, path, src, tree)
        missing = EXPECTED_MODULES - set(self.modules)
        if missing:
            raise AnalysisError(f"package modules missing from the index: {sorted(missing)}")
        for m in self.modules.values():
            self._index_module(m)
        self._compute_mros()

    # ---- construction -----------------------------------------------------
    @classmethod
    def from_dir(cls, root: str) -> "Program":
        if not os.path.isdir(root):
            raise AnalysisError(f"source directory {root} not found")
        sources = {}
        for fn in sorted(os.listdir(root)):
            if fn.endswith(".py"):
                with open(os.path.join(root, fn), encoding="utf-8") as f:
                    sources[fn[:-3]] = f.read()
        sub = [d for d in os.listdir(root)
               if os.path.isdir(os.path.join(root, d)) and d != "__pycache__"
               and any(x.endswith(".py") for x in os.listdir(os.path.join(root, d)))]
        if sub:
            raise AnalysisError(f"sub-packages {sub} are not known to the index (coverage gate)")
        return cls(sources, root)

    def sources(self) -> Dict[str, str]:
        return {n: m.source for n, m in self.modules.items()}

    def with_source(self, module: str, new_source: str) -> "Program":
        s = self.sources()
        s[module] = new_source
        return Program(s, self.root)

    def _index_module(self, m: ModuleInfo) -> None:
        for node in ast.walk(m.tree):
            for ch in ast.iter_child_nodes(node):
                self._parents[id(ch)] = node
        for st in ast.walk(m.tree):
            if isinstance(st, ast.ImportFrom) and st.level >= 1 and st.module:
                for a in st.names:
                    m.imports[a.asname or a.name] = (st.module, a.name)

        def visit(body, prefix: str, cls: Optional[str], parent: Optional[str], in_class: bool):
            for st in body:
                if isinstance(st, ast.ClassDef):
                    bases = [b.id if isinstance(b, ast.Name) else unparse(b) for b in st.bases]
                    ci = ClassInfo(st.name, m.name, st, bases)
                    self.classes[st.name] = ci
                    visit(st.body, f"{prefix}{st.name}.", st.name, parent, True)
                elif isinstance(st, (ast.FunctionDef, ast.AsyncFunctionDef)):
                    qn = f"{prefix}{st.name}"
                    decos = tuple(unparse(d) for d in st.decorator_list)
                    if qn in self.functions:       # property setter etc: keep both
                        qn = qn + "@" + (decos[0] if decos else str(st.lineno))
                    fi = FuncInfo(qn, st.name, m.name, st, cls, parent, is_method=in_class, decorators=decos)
                    self.functions[qn] = fi
                    if in_class and cls:
                        self.classes[cls].methods.setdefault(st.name, fi)
                        if decos and decos[0].endswith(".setter"):
                            self.classes[cls].methods[st.name + ".setter"] = fi
                    visit(st.body, f"{qn}.<locals>.", cls, qn, False)
                    # lambdas directly inside this function (not in nested defs)
                    lambda_count = 0
                    for n in walk_no_nested(st):
                        if isinstance(n, ast.Lambda):
                            lambda_count += 1
                            lq = f"{qn}.<locals>.<lambda#{lambda_count}>"
                            self.functions[lq] = FuncInfo(lq, "<lambda>", m.name, n, cls, qn)
                else:
                    for fld in ("body", "orelse", "finalbody"):
                        sub = getattr(st, fld, None)
                        if sub and isinstance(sub, list):
                            visit(sub, prefix, cls, parent, in_class)
                    if isinstance(st, ast.Try):
                        for h in st.handlers:
                            visit(h.body, prefix, cls, parent, in_class)

        visit(m.tree.body, f"{m.name}.", None, None, False)

    def _compute_mros(self) -> None:
        def mro(name: str, seen=()) -> List[str]:
            if name not in self.classes or name in seen:
                return []
            out = [name]
            for b in self.classes[name].bases:
                for x in mro(b, seen + (name,)):
                    if x not in out:
                        out.append(x)
            return out
        for c in self.classes.values():
            c.mro = mro(c.name)

    # ---- lookups ------------------------------------------------------------
    def parent(self, node: ast.AST) -> Optional[ast.AST]:
        return self._parents.get(id(node))

    def func(self, qualname: str) -> FuncInfo:
        f = self.functions.get(qualname)
        if f is None:
            raise AnalysisError(f"anchor vanished: function {qualname} is not in the tree")
        return f

    def has_func(self, qualname: str) -> bool:
        return qualname in self.functions

    def cls(self, name: str) -> ClassInfo:
        c = self.classes.get(name)
        if c is None:
            raise AnalysisError(f"anchor vanished: class {name} is not in the tree")
        return c

    def method(self, cls: str, name: str) -> Optional[FuncInfo]:
        """Resolve a method through the MRO (None if no class in the MRO defines it)."""
        for c in self.cls(cls).mro:
            f = self.classes[c].methods.get(name)
            if f is not None:
                return f
        return None

    def subclasses(self, cls: str) -> List[str]:
        return [c.name for c in self.classes.values() if cls in c.mro]

    def funcs_in(self, module: Optional[str] = None, cls: Optional[str] = None) -> List[FuncInfo]:
        out = []
        for f in self.functions.values():
            if module and f.module != module:
                continue
            if cls and f.cls != cls:
                continue
            out.append(f)
        return out

    def nested(self, parent_qualname: str, name: str) -> FuncInfo:
        return self.func(f"{parent_qualname}.<locals>.{name}")

    def enclosing_function(self, node: ast.AST) -> Optional[FuncInfo]:
        n = self.parent(node)
        while n is not None:
            if isinstance(n, (ast.FunctionDef, ast.AsyncFunctionDef, ast.Lambda)):
                for f in self.functions.values():
                    if f.node is n:
                        return f
            n = self.parent(n)
        return None

    def loc(self, f: FuncInfo, node: Optional[ast.AST] = None) -> str:
        m = self.modules[f.module]
        line = getattr(node, "lineno", None) or f.lineno
        rel = os.path.join("src/serif", os.path.basename(m.path))
        return f"{rel}:{line}"

    def stats(self) -> dict:
        return {
            "modules": sorted(self.modules),
            "classes": len(self.classes),
            "functions": len(self.functions),
            "source_lines": sum(m.source.count("\n") + 1 for m in self.modules.values()),
        }

    # ---- E2: call resolution ------------------------------------------------
    def resolve_call(self, f: FuncInfo, call: ast.Call) -> Tuple[str, Optional[FuncInfo]]:
        """Classify a call made inside function f.

        Returns (kind, target):
          ('method', FuncInfo)      self.m(...) / super().m(...) / Class.m(...) resolved through the MRO
          ('unresolved-self', None) self.m / super().m that no class in the MRO defines
          ('ctor', None) with kind 'ctor:Vector' etc. for constructor calls of package classes
          ('func', FuncInfo)        module-level or nested function of the package
          ('external', None)        anything else (builtins, stdlib, calls on non-self objects)
        """
        fn = call.func
        if isinstance(fn, ast.Name):
            name = fn.id
            if name in self.classes:
                return (f"ctor:{name}", None)
            # nested function in an enclosing scope
            scope = f
            while scope is not None:
                q = f"{scope.qualname}.<locals>.{name}"
                if q in self.functions:
                    return ("func", self.functions[q])
                scope = self.functions.get(scope.parent) if scope.parent else None
            q = f"{f.module}.{name}"
            if q in self.functions:
                return ("func", self.functions[q])
            imp = self.modules[f.module].imports.get(name)
            if imp:
                q = f"{imp[0]}.{imp[1]}"
                if q in self.functions:
                    return ("func", self.functions[q])
                if imp[1] in self.classes:
                    return (f"ctor:{imp[1]}", None)
            if name == "cls" and f.cls:
                return (f"ctor:{f.cls}", None)
            return ("external", None)
        if isinstance(fn, ast.Attribute):
            recv = fn.value
            if isinstance(recv, ast.Name) and recv.id == "self" and f.cls:
                t = self.method(f.cls, fn.attr)
                if t is not None:
                    return ("method", t)
                return ("unresolved-self", None)
            if (isinstance(recv, ast.Call) and isinstance(recv.func, ast.Name) and recv.func.id == "super"
                    and f.cls):
                mro = self.cls(f.cls).mro
                start_cls = f.cls
                if recv.args and isinstance(recv.args[0], ast.Name) and recv.args[0].id in self.classes:
                    start_cls = recv.args[0].id
                    # super(Vector, cls) - resolution starts after Vector in the MRO of cls
                for c in (mro[mro.index(start_cls) + 1:] if start_cls in mro else self.cls(start_cls).mro[1:]):
                    t = self.classes[c].methods.get(fn.attr)
                    if t is not None:
                        return ("method", t)
                return ("unresolved-self", None)
            if isinstance(recv, ast.Name) and recv.id in self.classes:
                t = self.method(recv.id, fn.attr)
                if t is not None:
                    return ("method", t)
            if isinstance(recv, ast.Name) and recv.id == "_ALIAS_TRACKER" or (
                    isinstance(recv, ast.Name) and recv.id == "_alias"):
                t = self.method("_AliasTracker", fn.attr)
                if t is not None:
                    return ("method", t)
            return ("external", None)
        return ("external", None)

    def calls_in(self, f: FuncInfo) -> List[ast.Call]:
        return [n for st in f.body for n in walk_no_nested(st) if isinstance(n, ast.Call)]


def _immutable_expr(v: ast.AST) -> bool:
    """Literal / compiled-regex / tuple or frozenset of such: a module-level constant, not state."""
    if isinstance(v, ast.Constant):
        return True
    if isinstance(v, ast.Tuple):
        return all(_immutable_expr(e) for e in v.elts)
    if isinstance(v, ast.UnaryOp) and isinstance(v.operand, ast.Constant):
        return True
    if isinstance(v, ast.Name):
        return True        # alias of another binding (a type such as int, or another constant)
    if isinstance(v, ast.Call):
        fn = unparse(v.func)
        if fn in ("re.compile", "frozenset", "tuple") and all(_immutable_expr(a) or isinstance(a, (ast.List, ast.Set)) and
                                                              all(_immutable_expr(e) for e in a.elts) for a in v.args) \
                and all(_immutable_expr(k.value) for k in v.keywords):
            return True
    if isinstance(v, ast.BinOp):
        return _immutable_expr(v.left) and _immutable_expr(v.right)
    if isinstance(v, ast.Attribute):
        return True        # re.IGNORECASE, module attribute
    return False


def module_binding(prog: "Program", module: str, name: str):
    """How `name` is bound at the top level of `module`: ('constant', value node) | ('mutable', value node) | ('function', None) |
    ('class', None) | ('import', None) | None (not bound there: builtin)."""
    m = prog.modules.get(module)
    if m is None:
        return None
    kind = None
    for st in m.tree.body:
        if isinstance(st, (ast.FunctionDef, ast.AsyncFunctionDef)) and st.name == name:
            kind = ("function", None)
        elif isinstance(st, ast.ClassDef) and st.name == name:
            kind = ("class", None)
        elif isinstance(st, (ast.Import, ast.ImportFrom)) and any((a.asname or a.name.split(".")[0]) == name for a in st.names):
            kind = ("import", None)
        elif isinstance(st, ast.Assign) and any(isinstance(t, ast.Name) and t.id == name for t in st.targets):
            kind = ("constant", st.value) if _immutable_expr(st.value) and kind in (None,) else ("mutable", st.value)
        elif isinstance(st, ast.AnnAssign) and isinstance(st.target, ast.Name) and st.target.id == name and st.value is not None:
            kind = ("constant", st.value) if _immutable_expr(st.value) and kind in (None,) else ("mutable", st.value)
        elif isinstance(st, (ast.If, ast.Try, ast.With, ast.For, ast.While)):
            for n in ast.walk(st):
                if isinstance(n, ast.Name) and n.id == name and isinstance(n.ctx, ast.Store):
                    kind = ("mutable", st)
    return kind


def dead_private_helper(prog: "Program", f: "FuncInfo") -> bool:
    """A private, non-dunder function that is not part of the reference vocabulary and that NOTHING in the package mentions (no call,
    no reference to its name): no operation of the library can reach it, so obligations on what its parameters carry have no instance."""
    from .symx import baseline_functions
    if f.qualname in baseline_functions() or not f.name.startswith("_") or (f.name.startswith("__") and f.name.endswith("__")):
        return False
    for m in prog.modules.values():
        for n in ast.walk(m.tree):
            if isinstance(n, ast.Name) and n.id == f.name and f.cls is None:
                return False                # (a method is only reached through an attribute; a bare name is another function)
            if isinstance(n, ast.Attribute) and n.attr == f.name:
                return False
            if isinstance(n, ast.Constant) and n.value == f.name:
                return False                # (getattr(self, '<name>') and the like)
            if isinstance(n, (ast.ImportFrom,)) and any(a.name == f.name for a in n.names):
                return False
    return True


def load_repo(repo: str) -> Program:
    return Program.from_dir(os.path.join(repo, "src", "serif"))


# ---------------------------------------------------------------------------
# canonical text: independent of the spelling of bound variables
# ---------------------------------------------------------------------------
class _Canon(ast.NodeTransformer):
    def __init__(self, free=None):
        self.map_stack = [dict(free or {})]
        self.counter = 0

    def _lookup(self, name):
        for m in reversed(self.map_stack):
            if name in m:
                return m[name]
        return None

    def visit_Name(self, n):
        r = self._lookup(n.id)
        if r is not None:
            return ast.copy_location(ast.Name(id=r, ctx=n.ctx), n)
        return n

    def _bind(self, target):
        for x in ast.walk(target):
            if isinstance(x, ast.Name):
                self.map_stack[-1][x.id] = f"_{self.counter}"
                self.counter += 1

    def _comp(self, n):
        self.map_stack.append({})
        for g in n.generators:
            g.iter = self.visit(g.iter)
            self._bind(g.target)
            g.target = self.visit(g.target)
            g.ifs = [self.visit(c) for c in g.ifs]
        if isinstance(n, ast.DictComp):
            n.key = self.visit(n.key)
            n.value = self.visit(n.value)
        else:
            n.elt = self.visit(n.elt)
        self.map_stack.pop()
        return n

    visit_ListComp = _comp
    visit_SetComp = _comp
    visit_GeneratorExp = _comp
    visit_DictComp = _comp

    def visit_Lambda(self, n):
        self.map_stack.append({})
        for a in n.args.posonlyargs + n.args.args + n.args.kwonlyargs:
            self.map_stack[-1][a.arg] = f"_{self.counter}"
            a.arg = f"_{self.counter}"
            self.counter += 1
        n.args.defaults = [self.visit(d) for d in n.args.defaults]
        n.body = self.visit(n.body)
        self.map_stack.pop()
        return n


def cshort(node: ast.AST, free=None, n: int = 400) -> str:
    """Like short(), but variables bound by comprehensions / lambdas are renamed _0, _1, ... in binding order and
    the free names given in `free` ({local name: placeholder}) are replaced: the text no longer depends on spelling."""
    import copy
    t = _Canon(free).visit(copy.deepcopy(node))
    s = " ".join(unparse(t).split())
    return s if len(s) <= n else s[: n - 3] + "..."

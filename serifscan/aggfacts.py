"""E7 for reductions / aggregators: fact tuples extracted from dataflow, not text.

`facts_of(fn_node, source)` reads a reduction written over `source` (the parameter `vals` of a
group aggregator, or `self._underlying` of a Vector reduction) and returns

    {"kind": sum|count|mean|min|max|any|all|stdev|?,  "filter": not-none|truthy|none|?,
     "empty": 0|None|raises|?,  "min_count": int|None,  "divisor": "n"|"n-1"|"n-1+population"|None,
     "detail": ...}

Locals assigned once are inlined, comprehension variables are alpha-renamed, so renaming,
hoisting or inlining a sub-expression does not change the facts.  Anything the matcher does
not understand yields kind "?" with the normalised expression in `detail`.
"""
from __future__ import annotations

import ast
import copy
from typing import Dict, List, Optional, Tuple

from .core import short


def _inline(fn: ast.AST, body: List[ast.stmt]) -> Tuple[List[ast.stmt], Dict[str, ast.AST]]:
    """Single-assignment locals of the body (name -> value)."""
    defs: Dict[str, List[ast.AST]] = {}
    for st in ast.walk(ast.Module(body=body, type_ignores=[])):
        if isinstance(st, ast.Assign) and len(st.targets) == 1 and isinstance(st.targets[0], ast.Name):
            defs.setdefault(st.targets[0].id, []).append(st.value)
        elif isinstance(st, (ast.AugAssign,)) and isinstance(st.target, ast.Name):
            defs.setdefault(st.target.id, []).append(None)
        elif isinstance(st, ast.For):
            for n in ast.walk(st.target):
                if isinstance(n, ast.Name):
                    defs.setdefault(n.id, []).append(None)
    single = {k: v[0] for k, v in defs.items() if len(v) == 1 and v[0] is not None}
    return body, single


HELPERS: Dict[str, ast.AST] = {}        # name -> FunctionDef of single-expression helpers visible to the reducer (set by facts_of)


def _single_return(fn: ast.AST) -> Optional[ast.AST]:
    """the expression of a helper whose body is (a docstring and) one `return <expr>` (or a lambda's body)"""
    if isinstance(fn, ast.Lambda):
        return fn.body
    body = [s for s in fn.body if not (isinstance(s, ast.Expr) and isinstance(s.value, ast.Constant))]
    if len(body) == 1 and isinstance(body[0], ast.Return) and body[0].value is not None:
        return body[0].value
    return None


class _Expand(ast.NodeTransformer):
    def __init__(self, single: Dict[str, ast.AST], bound=()):
        self.single = single
        self.bound = set(bound)
        self.depth = 0

    def visit_Call(self, n: ast.Call):
        # a call of a single-expression helper with positional arguments is replaced by its expression (non_null(vals) ->
        # [v for v in vals if v is not None]): extracting the None filter into a helper does not change the facts
        if isinstance(n.func, ast.Name) and n.func.id in HELPERS and n.func.id not in self.bound and not n.keywords and self.depth < 12:
            h = HELPERS[n.func.id]
            expr = _single_return(h)
            params = [a.arg for a in h.args.args]
            if expr is not None and len(params) == len(n.args) and not h.args.vararg and not h.args.kwarg and not h.args.kwonlyargs:
                args = [self.visit(a) for a in n.args]
                self.depth += 1
                sub = _Expand(dict(zip(params, args)))
                sub.depth = self.depth
                r = sub.visit(copy.deepcopy(expr))
                r = self.visit(r)
                self.depth -= 1
                return r
        return self.generic_visit(n)

    def visit_Name(self, n: ast.Name):
        if isinstance(n.ctx, ast.Load) and n.id in self.single and n.id not in self.bound and self.depth < 12:
            self.depth += 1
            r = self.visit(copy.deepcopy(self.single[n.id]))
            self.depth -= 1
            return r
        return n

    def _comp(self, n):
        saved = set(self.bound)
        for g in n.generators:
            g.iter = self.visit(g.iter)
            for x in ast.walk(g.target):
                if isinstance(x, ast.Name):
                    self.bound.add(x.id)
            g.ifs = [self.visit(c) for c in g.ifs]
        if isinstance(n, ast.DictComp):
            n.key = self.visit(n.key)
            n.value = self.visit(n.value)
        else:
            n.elt = self.visit(n.elt)
        self.bound = saved
        return n

    visit_ListComp = _comp
    visit_GeneratorExp = _comp
    visit_SetComp = _comp
    visit_DictComp = _comp

    def visit_Lambda(self, n):
        return n


def expand(e: ast.AST, single: Dict[str, ast.AST]) -> ast.AST:
    return _Expand(single).visit(copy.deepcopy(e))


def _is_src(e: ast.AST, source: str) -> bool:
    return short(e) == source


def filtered(e: ast.AST, source: str) -> Optional[str]:
    """Classify an iterable expression: 'not-none' / 'truthy' / 'none' (unfiltered source) / None (something else)."""
    if _is_src(e, source) or (isinstance(e, ast.Name) and e.id == "self" and source == "self._underlying"):
        return "none"
    if isinstance(e, ast.Call) and short(e.func) in ("list", "tuple") and len(e.args) == 1:
        return filtered(e.args[0], source)
    if isinstance(e, ast.Call) and short(e.func) == "filter" and len(e.args) == 2:
        if isinstance(e.args[0], ast.Constant) and e.args[0].value is None and filtered(e.args[1], source) == "none":
            return "truthy"
        if isinstance(e.args[0], ast.Lambda) and filtered(e.args[1], source) == "none":
            lam = e.args[0]
            if len(lam.args.args) == 1 and short(lam.body) == f"{lam.args.args[0].arg} is not None":
                return "not-none"
        return None
    if isinstance(e, (ast.ListComp, ast.GeneratorExp)) and len(e.generators) == 1:
        g = e.generators[0]
        if isinstance(g.target, ast.Name) and isinstance(e.elt, ast.Name) and e.elt.id == g.target.id:
            base = filtered(g.iter, source)
            if base is None:
                return None
            v = g.target.id
            if not g.ifs:
                return base
            conds = [short(c) for c in g.ifs]
            if conds == [f"{v} is not None"]:
                return "not-none" if base in ("none", "not-none") else None
            if conds == [v]:
                return "truthy"
            return None
    return None


def _ones_over(e: ast.AST, source: str) -> Optional[str]:
    """(1 for v in SRC if v is not None) -> filter class"""
    if isinstance(e, (ast.GeneratorExp, ast.ListComp)) and len(e.generators) == 1 and isinstance(e.elt, ast.Constant) and e.elt.value == 1:
        g = e.generators[0]
        if isinstance(g.target, ast.Name):
            fake = ast.GeneratorExp(elt=ast.Name(id=g.target.id, ctx=ast.Load()), generators=e.generators)
            return filtered(fake, source)
    return None


def _call(e, name, nargs=1):
    return isinstance(e, ast.Call) and short(e.func) == name and len(e.args) == nargs and not e.keywords


def _mean_of(e: ast.AST, source: str) -> Optional[str]:
    """sum(F) / len(F) -> filter class of F (both the same)"""
    if isinstance(e, ast.BinOp) and isinstance(e.op, ast.Div) and _call(e.left, "sum") and _call(e.right, "len"):
        a, b = filtered(e.left.args[0], source), filtered(e.right.args[0], source)
        if a is not None and a == b:
            return a
        return f"mismatch:{a}/{b}"
    return None


def facts_of(fn: ast.AST, source: str, helpers: Optional[Dict[str, ast.AST]] = None, bindings: Optional[Dict[str, ast.AST]] = None) -> dict:
    """fn: FunctionDef or Lambda whose reduction reads `source`.  `helpers`: single-expression functions the reducer may call
    (expanded in place); `bindings`: free variables of a closure made by a factory (pick -> min)."""
    global HELPERS
    saved = HELPERS
    HELPERS = dict(helpers or {})
    try:
        return _facts_of(fn, source, bindings or {})
    finally:
        HELPERS = saved


def _facts_of(fn: ast.AST, source: str, bindings: Dict[str, ast.AST]) -> dict:
    if isinstance(fn, ast.Lambda):
        body = [ast.Return(value=fn.body)]
    else:
        body = [s for s in fn.body if not (isinstance(s, ast.Expr) and isinstance(s.value, ast.Constant))]
    _, single = _inline(fn, body)
    for k_, v_ in bindings.items():
        single.setdefault(k_, v_)
    rets = [s for s in ast.walk(ast.Module(body=body, type_ignores=[])) if isinstance(s, ast.Return)]
    out = {"kind": "?", "filter": "?", "empty": "?", "min_count": None, "divisor": None, "detail": ""}
    # early `return None` guards on the count of values
    guards = []
    for st in body:
        if isinstance(st, ast.If) and len(st.body) == 1 and isinstance(st.body[0], ast.Return) \
                and (st.body[0].value is None or (isinstance(st.body[0].value, ast.Constant) and st.body[0].value.value is None)):
            guards.append(expand(st.test, single))
    final = [r for r in rets if not (r.value is None or (isinstance(r.value, ast.Constant) and r.value.value is None))]
    # ignore table-recursion returns (`self.copy(...)`.T under ndims()==2)
    final = [r for r in final if "ndims" not in short(r.value) and ".copy(" not in short(r.value)]
    if len(final) != 1:
        out["detail"] = f"{len(final)} value returns"
        return out
    e = expand(final[0].value, single)
    out["detail"] = short(e, 160)
    cond_empty = None
    if isinstance(e, ast.IfExp):
        # X if F else None
        if isinstance(e.orelse, ast.Constant) and e.orelse.value is None:
            fc = filtered(e.test, source)
            cond_empty = fc
            inner = e.body
        else:
            return out
    else:
        inner = e
        # guard-clause form of the same thing:  if not F: return None
        for gtest in guards:
            if isinstance(gtest, ast.UnaryOp) and isinstance(gtest.op, ast.Not) and filtered(gtest.operand, source) is not None:
                cond_empty = filtered(gtest.operand, source)
            elif isinstance(gtest, ast.Compare) and len(gtest.ops) == 1 and isinstance(gtest.ops[0], ast.Eq) and _call(gtest.left, "len") \
                    and isinstance(gtest.comparators[0], ast.Constant) and gtest.comparators[0].value == 0 \
                    and filtered(gtest.left.args[0], source) is not None:
                cond_empty = filtered(gtest.left.args[0], source)
    # --- simple reducers
    # (_extreme(F, min) / _extreme(F, max): the builtin applied to F, with dates widened to midnight when F mixes dates and datetimes)
    if _call(inner, "_extreme", 2) and isinstance(inner.args[1], ast.Name) and inner.args[1].id in ("min", "max"):
        red = inner.args[1].id
        fc = filtered(inner.args[0], source)
        if fc is None:
            return out
        out.update(kind=red, filter=fc)
        if cond_empty is not None:
            out["empty"] = None if cond_empty == fc else f"guard-on-{cond_empty}"
        else:
            out["empty"] = "raises"
        return out
    for red in ("sum", "min", "max", "any", "all"):
        if _call(inner, red):
            arg = inner.args[0]
            ones = _ones_over(arg, source) if red == "sum" else None
            if ones is not None:
                out.update(kind="count", filter=ones, empty=0)
                return out
            fc = filtered(arg, source)
            if fc is None:
                return out
            out.update(kind=red, filter=fc)
            if cond_empty is not None:
                out["empty"] = None if cond_empty == fc else f"guard-on-{cond_empty}"
            else:
                out["empty"] = 0 if red == "sum" else ("raises" if red in ("min", "max") else {"any": False, "all": True}[red])
            return out
    if _call(inner, "len"):
        fc = filtered(inner.args[0], source)
        if fc is not None:
            out.update(kind="count", filter=fc, empty=0)
            return out
    m = _mean_of(inner, source)
    if m is not None:
        out.update(kind="mean", filter=m, divisor="n")
        out["empty"] = None if cond_empty == m else ("raises" if cond_empty is None else f"guard-on-{cond_empty}")
        return out
    # mean with a different divisor: sum(F)/len(G)
    if isinstance(inner, ast.BinOp) and isinstance(inner.op, ast.Div) and _call(inner.left, "sum"):
        out.update(kind="mean", filter=str(filtered(inner.left.args[0], source)), divisor=f"len({short(inner.right, 40)})")
        return out
    # --- stdev:  (sum(sqdev for x in F) / DEN) ** 0.5
    if isinstance(inner, ast.BinOp) and isinstance(inner.op, ast.Pow) and isinstance(inner.right, ast.Constant) and inner.right.value == 0.5:
        q = inner.left
        if isinstance(q, ast.BinOp) and isinstance(q.op, ast.Div) and _call(q.left, "sum") \
                and isinstance(q.left.args[0], (ast.GeneratorExp, ast.ListComp)):
            g = q.left.args[0]
            fc = filtered(g.generators[0].iter, source) if len(g.generators) == 1 and not g.generators[0].ifs else None
            x = g.generators[0].target.id if isinstance(g.generators[0].target, ast.Name) else None
            sq = g.elt
            dev = None
            if isinstance(sq, ast.BinOp) and isinstance(sq.op, ast.Pow) and isinstance(sq.right, ast.Constant) and sq.right.value == 2:
                dev = sq.left
                out["square"] = "d**2"       # pow(): not correctly rounded - differs from d*d in the last bit for some floats
            elif isinstance(sq, ast.BinOp) and isinstance(sq.op, ast.Mult) and ast.dump(sq.left) == ast.dump(sq.right):
                dev = sq.left
                out["square"] = "d*d"
            okdev = isinstance(dev, ast.BinOp) and isinstance(dev.op, ast.Sub) and isinstance(dev.left, ast.Name) and dev.left.id == x \
                and _mean_of(dev.right, source) == fc
            den = q.right
            dtext = None
            if isinstance(den, ast.BinOp) and isinstance(den.op, ast.Sub) and _call(den.left, "len") \
                    and filtered(den.left.args[0], source) == fc and isinstance(den.right, ast.Constant) and den.right.value == 1:
                dtext = "n-1"
            elif isinstance(den, ast.BinOp) and isinstance(den.op, ast.Add) and isinstance(den.left, ast.BinOp) \
                    and isinstance(den.left.op, ast.Sub) and _call(den.left.left, "len") and filtered(den.left.left.args[0], source) == fc \
                    and isinstance(den.left.right, ast.Constant) and den.left.right.value == 1 and isinstance(den.right, ast.Name):
                dtext = f"n-1+{den.right.id}"
            elif _call(den, "len") and filtered(den.args[0], source) == fc:
                dtext = "n"
            if fc is not None and okdev and dtext:
                mc = None
                for gtest in guards:
                    mc = mc or _min_count(gtest, source, fc)
                out.update(kind="stdev", filter=fc, divisor=dtext, min_count=mc, empty=None if mc else "raises")
                return out
    return out


def _min_count(test: ast.AST, source: str, fc: str) -> Optional[int]:
    """`len(F) < 2` / `len(F) <= 1` -> 2"""
    if isinstance(test, ast.Compare) and len(test.ops) == 1 and _call(test.left, "len") and filtered(test.left.args[0], source) == fc \
            and isinstance(test.comparators[0], ast.Constant) and isinstance(test.comparators[0].value, int):
        k = test.comparators[0].value
        if isinstance(test.ops[0], ast.Lt):
            return k
        if isinstance(test.ops[0], ast.LtE):
            return k + 1
    return None


SPEC = {
    "sum": {"kind": "sum", "filter": "not-none", "empty": 0},
    "count": {"kind": "count", "filter": "not-none", "empty": 0},
    "mean": {"kind": "mean", "filter": "not-none", "empty": None, "divisor": "n"},
    "min": {"kind": "min", "filter": "not-none", "empty": None},
    "max": {"kind": "max", "filter": "not-none", "empty": None},
    "stdev": {"kind": "stdev", "filter": "not-none", "empty": None, "divisor": "n-1", "min_count": 2},
}


def compare_with_spec(name: str, facts: dict) -> List[str]:
    want = SPEC[name]
    probs = []
    for k, v in want.items():
        got = facts.get(k)
        if k == "divisor" and name == "stdev" and got == "n-1+population":
            continue                       # Vector.stdev(population=False): n - 1 + False
        if got != v:
            probs.append(f"{k} is {got!r}, must be {v!r}")
    return probs

"""E9 - checker self-test (thorough tier only).

For each rule module a list MUTANTS of *armed mutants*: small edits of the CURRENT
source, applied in memory (the text of the edited construct must occur exactly
`count` times in the current module, otherwise the mutant is skipped and reported -
never an error).  The property's rules must report a NEW finding on every armed
mutant and must stay silent on every behaviour-preserving twin.  Seeded changes kept
under /verif/seeded/<name>/ (patch.diff + meta.json) are replayed the same way on a
scratch copy of the source directory.

The outcome is recorded in the evidence; it never produces a VIOLATION line and never
changes the exit code (a VIOLATION is a statement about /repo, not about the checker).
"""
from __future__ import annotations

import importlib
import json
import os
import shutil
import subprocess
import tempfile
from concurrent.futures import ProcessPoolExecutor
from typing import Dict, List, Optional, Tuple

from .core import AnalysisError, Program
from .report import VERIF

SEEDED_DIR = os.path.join(VERIF, "seeded")
TWINS_DIR = os.path.join(VERIF, "twins")


def _run_on(prop: str, prog: Program):
    from .__main__ import run_rules
    try:
        ctx = run_rules(prop, prog, "quick", quiet=True)
        keys = sorted({f.key for f in ctx.findings})
        msgs = [f"{f.rule}: {f.message}" for f in ctx.findings]
        if ctx.analysis_errors and not keys:
            return ("analysis-error", [], ctx.analysis_errors)
        return ("ok", keys, msgs + ctx.analysis_errors)
    except AnalysisError as e:
        return ("analysis-error", [], [str(e)])
    except Exception as e:  # pragma: no cover
        return ("analysis-error", [], [f"internal: {type(e).__name__}: {e}"])


def _apply_edits(sources: Dict[str, str], edits) -> Optional[Dict[str, str]]:
    out = dict(sources)
    for e in edits:
        module, old, new, count = e[:4]
        nth = e[4] if len(e) > 4 else None
        src = out.get(module)
        if src is None or src.count(old) != count:
            return None
        if nth is None:
            out[module] = src.replace(old, new)
        else:
            pos = -1
            for _ in range(nth + 1):
                pos = src.index(old, pos + 1)
            out[module] = src[:pos] + new + src[pos + len(old):]
    return out


def _one_mutant(args):
    prop, sources, root, m, baseline = args
    edits = m.get("edits") or [(m["module"], m["old"], m["new"], m.get("count", 1))
                               + ((m["nth"],) if "nth" in m else ())]
    edits = [tuple(e) if len(e) >= 4 else tuple(e) + (1,) for e in edits]
    new_sources = _apply_edits(sources, edits)
    if new_sources is None:
        return (m["id"], "skipped", [], [])
    try:
        prog = Program(new_sources, root)
    except AnalysisError as e:
        return (m["id"], "analysis-error", [], [str(e)])
    status, keys, msgs = _run_on(prop, prog)
    new = [k for k in keys if k not in baseline]
    return (m["id"], status, new, msgs)


def _one_seeded(args):
    prop, src_dir, name, baseline = args
    patch = os.path.join(TWINS_DIR if name.startswith("twin:") else SEEDED_DIR, name.split(":", 1)[-1], "patch.diff")
    tmp = tempfile.mkdtemp(prefix="serifscan-seed-")
    try:
        dst = os.path.join(tmp, "src", "serif")
        shutil.copytree(src_dir, dst, ignore=shutil.ignore_patterns("__pycache__"))
        r = subprocess.run(["patch", "-p1", "-s", "-F0", "--no-backup-if-mismatch", "-d", tmp, "-i", patch],
                           capture_output=True, text=True)
        if r.returncode != 0:
            return (name, "skipped", [], [r.stdout.strip()[:200]])
        try:
            prog = Program.from_dir(dst)
        except AnalysisError as e:
            return (name, "analysis-error", [], [str(e)])
        status, keys, msgs = _run_on(prop, prog)
        new = [k for k in keys if k not in baseline]
        return (name, status, new, msgs)
    finally:
        shutil.rmtree(tmp, ignore_errors=True)


def refactor_twins() -> List[str]:
    """Behaviour-preserving refactorings (twins/<name>/patch.diff): every check must stay silent on every one of them."""
    if not os.path.isdir(TWINS_DIR):
        return []
    return sorted(n for n in os.listdir(TWINS_DIR) if os.path.exists(os.path.join(TWINS_DIR, n, "patch.diff")))


def seeded_for(prop: str) -> List[str]:
    out = []
    if not os.path.isdir(SEEDED_DIR):
        return out
    for name in sorted(os.listdir(SEEDED_DIR)):
        meta = os.path.join(SEEDED_DIR, name, "meta.json")
        if os.path.exists(meta):
            try:
                with open(meta) as f:
                    md = json.load(f)
            except Exception:
                continue
            if prop in md.get("expected_detected_by", [md.get("property")]):
                out.append(name)
    return out


def run_selftest(prop: str, prog: Program, ctx, seed: int = 0) -> dict:
    mod = importlib.import_module(f"serifscan.rules.{prop.lower()}")
    mutants = list(getattr(mod, "MUTANTS", []))
    baseline = {f.key for f in ctx.findings}
    sources = prog.sources()
    jobs = [(prop, sources, prog.root, m, baseline) for m in mutants]
    seeded = seeded_for(prop)
    sjobs = [(prop, prog.root, name, baseline) for name in seeded]
    rtwins = refactor_twins()
    tjobs = [(prop, prog.root, "twin:" + name, baseline) for name in rtwins]
    workers = min(16, max(1, len(jobs) + len(sjobs) + len(tjobs)))
    results, sresults, tresults = [], [], []
    if jobs or sjobs or tjobs:
        with ProcessPoolExecutor(max_workers=workers) as ex:
            results = list(ex.map(_one_mutant, jobs))
            sresults = list(ex.map(_one_seeded, sjobs))
            tresults = list(ex.map(_one_seeded, tjobs))
    by_id = {m["id"]: m for m in mutants}
    st = {"armed": 0, "fired": 0, "skipped": 0, "twins": 0, "twins_silent": 0, "analysis_error": 0,
          "missed": [], "noisy": [], "details": [], "seeded": len(seeded), "seeded_fired": 0, "seeded_details": []}
    for mid, status, new, msgs in results:
        m = by_id[mid]
        twin = m.get("twin", False)
        if status == "skipped":
            st["skipped"] += 1
            st["details"].append({"id": mid, "result": "skipped (anchor text not found in the current tree)"})
            continue
        if twin:
            st["twins"] += 1
            if status == "ok" and not new:
                st["twins_silent"] += 1
                st["details"].append({"id": mid, "twin": True, "result": "silent"})
            else:
                st["noisy"].append(f"{mid}: {status} {new[:2]} {msgs[:1]}")
                st["details"].append({"id": mid, "twin": True, "result": f"NOISY {status}", "new": new, "msgs": msgs[:2]})
            continue
        st["armed"] += 1
        want = m.get("rules")
        hit = [k for k in new if (not want or any(f"/{w}/" in k for w in want))]
        if status == "ok" and hit:
            st["fired"] += 1
            st["details"].append({"id": mid, "result": "fired", "desc": m.get("desc", ""), "new": hit[:3]})
        elif status == "analysis-error":
            st["analysis_error"] += 1
            st["missed"].append(f"{mid}: analysis-error instead of a finding ({msgs[:1]})")
            st["details"].append({"id": mid, "result": "analysis-error (fail-closed, exit 2)", "msgs": msgs[:1]})
        else:
            st["missed"].append(f"{mid}: no new finding" + (f" of rules {want}" if want else "") + f" (new={new[:2]})")
            st["details"].append({"id": mid, "result": "MISSED", "desc": m.get("desc", "")})
    for name, status, new, msgs in sresults:
        if status == "ok" and new:
            st["seeded_fired"] += 1
            st["seeded_details"].append({"seeded": name, "result": "fired", "new": new[:3]})
        else:
            st["seeded_details"].append({"seeded": name, "result": f"{status}: no new finding", "msgs": msgs[:1]})
            st["missed"].append(f"seeded/{name}: {status}, no new finding")
    st["refactor_twins"] = len(rtwins)
    st["refactor_twins_silent"] = 0
    st["refactor_twin_details"] = []
    for name, status, new, msgs in tresults:
        if status == "ok" and not new:
            st["refactor_twins_silent"] += 1
        else:
            st["noisy"].append(f"{name}: {status} {new[:2]} {msgs[:1]}")
            st["refactor_twin_details"].append({"twin": name, "result": f"NOISY {status}", "new": new[:3], "msgs": msgs[:2]})
    return st

"""Small dataflow helpers shared by the rules (all intraprocedural, syntax-directed)."""
from __future__ import annotations

import ast
from typing import Dict, Iterator, List, Optional, Set, Tuple

from .core import AnalysisError, FuncInfo, attr_chain, short, walk_no_nested, walk_stmts


class Defs:
    """All bindings of local names in one function body (not entering nested defs)."""

    def __init__(self, func: FuncInfo):
        self.func = func
        self.assigns: Dict[str, List[Tuple[Optional[ast.AST], ast.stmt, str]]] = {}
        # name -> [(value expr or None, statement, how)] ; how in assign/aug/for/with/unpack/param/except
        for p in func.params:
            self.assigns.setdefault(p, []).append((None, func.node, "param"))
        for st in walk_stmts(func.body):
            self._stmt(st)
            # comprehension / lambda variables are expression-local: ignored on purpose

    def _bind(self, target: ast.AST, value: Optional[ast.AST], st: ast.stmt, how: str) -> None:
        if isinstance(target, ast.Name):
            self.assigns.setdefault(target.id, []).append((value, st, how))
        elif isinstance(target, (ast.Tuple, ast.List)):
            for i, e in enumerate(target.elts):
                self._bind(e, value, st, f"unpack:{i}" if how in ("assign", "for") else how)
        elif isinstance(target, ast.Starred):
            self._bind(target.value, value, st, "unpack:*")

    def _stmt(self, st: ast.stmt) -> None:
        if isinstance(st, ast.Assign):
            for t in st.targets:
                self._bind(t, st.value, st, "assign")
        elif isinstance(st, ast.AnnAssign) and st.value is not None:
            self._bind(st.target, st.value, st, "assign")
        elif isinstance(st, ast.AugAssign):
            self._bind(st.target, st.value, st, "aug")
        elif isinstance(st, (ast.For, ast.AsyncFor)):
            self._bind(st.target, st.iter, st, "for")
        elif isinstance(st, (ast.With, ast.AsyncWith)):
            for it in st.items:
                if it.optional_vars is not None:
                    self._bind(it.optional_vars, it.context_expr, st, "with")
        elif isinstance(st, ast.Try):
            for h in st.handlers:
                if h.name:
                    self.assigns.setdefault(h.name, []).append((None, st, "except"))
        elif isinstance(st, (ast.FunctionDef, ast.AsyncFunctionDef)):
            self.assigns.setdefault(st.name, []).append((None, st, "def"))
        # walrus
        if not isinstance(st, (ast.FunctionDef, ast.AsyncFunctionDef, ast.ClassDef)):
            for n in walk_no_nested(st):
                if isinstance(n, ast.NamedExpr):
                    self._bind(n.target, n.value, st, "assign")

    def single(self, name: str) -> Optional[ast.AST]:
        """The value expression if `name` is bound exactly once by a plain assignment."""
        a = self.assigns.get(name, [])
        if len(a) == 1 and a[0][2] == "assign":
            return a[0][0]
        return None

    def values(self, name: str) -> List[ast.AST]:
        return [v for v, _, how in self.assigns.get(name, []) if v is not None and how == "assign"]

    def resolve(self, expr: ast.AST, depth: int = 6) -> ast.AST:
        """Follow single-assignment local names:  n -> len(self)  etc."""
        while depth > 0 and isinstance(expr, ast.Name):
            v = self.single(expr.id)
            if v is None:
                break
            expr = v
            depth -= 1
        return expr

    def is_param(self, name: str) -> bool:
        return any(how == "param" for _, _, how in self.assigns.get(name, []))


def is_call_to(node: ast.AST, *names: str) -> bool:
    if not isinstance(node, ast.Call):
        return False
    ch = attr_chain(node.func)
    return ch is not None and ".".join(ch) in names


def is_len_of(node: ast.AST, what: str) -> bool:
    """len(<what>) where what is a dotted name like 'self' or 'self._underlying'."""
    if isinstance(node, ast.Call) and isinstance(node.func, ast.Name) and node.func.id == "len" and len(node.args) == 1:
        ch = attr_chain(node.args[0])
        return ch is not None and ".".join(ch) == what
    return False


def is_range_of(node: ast.AST) -> Optional[ast.AST]:
    """range(X) with a single argument -> X ; None otherwise (start/step forms are rejected)."""
    if isinstance(node, ast.Call) and isinstance(node.func, ast.Name) and node.func.id == "range":
        if len(node.args) == 1 and not node.keywords:
            return node.args[0]
    return None


def str_set(node: ast.AST) -> Optional[Set[str]]:
    """Literal tuple/list/set of string constants -> set."""
    if isinstance(node, (ast.Tuple, ast.List, ast.Set)):
        out = set()
        for e in node.elts:
            if isinstance(e, ast.Constant) and isinstance(e.value, str):
                out.add(e.value)
            else:
                return None
        return out
    return None


def none_test(test: ast.AST) -> Optional[Tuple[str, bool]]:
    """`x is None` -> (x, True) ; `x is not None` -> (x, False) for a plain name x (or dotted)."""
    if isinstance(test, ast.Compare) and len(test.ops) == 1 and isinstance(test.comparators[0], ast.Constant) \
            and test.comparators[0].value is None:
        ch = attr_chain(test.left)
        if ch is None:
            return None
        if isinstance(test.ops[0], ast.Is):
            return (".".join(ch), True)
        if isinstance(test.ops[0], ast.IsNot):
            return (".".join(ch), False)
    return None


def raise_class(st: ast.Raise) -> Optional[str]:
    exc = st.exc
    if isinstance(exc, ast.Call):
        exc = exc.func
    if isinstance(exc, ast.Name):
        return exc.id
    return None


def contains(node: ast.AST, sub: ast.AST) -> bool:
    return any(n is sub for n in ast.walk(node))


def stmts_of(body: List[ast.stmt], typ) -> List[ast.stmt]:
    return [s for s in walk_stmts(body) if isinstance(s, typ)]


def loads(node: ast.AST) -> Set[str]:
    return {n.id for n in walk_no_nested(node) if isinstance(n, ast.Name) and isinstance(n.ctx, ast.Load)}


def method_calls_on(node: ast.AST, recv: str) -> List[Tuple[str, ast.Call]]:
    out = []
    for n in walk_no_nested(node):
        if isinstance(n, ast.Call) and isinstance(n.func, ast.Attribute):
            ch = attr_chain(n.func.value)
            if ch is not None and ".".join(ch) == recv:
                out.append((n.func.attr, n))
    return out

"""E7 for the three hash-join variants: extraction of structural roles by dataflow.

`JoinFacts(prog, 'inner_join' | 'join' | 'full_join')` recognises the roles of the
locals of a join function from what they are bound to and how they are used (never
from their spelling): the key projections, the row counts, the right-side index, the
index loop, the probe loop, the cardinality flags, the column-major result buffers
and every append into them.  If the function has been refactored beyond what the
extractor understands it raises AnalysisError (exit 2) - never a VIOLATION.
"""
from __future__ import annotations

import ast
from dataclasses import dataclass, field
from typing import Dict, List, Optional, Set, Tuple

from .astutil import Defs, is_len_of, is_range_of, loads, raise_class, str_set
from .core import AnalysisError, FuncInfo, Program, attr_chain, short, walk_no_nested, walk_stmts

VARIANTS = ("inner_join", "join", "full_join")


@dataclass
class Append:
    """One `buffer[idx].append(value)` event in the emission code."""
    node: ast.Call
    stmt: ast.stmt
    buf_side: str            # LEFT | RIGHT | ? (which block of result buffers is written)
    buf_index: str           # normalised index expression
    value_kind: str          # LEFT-ROW | RIGHT-ROW | NONE | ?
    value_detail: str
    loop_domain: str         # what the enclosing per-column loop ranges over
    context: str             # matched | unmatched-left | sweep | ?
    path: List[ast.stmt] = field(default_factory=list)


class JoinFacts:
    def __init__(self, prog: Program, variant: str):
        self.prog = prog
        self.variant = variant
        self.f: FuncInfo = prog.func(f"table.Table.{variant}")
        self.defs = Defs(self.f)
        p = self.f.params
        if len(p) < 5:
            raise AnalysisError(f"{self.f.qualname}: expected (self, other, left_on, right_on, expect), got {p}")
        self.p_self, self.p_other, self.p_left_on, self.p_right_on, self.p_expect = p[:5]
        self.top: List[ast.stmt] = [s for s in self.f.body
                                     if not (isinstance(s, ast.Expr) and isinstance(s.value, ast.Constant))]
        self._roles()

    # ------------------------------------------------------------------
    def _err(self, what: str):
        raise AnalysisError(f"{self.f.qualname}: join structure not recognised - {what}")

    def _name_bound_to(self, pred) -> List[str]:
        out = []
        for name, lst in self.defs.assigns.items():
            for v, st, how in lst:
                if how == "assign" and v is not None and pred(v):
                    out.append(name)
        return out

    def _roles(self) -> None:
        d = self.defs
        # row counts / column tuples -------------------------------------------------
        self.left_nrows = set(self._name_bound_to(lambda v: is_len_of(v, self.p_self)))
        self.right_nrows = set(self._name_bound_to(lambda v: is_len_of(v, self.p_other)))
        self.left_cols = set(self._name_bound_to(
            lambda v: attr_chain(v) == [self.p_self, "_underlying"] or _is_call_attr(v, self.p_self, "cols")))
        self.right_cols = set(self._name_bound_to(
            lambda v: attr_chain(v) == [self.p_other, "_underlying"] or _is_call_attr(v, self.p_other, "cols")))
        if not (self.left_cols and self.right_cols):
            self._err("left/right column tuples (self._underlying / other._underlying) not bound")
        self.n_left_cols = set(self._name_bound_to(
            lambda v: isinstance(v, ast.Call) and isinstance(v.func, ast.Name) and v.func.id == "len"
            and len(v.args) == 1 and isinstance(v.args[0], ast.Name) and v.args[0].id in self.left_cols))
        self.n_right_cols = set(self._name_bound_to(
            lambda v: isinstance(v, ast.Call) and isinstance(v.func, ast.Name) and v.func.id == "len"
            and len(v.args) == 1 and isinstance(v.args[0], ast.Name) and v.args[0].id in self.right_cols))

        # key pairs and projections --------------------------------------------------
        self.pairs_call: Optional[ast.Call] = None
        self.pairs_var = None
        for name, lst in d.assigns.items():
            for v, st, how in lst:
                if how == "assign" and isinstance(v, ast.Call) and isinstance(v.func, ast.Attribute) \
                        and v.func.attr == "_validate_join_keys":
                    self.pairs_var, self.pairs_call, self.pairs_stmt = name, v, st
        if self.pairs_var is None:
            self._err("call to _validate_join_keys not found")
        self.left_keys, self.right_keys = None, None
        self.key_proj: Dict[str, int] = {}
        for name, lst in d.assigns.items():
            for v, st, how in lst:
                if how == "assign" and isinstance(v, ast.ListComp) and len(v.generators) == 1:
                    g = v.generators[0]
                    if isinstance(g.iter, ast.Name) and g.iter.id == self.pairs_var and not g.ifs \
                            and isinstance(g.target, ast.Tuple) and len(g.target.elts) == 2 \
                            and isinstance(v.elt, ast.Name):
                        names = [e.id if isinstance(e, ast.Name) else None for e in g.target.elts]
                        if v.elt.id in names:
                            self.key_proj[name] = names.index(v.elt.id)
        for name, idx in self.key_proj.items():
            if idx == 0:
                self.left_keys = name
            elif idx == 1:
                self.right_keys = name

        # index dict: assigned {} and subscript-stored with a one-element list in a for loop ----
        self.index_var = None
        self.index_loop: Optional[ast.For] = None
        for st in self.top:
            if isinstance(st, ast.For):
                for s in walk_stmts(st.body):
                    if isinstance(s, ast.Assign) and len(s.targets) == 1 and isinstance(s.targets[0], ast.Subscript) \
                            and isinstance(s.targets[0].value, ast.Name) and isinstance(s.value, ast.List) \
                            and len(s.value.elts) == 1:
                        cand = s.targets[0].value.id
                        v = d.single(cand)
                        if isinstance(v, ast.Dict) and not v.keys:
                            self.index_var, self.index_loop, self.index_first_store = cand, st, s
        if self.index_var is None:
            self._err("right-side hash index (dict filled with one-element lists in a for loop) not found")
        # aliases of index.get
        self.index_get = {f"{self.index_var}.get"}
        for name, lst in d.assigns.items():
            for v, st, how in lst:
                if how == "assign" and attr_chain(v) == [self.index_var, "get"]:
                    self.index_get.add(name)

        # probe loop: top-level for whose body calls index.get ----------------------------
        self.probe_loop: Optional[ast.For] = None
        for st in self.top:
            if isinstance(st, ast.For) and st is not self.index_loop:
                for n in walk_no_nested(st):
                    if isinstance(n, ast.Call) and _callee(n) in self.index_get:
                        self.probe_loop = st
        if self.probe_loop is None:
            self._err("probe loop (for loop that looks keys up in the index) not found")

        # sweep loop (full join): top-level for after the probe loop that writes the result buffers
        # (resolved after the buffers are known, see _find_sweep)
        self.sweep_loop: Optional[ast.For] = None

        # flags -----------------------------------------------------------------------
        self.flags: Dict[str, Tuple[Set[str], ast.stmt]] = {}
        for name, lst in d.assigns.items():
            for v, st, how in lst:
                if how == "assign" and isinstance(v, ast.Compare) and len(v.ops) == 1 \
                        and isinstance(v.ops[0], ast.In) and isinstance(v.left, ast.Name) \
                        and v.left.id == self.p_expect:
                    ss = str_set(v.comparators[0])
                    if ss is None:
                        self._err(f"flag {name}: option set is not a literal of strings")
                    if name in self.flags:
                        self._err(f"flag {name} assigned twice")
                    self.flags[name] = (ss, st)

        # validation -------------------------------------------------------------------
        self.validation: Optional[ast.If] = None
        self.valid_set: Optional[Set[str]] = None
        for st in walk_stmts(self.f.body):
            if isinstance(st, ast.If) and isinstance(st.test, ast.Compare) and len(st.test.ops) == 1 \
                    and isinstance(st.test.ops[0], ast.NotIn) and isinstance(st.test.left, ast.Name) \
                    and st.test.left.id == self.p_expect:
                ss = str_set(st.test.comparators[0])
                if ss is not None and any(isinstance(b, ast.Raise) for b in st.body):
                    self.validation, self.valid_set = st, ss

        # result buffers ------------------------------------------------------------------
        self.result_data = None
        for name, lst in d.assigns.items():
            for v, st, how in lst:
                if how == "assign" and isinstance(v, ast.ListComp) and isinstance(v.elt, ast.List) and not v.elt.elts:
                    self.result_data, self.result_data_stmt, self.result_data_comp = name, st, v
        if self.result_data is None:
            self._err("column-major result buffers ([[] for _ in range(...)]) not found")
        self.append_alias = set()
        for name, lst in d.assigns.items():
            for v, st, how in lst:
                if how == "assign" and isinstance(v, ast.ListComp) and len(v.generators) == 1 \
                        and isinstance(v.generators[0].iter, ast.Name) and v.generators[0].iter.id == self.result_data \
                        and isinstance(v.elt, ast.Attribute) and v.elt.attr == "append" \
                        and isinstance(v.elt.value, ast.Name) and isinstance(v.generators[0].target, ast.Name) \
                        and v.elt.value.id == v.generators[0].target.id and not v.generators[0].ifs:
                    self.append_alias.add(name)
        self._find_sweep()

    def _find_sweep(self) -> None:
        after = False
        for st in self.top:
            if st is self.probe_loop:
                after = True
                continue
            if after and isinstance(st, ast.For):
                for n in walk_no_nested(st):
                    if isinstance(n, ast.Call):
                        fn = n.func
                        if (isinstance(fn, ast.Subscript) and isinstance(fn.value, ast.Name) and fn.value.id in self.append_alias) \
                                or (isinstance(fn, ast.Attribute) and isinstance(fn.value, ast.Subscript)
                                    and isinstance(fn.value.value, ast.Name) and fn.value.value.id == self.result_data):
                            if self.sweep_loop is None:
                                self.sweep_loop = st

    # ------------------------------------------------------------------
    def loop_range_of(self, loop: ast.For) -> str:
        """LEFT-ROWS / RIGHT-ROWS / other text: what a row loop ranges over."""
        r = is_range_of(loop.iter)
        if r is None:
            return "?" + short(loop.iter)
        r = self.defs.resolve(r) if not (isinstance(r, ast.Name) and (r.id in self.left_nrows or r.id in self.right_nrows)) else r
        if isinstance(r, ast.Name):
            if r.id in self.left_nrows:
                return "LEFT-ROWS"
            if r.id in self.right_nrows:
                return "RIGHT-ROWS"
        if is_len_of(r, self.p_self):
            return "LEFT-ROWS"
        if is_len_of(r, self.p_other):
            return "RIGHT-ROWS"
        return "?" + short(r)

    def key_expr(self, loop: ast.For) -> Optional[Tuple[str, str, ast.stmt]]:
        """In a row loop: `key = tuple(col[<rowvar>] for col in <keys>)` -> (keys var, row var, stmt)."""
        for st in loop.body:
            if isinstance(st, ast.Assign) and isinstance(st.value, ast.Call) and isinstance(st.value.func, ast.Name) \
                    and st.value.func.id == "tuple" and len(st.value.args) == 1 \
                    and isinstance(st.value.args[0], ast.GeneratorExp):
                g = st.value.args[0]
                if len(g.generators) == 1 and not g.generators[0].ifs and isinstance(g.generators[0].iter, ast.Name) \
                        and isinstance(g.elt, ast.Subscript) and isinstance(g.elt.value, ast.Name) \
                        and isinstance(g.generators[0].target, ast.Name) \
                        and g.elt.value.id == g.generators[0].target.id and isinstance(g.elt.slice, ast.Name):
                    return (g.generators[0].iter.id, g.elt.slice.id, st)
        return None

    # ---- appends ---------------------------------------------------------------
    def appends(self) -> List[Append]:
        out: List[Append] = []

        def visit(body: List[ast.stmt], path: List[ast.stmt]):
            for st in body:
                if isinstance(st, (ast.For, ast.While)):
                    visit(st.body, path + [st])
                    visit(st.orelse, path + [st])
                elif isinstance(st, ast.If):
                    visit(st.body, path + [("T", st)])
                    visit(st.orelse, path + [("F", st)])
                elif isinstance(st, ast.Try):
                    visit(st.body, path + [st])
                    for h in st.handlers:
                        visit(h.body, path + [st])
                elif isinstance(st, ast.With):
                    visit(st.body, path + [st])
                else:
                    for n in walk_no_nested(st):
                        if isinstance(n, ast.Call):
                            a = self._classify_append(n, st, path)
                            if a is not None:
                                out.append(a)
        visit(self.f.body, [])
        return out

    def _classify_append(self, call: ast.Call, st: ast.stmt, path) -> Optional[Append]:
        idx = None
        fn = call.func
        # append_cols[idx](value)
        if isinstance(fn, ast.Subscript) and isinstance(fn.value, ast.Name) and fn.value.id in self.append_alias:
            idx = fn.slice
        # result_data[idx].append(value)
        elif isinstance(fn, ast.Attribute) and fn.attr == "append" and isinstance(fn.value, ast.Subscript) \
                and isinstance(fn.value.value, ast.Name) and fn.value.value.id == self.result_data:
            idx = fn.value.slice
        else:
            # any other write event on the buffers is unknown to the discipline
            if isinstance(fn, ast.Attribute) and isinstance(fn.value, ast.Subscript) \
                    and isinstance(fn.value.value, ast.Name) and fn.value.value.id == self.result_data:
                return Append(call, st, "?", short(fn.value.slice), "?", f"unexpected buffer method {fn.attr}", "?", "?", path)
            return None
        if len(call.args) != 1:
            return Append(call, st, "?", short(idx), "?", "append with != 1 argument", "?", "?", path)
        loops = [p for p in path if isinstance(p, ast.For)]
        inner = loops[-1] if loops else None
        # --- which buffer block ---
        buf_side, loop_domain = "?", "?"
        if inner is not None:
            tgt = inner.target
            it = inner.iter
            # for c_idx, col in enumerate(<cols>)
            if isinstance(it, ast.Call) and isinstance(it.func, ast.Name) and it.func.id == "enumerate" \
                    and len(it.args) == 1 and isinstance(it.args[0], ast.Name) and isinstance(tgt, ast.Tuple) \
                    and len(tgt.elts) == 2 and all(isinstance(e, ast.Name) for e in tgt.elts):
                ivar, cvar = tgt.elts[0].id, tgt.elts[1].id
                dom = it.args[0].id
                loop_domain = "LEFT-COLS" if dom in self.left_cols else "RIGHT-COLS" if dom in self.right_cols else "?" + dom
                buf_side = self._buf_side(idx, ivar)
            else:
                r = is_range_of(it)
                if r is not None and isinstance(tgt, ast.Name):
                    ivar = tgt.id
                    rr = r
                    if isinstance(rr, ast.Name) and rr.id in self.n_left_cols:
                        loop_domain = "LEFT-COLS"
                    elif isinstance(rr, ast.Name) and rr.id in self.n_right_cols:
                        loop_domain = "RIGHT-COLS"
                    else:
                        loop_domain = "?" + short(rr)
                    buf_side = self._buf_side(idx, ivar)
        # --- value ---
        v = call.args[0]
        vk, vd = "?", short(v)
        if isinstance(v, ast.Constant) and v.value is None:
            vk = "NONE"
        elif isinstance(v, ast.Subscript) and isinstance(v.value, ast.Name) and isinstance(v.slice, ast.Name):
            col_var, row_var = v.value.id, v.slice.id
            col_side = None
            if inner is not None and isinstance(inner.target, ast.Tuple) and len(inner.target.elts) == 2 \
                    and isinstance(inner.target.elts[1], ast.Name) and inner.target.elts[1].id == col_var:
                col_side = "LEFT" if loop_domain == "LEFT-COLS" else "RIGHT" if loop_domain == "RIGHT-COLS" else None
            row_side = self._row_var_side(row_var, path)
            if col_side and row_side and col_side == row_side:
                vk = f"{col_side}-ROW"
                vd = f"{col_var}[{row_var}] col from {loop_domain}, row {row_side}"
            else:
                vd = f"{col_var}[{row_var}] col side {col_side}, row side {row_side}"
        return Append(call, st, buf_side, short(idx), vk, vd, loop_domain, self._context(path), path)

    def _buf_side(self, idx: ast.AST, ivar: str) -> str:
        if isinstance(idx, ast.Name) and idx.id == ivar:
            return "LEFT"
        if isinstance(idx, ast.BinOp) and isinstance(idx.op, ast.Add):
            for a, b in ((idx.left, idx.right), (idx.right, idx.left)):
                if isinstance(b, ast.Name) and b.id == ivar and isinstance(a, ast.Name):
                    base = a.id
                    if base in self.n_left_cols:
                        return "RIGHT"
                    for v in self.defs.values(base):
                        pass
                    vals = self.defs.values(base)
                    if vals and all(isinstance(x, ast.Name) and x.id in self.n_left_cols for x in vals):
                        return "RIGHT"
        return "?"

    def _row_var_side(self, row_var: str, path) -> Optional[str]:
        for p in reversed(path):
            if isinstance(p, ast.For) and isinstance(p.target, ast.Name) and p.target.id == row_var:
                dom = self.loop_range_of(p)
                if dom == "LEFT-ROWS":
                    return "LEFT"
                if dom == "RIGHT-ROWS":
                    return "RIGHT"
                # for right_idx in matches (bucket of right row indices)
                if isinstance(p.iter, ast.Name) and self._is_bucket(p.iter.id):
                    return "RIGHT"
                return None
        return None

    def _is_bucket(self, name: str) -> bool:
        vals = self.defs.values(name)
        return bool(vals) and all(isinstance(v, ast.Call) and _callee(v) in self.index_get for v in vals)

    def bucket_vars(self) -> Set[str]:
        return {n for n in self.defs.assigns if self._is_bucket(n)}

    def _context(self, path) -> str:
        in_probe = any(p is self.probe_loop for p in path)
        in_sweep = self.sweep_loop is not None and any(p is self.sweep_loop for p in path)
        if in_sweep:
            return "sweep"
        if in_probe:
            for p in path:
                if isinstance(p, ast.For) and isinstance(p.iter, ast.Name) and self._is_bucket(p.iter.id):
                    return "matched"
            return "unmatched-left"
        return "?"


def _is_call_attr(v: ast.AST, recv: str, attr: str) -> bool:
    return isinstance(v, ast.Call) and not v.args and attr_chain(v.func) == [recv, attr]


def _callee(call: ast.Call) -> Optional[str]:
    ch = attr_chain(call.func)
    return ".".join(ch) if ch else None

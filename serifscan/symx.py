"""E8 - flow-sensitive abstract interpretation of one function over a TERM domain.

The rules of the structural families (joins, group-by / window, sort, naming kernels, csv,
display, ...) used to match the *shape* of the code (this loop, that helper, this index
expression).  Behaviour-preserving refactorings - a guard clause instead of a nested if, a
comprehension instead of an append loop, zip instead of enumerate, a local hoisted out of an
expression, six copies of a block folded into a loop over a literal table, a helper
extracted or a closure introduced - changed the shape and raised false alarms.

This module evaluates a function abstractly, WITHOUT running it and without a solver: every
local is bound to a *term* (an expression tree over the parameters, globals, loop elements
and opaque call results), every branch extends a *path condition*, and every effect that a
rule may care about is logged as an *event* (call, store, return, raise, yield) together
with the path condition and the loop nest it happens under.  What falls out is a normal
form in which

  * copy propagation is implicit          (terms, not names)
  * local closures / lambdas / helpers that are not part of the reference tree are inlined
  * `if c: continue` + rest  ==  `if not c: rest`           (conditions, not nesting)
  * `[e for x in xs]`  ==  `out = []; for x in xs: out.append(e)`   (both are append events)
  * a for-loop over a literal table of tuples is unrolled
  * enumerate / zip / range(len(x)) + x[i]  all give  elem(x, loop)

Terms are nested tuples (hashable, structural equality):

  ('const', typename, value)      ('param', name)        ('name', id)   free/global/builtin
  ('attr', t, name)   ('sub', t, i)   ('slice', lo, hi, step)
  ('call', f, (args..), ((kw, t)..))  with ('star', t) / ('dstar', t) inside args
  ('bin', op, a, b)  ('un', op, a)  ('cmp', op, a, b)  ('bool', 'and'|'or', (ts..))
  ('ifexp', c, a, b) ('tuple', (ts..))  ('fstr', (parts..))  ('fmt', t, conv, spec)
  ('obj', n)          a mutable object created in the function ([], {}, set(), [..], comprehension)
  ('lam', n)          a closure (nested def or lambda)
  ('elem', seq, L)    the element of `seq` visited by loop L        ('idx', L)  its 0-based position
  ('key', m, L) ('val', m, L)     for m.items()
  ('loopvar', name, L)            a loop-carried local inside loop L (see Interp.loops[L].carried)
  ('after', name, L)              its value after the loop
  ('first', L, v, d)              search idiom: v at the first element of loop L on which the loop breaks, else d
  ('unbound', name)               read of a local no assignment reaches
  ('exc', L)                      the exception bound by an except clause
"""
from __future__ import annotations

import ast
from dataclasses import dataclass, field
from typing import Callable, Dict, List, Optional, Sequence, Set, Tuple

from .core import AnalysisError, FuncInfo, Program, walk_no_nested

Term = tuple
Cond = Tuple[Term, bool]

NONE = ("const", "NoneType", None)
TRUE = ("const", "bool", True)
FALSE = ("const", "bool", False)


TRACKED_READS = {"_underlying"}       # fields whose reads are logged with their position in the event order (Interp.reads)


def const(v) -> Term:
    return ("const", type(v).__name__, v)


def _op(o: ast.AST) -> str:
    return type(o).__name__


@dataclass
class Loop:
    id: int
    kind: str                       # for | while | comp | unrolled
    iter: Optional[Term]            # the iterable term (for/comp), the test (while)
    node: ast.AST
    parents: Tuple[int, ...]
    conds: Tuple[Cond, ...]         # path condition under which the loop is entered
    range: Optional[Tuple[Term, Term, Term]] = None   # (start, stop, step) for range loops
    domain: Optional[Term] = None   # the sequence whose positions the loop visits (enumerate(x) -> x, zip(x, y) -> (x, y), ...)
    carried: Dict[str, Tuple[Optional[Term], Optional[Term]]] = field(default_factory=dict)   # var -> (init, value at body end)
    breaks: List[Tuple[Cond, ...]] = field(default_factory=list)
    returns: List[Tuple[Cond, ...]] = field(default_factory=list)
    has_else: bool = False
    func: str = ""
    found: List[Tuple[Cond, ...]] = field(default_factory=list)   # conditions (inside the loop) under which a `first` value is taken
    fused_from: Tuple[int, ...] = ()   # loops that built (one element per position) a list this loop walks: their events are this loop's


@dataclass
class Obj:
    id: int
    kind: str                       # list | dict | set | listcomp | setcomp | dictcomp | genexp
    init: Tuple[Term, ...]          # display elements (dict: ('tuple', (k, v)) pairs)
    node: ast.AST
    conds: Tuple[Cond, ...]
    loops: Tuple[int, ...]


@dataclass
class Event:
    seq: int
    kind: str                       # call | store | del | return | raise | yield | elem (comprehension element)
    term: Optional[Term]            # call term / store target / returned / raised / yielded value / the comprehension object
    value: Optional[Term]           # stored value / comprehension element
    conds: Tuple[Cond, ...]
    loops: Tuple[int, ...]
    node: ast.AST
    func: str                       # qualname of the function whose code this is
    depth: int                      # inlining depth (0 = the analysed function itself)


@dataclass
class Closure:
    id: int
    node: ast.AST                   # FunctionDef | Lambda
    frame: "Frame"
    defaults: Dict[str, Term]
    finfo: Optional[FuncInfo]


class Frame:
    def __init__(self, func: Optional[FuncInfo], parent: Optional["Frame"], qual: str):
        self.func = func
        self.parent = parent
        self.qual = qual
        self.env: Dict[str, Term] = {}
        self.locals: Set[str] = set()
        self.params: Set[str] = set()
        self.returns: List[Tuple[Tuple[Cond, ...], Term]] = []
        self.return_loops: List[Tuple[int, ...]] = []
        self.base_conds = 0           # number of path conditions that belong to the callers


class _State:
    """Path condition + loop stack of the current point (the environment lives in the frame)."""
    __slots__ = ("conds", "loops")

    def __init__(self, conds=(), loops=()):
        self.conds: Tuple[Cond, ...] = tuple(conds)
        self.loops: Tuple[int, ...] = tuple(loops)

    def with_cond(self, c: Term, pol: bool) -> "_State":
        return _State(self.conds + ((c, pol),), self.loops)


class Interp:
    """Evaluate `func` abstractly.  `inline(target: FuncInfo) -> bool` decides which package functions are
    evaluated in line (closures and lambdas always are); every other call is an atomic 'call' event."""

    MAX_DEPTH = 6
    MAX_UNROLL = 16

    def __init__(self, prog: Program, func: FuncInfo, inline: Optional[Callable[[FuncInfo], bool]] = None,
                 args: Optional[Dict[str, Term]] = None):
        self.prog = prog
        self.func = func
        self.inline = inline or default_inline(prog)
        self.events: List[Event] = []
        self.loops: Dict[int, Loop] = {}
        self.objs: Dict[int, Obj] = {}
        self.closures: Dict[int, Closure] = {}
        self._seq = 0
        self._atomic_cache: Dict[int, bool] = {}
        self.assign_log: List[Tuple[str, Term, Tuple[Cond, ...], Tuple[int, ...], str]] = []
        # literals that hold whenever execution continues because the alternative only raises (negated raise guards):
        # they never make an effect "conditional" in the sense of skipping work on valid input
        self.no_raise_lits: Set[Cond] = set()
        self._stack: List[str] = []
        self._mtab: Dict[Tuple[str, str], Optional[Term]] = {}
        self._unroll: List[int] = []
        self.reads: List[Event] = []
        self.notes: List[str] = []
        self.top = Frame(func, None, func.qualname)
        self._bind_params(self.top, func.node, args or {}, None)
        # a nested function analysed on its own: the parameters of the enclosing functions are parameters here too
        anc = prog.functions.get(func.parent) if func.parent else None
        while anc is not None:
            for p_ in anc.params:
                if p_ not in self.top.env and p_ not in self.top.locals:
                    self.top.env[p_] = ("param", p_)
            anc = prog.functions.get(anc.parent) if anc.parent else None
        st = _State()
        self._call_depth = 0
        end = self.exec_block(func.body, self.top, st)
        self.falls_through = end is not None        # some path reaches the end of the body (implicit `return None`)
        self.end_conds = end.conds if end is not None else None
        self.returns = self.top.returns

    # ------------------------------------------------------------------ helpers
    def atomic_closure(self, c: "Closure") -> bool:
        """Closures that loop until a condition holds (while) are not usefully evaluated in line: their calls stay atomic
        ('call' events with callee ('lam', id)) and rules analyse their bodies separately."""
        if c.id in self._atomic_cache:
            return self._atomic_cache[c.id]
        r = not isinstance(c.node, ast.Lambda) and any(isinstance(n, ast.While) for n in walk_no_nested(c.node))
        self._atomic_cache[c.id] = r
        return r

    def atomic_function(self, f: FuncInfo) -> bool:
        """The same for a later module-level helper / method that loops until a condition holds (`_uniquify_name(name, taken)`): its
        call stays one term, ('call', ('name', <name>) | ('attr', recv, <name>), args, kwargs)."""
        key = ("fn", f.qualname)
        if key not in self._atomic_cache:
            self._atomic_cache[key] = any(isinstance(n, ast.While) for n in walk_no_nested(f.node))
        return self._atomic_cache[key]

    def is_function_term(self, t: Term) -> bool:
        """a lambda / local function, a later helper of the package, or a functools.partial of one"""
        if t[0] == "lam":
            return True
        if t[0] == "call" and t[1] in (("name", "partial"), ("attr", ("name", "functools"), "partial")) and t[2]:
            return self.is_function_term(t[2][0])
        if t[0] in ("name", "attr"):
            fn = self.resolve_function(t)
            return fn is not None and self.inline(fn)
        return False

    def resolve_function(self, fterm: Term) -> Optional[FuncInfo]:
        """the package function a callee term names, seen from the analysed function (None for anything else)"""
        dummy = ast.Call(func=ast.Name(id="<post-hoc>", ctx=ast.Load()), args=[], keywords=[], lineno=0, col_offset=0)
        try:
            tgt, _self = self._resolve(dummy, fterm, self.top)
        except Exception:
            return None
        return tgt

    def _event(self, kind, term, value, st: _State, node, frame: Frame) -> Event:
        self._seq += 1
        e = Event(self._seq, kind, term, value, st.conds, st.loops, node, frame.qual, self._call_depth)
        self.events.append(e)
        return e

    def _new_loop(self, kind, it, node, st: _State, frame: Frame) -> Loop:
        lp = Loop(len(self.loops) + 1, kind, it, node, st.loops, st.conds, func=frame.qual)
        self.loops[lp.id] = lp
        return lp

    def _new_obj(self, kind, init, node, st: _State) -> Term:
        o = Obj(len(self.objs) + 1, kind, tuple(init), node, st.conds, st.loops)
        self.objs[o.id] = o
        return ("obj", o.id)

    def _locals_of(self, node: ast.AST) -> Tuple[Set[str], Set[str]]:
        a = node.args
        params = {x.arg for x in a.posonlyargs + a.args + a.kwonlyargs} | {x.arg for x in (a.vararg, a.kwarg) if x}
        if isinstance(node, ast.Lambda):
            return params, set()
        comp_targets, declared, out = set(), set(), set()
        for n in walk_no_nested(node):
            if isinstance(n, (ast.ListComp, ast.SetComp, ast.GeneratorExp, ast.DictComp)):
                for g in n.generators:
                    comp_targets |= {id(m) for m in ast.walk(g.target) if isinstance(m, ast.Name)}
            elif isinstance(n, (ast.Global, ast.Nonlocal)):
                declared |= set(n.names)
        for n in walk_no_nested(node):
            if isinstance(n, ast.Name) and isinstance(n.ctx, (ast.Store, ast.Del)) and id(n) not in comp_targets:
                out.add(n.id)
            elif isinstance(n, (ast.FunctionDef, ast.AsyncFunctionDef, ast.ClassDef)) and n is not node:
                out.add(n.name)
            elif isinstance(n, ast.ExceptHandler) and n.name:
                out.add(n.name)
            elif isinstance(n, (ast.Import, ast.ImportFrom)):
                out |= {(al.asname or al.name.split(".")[0]) for al in n.names}
        return params, out - params - declared

    def _bind_params(self, frame: Frame, node: ast.AST, given: Dict[str, Term], defaults: Optional[Dict[str, Term]]) -> None:
        params, locs = self._locals_of(node)
        frame.params, frame.locals = params, locs
        for p in params:
            if p in given:
                frame.env[p] = given[p]
            elif defaults and p in defaults:
                frame.env[p] = defaults[p]
            else:
                frame.env[p] = ("param", p)

    # ------------------------------------------------------------------ post-hoc evaluation
    def call_value(self, fterm: Term, args: Tuple[Term, ...], conds: Tuple[Cond, ...] = (), loops: Tuple[int, ...] = (), kwargs: tuple = ()) -> Optional[Term]:
        """Result term of calling a closure term with `args` at a point with the given path condition (used by rules to look
        into key functions / callbacks that the analysed code only passes along).  The event log is left unchanged."""
        if fterm[0] == "call" and fterm[1] in (("name", "partial"), ("attr", ("name", "functools"), "partial")) and fterm[2] \
                and not any(k == "**" for k, _ in fterm[3]):
            return self.call_value(fterm[2][0], tuple(fterm[2][1:]) + tuple(args), conds, loops, tuple(fterm[3]) + tuple(kwargs))
        n_ev, n_lp, n_ob, seq = len(self.events), len(self.loops), len(self.objs), self._seq
        if fterm[0] != "lam":
            # a package function that is not part of the reference vocabulary (a helper selected into a local)
            dummy = ast.Call(func=ast.Name(id="<post-hoc>", ctx=ast.Load()), args=[], keywords=[], lineno=0, col_offset=0)
            tgt, self_term = self._resolve(dummy, fterm, self.top)
            if tgt is None or not self.inline(tgt) or isinstance(tgt.node, ast.Lambda):
                return None
            given = ((self_term,) + tuple(args)) if self_term is not None else tuple(args)
            try:
                return self._inline(tgt.node, None, self._module_defaults(tgt), tgt, given, tuple(kwargs), _State(conds, loops), dummy, tgt)
            finally:
                self.post_events = self.events[n_ev:]
                del self.events[n_ev:]
                self._seq = seq
        c = self.closures[fterm[1]]
        dummy = ast.Call(func=ast.Name(id="<post-hoc>", ctx=ast.Load()), args=[], keywords=[], lineno=getattr(c.node, "lineno", 0), col_offset=0)
        try:
            r = self._inline(c.node, c.frame, c.defaults, c.finfo, tuple(args), tuple(kwargs), _State(conds, loops), dummy, None)
        finally:
            self.post_events = self.events[n_ev:]
            del self.events[n_ev:]
            self._seq = seq
        return r

    # ------------------------------------------------------------------ names
    def lookup(self, name: str, frame: Frame) -> Term:
        f = frame
        while f is not None:
            if name in f.env:
                return f.env[name]
            if name in f.locals or name in f.params:
                return ("unbound", name)
            f = f.parent
        return self._module_table(name, frame) or ("name", name)

    def _module_table(self, name: str, frame: Frame) -> Optional[Term]:
        """A module-level constant TUPLE display (a dispatch / candidate table hoisted out of a function) is its tuple term."""
        fi = frame.func if frame.func is not None else self.func
        key = (fi.module, name)
        if key not in self._mtab:
            from .core import module_binding
            b = module_binding(self.prog, fi.module, name)
            t = None
            if b is not None and b[0] == "constant" and isinstance(b[1], ast.Tuple):
                t = _table_term(b[1])
            elif b is not None and b[0] == "constant" and isinstance(b[1], ast.BinOp):
                # a constant tuple put together from others: _A = (x, y); _B = _A + (z,)
                t = self._const_tuple(fi.module, b[1], frame)
            elif b is not None and isinstance(b[1], ast.Dict) and _read_only_name(self.prog.modules[fi.module].tree, name):
                # a dispatch table: a dict display with constant keys that the module only ever reads
                ks = [_table_term(k) if k is not None else None for k in b[1].keys]
                vs = [_table_term(v) for v in b[1].values]
                if all(k is not None and k[0] == "const" for k in ks) and all(v is not None for v in vs):
                    t = ("dictlit", tuple(zip(ks, vs)))
            self._mtab[key] = t
        return self._mtab[key]

    def _const_tuple(self, module: str, node: ast.AST, frame: Frame, depth: int = 0) -> Optional[Term]:
        if depth > 6:
            return None
        if isinstance(node, ast.Tuple):
            return _table_term(node)
        if isinstance(node, ast.Name):
            if (module, node.id) in self._mtab:
                t = self._mtab[(module, node.id)]
            else:
                from .core import module_binding
                b = module_binding(self.prog, module, node.id)
                t = self._const_tuple(module, b[1], frame, depth + 1) if b is not None and b[0] == "constant" else None
            return t if t is not None and t[0] == "tuple" else None
        if isinstance(node, ast.BinOp) and isinstance(node.op, ast.Add):
            a, b = self._const_tuple(module, node.left, frame, depth + 1), self._const_tuple(module, node.right, frame, depth + 1)
            if a is not None and b is not None:
                return ("tuple", a[1] + b[1])
        return None

    def assign_name(self, name: str, value: Term, frame: Frame) -> None:
        f = frame
        # nonlocal writes are rare here; a name that is local to an enclosing frame but not to this one and is
        # declared nonlocal would need this walk - plain assignment always binds in the current frame
        f.env[name] = value

    # ------------------------------------------------------------------ statements
    def exec_block(self, body: Sequence[ast.stmt], frame: Frame, st: _State) -> Optional[_State]:
        """Returns the state at the end of the block, or None when every path through it terminates
        (return / raise / continue / break)."""
        for s in body:
            st = self.exec_stmt(s, frame, st)
            if st is None:
                return None
        return st

    def exec_stmt(self, s: ast.stmt, frame: Frame, st: _State) -> Optional[_State]:
        if isinstance(s, ast.Expr):
            if isinstance(s.value, ast.Constant):
                return st
            if isinstance(s.value, (ast.Yield, ast.YieldFrom)):
                v = self.eval(s.value.value, frame, st) if s.value.value is not None else NONE
                self._event("yield", v, None, st, s, frame)
                return st
            self.eval(s.value, frame, st)
            return st
        if isinstance(s, ast.Assign):
            v = self.eval(s.value, frame, st)
            for t in s.targets:
                self.bind(t, v, frame, st, s)
            return st
        if isinstance(s, ast.AnnAssign):
            if s.value is not None:
                self.bind(s.target, self.eval(s.value, frame, st), frame, st, s)
            return st
        if isinstance(s, ast.AugAssign):
            cur = self.eval(_load(s.target), frame, st)
            rhs = self.eval(s.value, frame, st)
            if cur[0] == "obj" and isinstance(s.op, ast.Add):
                self._event("call", ("call", ("attr", cur, "extend"), (rhs,), ()), None, st, s, frame)
                return st
            self.bind(s.target, ("bin", _op(s.op), cur, rhs), frame, st, s)
            return st
        if isinstance(s, ast.Return):
            v = self.eval(s.value, frame, st) if s.value is not None else NONE
            frame.returns.append((st.conds[frame.base_conds:], v))
            frame.return_loops.append(st.loops)
            if frame is self.top:
                self._event("return", v, None, st, s, frame)
            for L in st.loops:
                if self.loops[L].func == frame.qual:
                    self.loops[L].returns.append(st.conds)
            return None
        if isinstance(s, ast.Raise):
            v = self.eval(s.exc, frame, st) if s.exc is not None else ("name", "<reraise>")
            self._event("raise", v, self.eval(s.cause, frame, st) if s.cause is not None else None, st, s, frame)
            return None
        if isinstance(s, ast.If):
            return self._exec_if(s, frame, st)
        if isinstance(s, (ast.For, ast.AsyncFor)):
            return self._exec_for(s, frame, st)
        if isinstance(s, ast.While):
            return self._exec_while(s, frame, st)
        if isinstance(s, (ast.FunctionDef, ast.AsyncFunctionDef)):
            frame.env[s.name] = self._closure(s, frame, st)
            return st
        if isinstance(s, ast.Pass):
            return st
        if isinstance(s, ast.Continue):
            if getattr(self, "_unroll_continues", None):
                self._unroll_continues[-1].append(st)       # (an unrolled iteration: the next one starts from here)
            return None
        if isinstance(s, ast.Break):
            for L in reversed(st.loops):
                if self.loops[L].kind in ("for", "while", "unrolled") and self.loops[L].func == frame.qual:
                    self.loops[L].breaks.append(st.conds)
                    break
            return None
        if isinstance(s, ast.Try):
            return self._exec_try(s, frame, st)
        if isinstance(s, (ast.With, ast.AsyncWith)):
            for it in s.items:
                v = self.eval(it.context_expr, frame, st)
                if it.optional_vars is not None:
                    self.bind(it.optional_vars, ("call", ("attr", v, "__enter__"), (), ()), frame, st, s)
            return self.exec_block(s.body, frame, st)
        if isinstance(s, ast.Assert):
            c = self.eval(s.test, frame, st)
            return st.with_cond(c, True)
        if isinstance(s, ast.Delete):
            for t in s.targets:
                if isinstance(t, ast.Name):
                    frame.env[t.id] = ("unbound", t.id)
                else:
                    self._event("del", self.eval(_load(t), frame, st), None, st, s, frame)
            return st
        if isinstance(s, (ast.Import, ast.ImportFrom)):
            for al in s.names:
                nm = al.asname or al.name.split(".")[0]
                frame.env[nm] = ("name", nm)
            return st
        if isinstance(s, (ast.Global, ast.Nonlocal)):
            return st
        if isinstance(s, ast.ClassDef):
            frame.env[s.name] = ("name", s.name)
            return st
        if isinstance(s, ast.Match):
            subj = self.eval(s.subject, frame, st)
            out = None
            for i, case in enumerate(s.cases):
                r = self.exec_block(case.body, frame, st.with_cond(("call", ("name", "<match>"), (subj, const(i)), ()), True))
                out = out or r
            return out or st
        raise AnalysisError(f"symx: statement kind {type(s).__name__} at line {s.lineno} is not supported")

    # -- if ------------------------------------------------------------------
    def _exec_if(self, s: ast.If, frame: Frame, st: _State) -> Optional[_State]:
        c = self.eval(s.test, frame, st)
        known = const_truth(c)
        if known is not None:
            # the test is decided by constants (an inlined helper called with a literal / default argument)
            return self.exec_block(s.body if known else s.orelse, frame, st) if (s.body if known else s.orelse) else st
        c, flip = strip_not(c)
        env0 = dict(frame.env)
        st_t = self.exec_block(s.body, frame, st.with_cond(c, not flip))
        env_t = frame.env
        frame.env = dict(env0)
        st_f = self.exec_block(s.orelse, frame, st.with_cond(c, flip)) if s.orelse else st.with_cond(c, flip)
        env_f = frame.env
        if st_t is None and st_f is None:
            frame.env = env_f
            return None
        if st_t is None:
            frame.env = env_f
            if _always_raises(s.body):
                self.no_raise_lits.add((c, flip))        # holds whenever execution continues: the other branch only raises
            return st_f
        if st_f is None:
            frame.env = env_t
            if s.orelse and _always_raises(s.orelse):
                self.no_raise_lits.add((c, not flip))
            return st_t
        # both fall through: merge the environments, drop the branch condition
        merged = {}
        for k in set(env_t) | set(env_f):
            a, b = env_t.get(k), env_f.get(k)
            if a == b:
                merged[k] = a
            else:
                a = a if a is not None else self.lookup_default(k, frame)
                b = b if b is not None else self.lookup_default(k, frame)
                merged[k] = mk_ifexp(c, b, a) if flip else mk_ifexp(c, a, b)
        frame.env = merged
        # conditions established INSIDE the branches beyond the test itself (a nested branch that raised / returned) survive
        # as a disjunction:  if a: .. elif b: .. else: raise   leaves   (a or (not a and b))
        et, ef = st_t.conds[len(st.conds):], st_f.conds[len(st.conds):]
        if (len(et) > 1 or len(ef) > 1) and et and ef:
            lit = ("bool", "or", (conj(et), conj(ef)))
            if all(x in self.no_raise_lits for x in et[1:] + ef[1:]):
                self.no_raise_lits.add((lit, True))
            return _State(st.conds + ((lit, True),), st.loops)
        return _State(st.conds, st.loops)

    def lookup_default(self, name: str, frame: Frame) -> Term:
        if name in frame.locals or name in frame.params:
            return ("unbound", name)
        return ("name", name)

    # -- loops ---------------------------------------------------------------
    def _assigned_in(self, body: Sequence[ast.stmt]) -> Set[str]:
        out = set()
        comp_targets = set()
        for s in body:
            for n in walk_no_nested(s):
                if isinstance(n, (ast.ListComp, ast.SetComp, ast.GeneratorExp, ast.DictComp)):
                    for g in n.generators:
                        comp_targets |= {id(m) for m in ast.walk(g.target) if isinstance(m, ast.Name)}
        for s in body:
            for n in walk_no_nested(s):
                if isinstance(n, ast.Name) and isinstance(n.ctx, ast.Store) and id(n) not in comp_targets:
                    out.add(n.id)
                elif isinstance(n, (ast.FunctionDef, ast.AsyncFunctionDef)) and n is not s:
                    out.add(n.name)
        for s in body:
            if isinstance(s, (ast.FunctionDef, ast.AsyncFunctionDef)):
                out.add(s.name)
        return out

    def _literal_items(self, it: Term) -> Optional[List[Term]]:
        if it[0] == "tuple":
            return list(it[1])
        if it[0] == "obj":
            o = self.objs[it[1]]
            if o.kind == "list" and isinstance(o.node, ast.List) and not self._mutated(it):
                return list(o.init)
        return None

    def _mutated(self, obj: Term) -> bool:
        for e in self.events:
            if e.kind == "call" and e.term[1][0] == "attr" and e.term[1][1] == obj:
                return True
            if e.kind in ("store", "del") and e.term[0] == "sub" and e.term[1] == obj:
                return True
        return False

    def _exec_for(self, s: ast.For, frame: Frame, st: _State) -> Optional[_State]:
        it = self.eval(s.iter, frame, st)
        items = self._literal_items(it)
        has_break = any(isinstance(n, ast.Break) for b in s.body for n in _walk_same_loop(b))
        if items is not None and 0 < len(items) <= self.MAX_UNROLL and not has_break and not s.orelse:
            cur = st
            has_continue = any(isinstance(n, ast.Continue) for b in s.body for n in _walk_same_loop(b))
            if not hasattr(self, "_unroll_continues"):
                self._unroll_continues = []
            exact = True
            for k, item in enumerate(items):
                self.bind(s.target, item, frame, cur, s)
                self._unroll.append(k)
                self._unroll_continues.append([])
                try:
                    r = self.exec_block(s.body, frame, cur)
                finally:
                    self._unroll.pop()
                    conts = self._unroll_continues.pop()
                if r is None and not conts and _always_leaves(s.body):
                    return None          # every path of this iteration returns / raises
                if r is not None and not has_continue:
                    # what holds at the end of an iteration holds at the start of the next (e.g. "the conversion failed")
                    cur = _State(r.conds, st.loops)
                elif has_continue:
                    # the next iteration starts where this one fell off its end or said `continue`: with ONE such point its path
                    # condition carries over (`except ValueError: continue` - the conversion failed), with several nothing does
                    ends = ([r] if r is not None else []) + conts
                    if len(ends) == 1:
                        cur = _State(ends[0].conds, st.loops)
                    else:
                        exact = False
                        cur = st
            return _State(cur.conds, st.loops) if (not has_continue or exact) else st
        # loop fusion:  for x in (V(y) for y in src if C(y)): S   ==   for y in src: if C(y): x = V(y); S
        inline_comp = isinstance(s.iter, (ast.GeneratorExp, ast.ListComp)) or (
            isinstance(s.iter, ast.Call) and len(s.iter.args) == 1 and isinstance(s.iter.args[0], (ast.GeneratorExp, ast.ListComp)))
        fz = self._fusable(it, inline_comp)
        if fz is not None:
            L1, extra, val = fz
            it = self.loops[L1].iter
        mapped = self._unmap_iter(it) if fz is None else None
        orig_it = it
        if mapped is not None:
            it = mapped[0]
        lp = self._new_loop("for", it, s, st, frame)
        lp.has_else = bool(s.orelse)
        elem = self.loop_element(it, lp)
        if mapped is not None:
            elem = self._mapped_element(orig_it, elem, mapped[1], lp)
            lp.fused_from = tuple(sorted({x[0] for k_, x in mapped[1].items() if k_ != "collapsed"}))
        inner = _State(st.conds, st.loops + (lp.id,))
        if fz is not None:
            elem = reloop(val, L1, lp.id)
            inner = _State(st.conds + tuple((reloop(c, L1, lp.id), pol) for c, pol in extra), st.loops + (lp.id,))
        carried = {v for v in self._assigned_in(s.body) if v in frame.env or v in frame.locals}
        targets = {n.id for n in ast.walk(s.target) if isinstance(n, ast.Name)}
        pre = dict(frame.env)
        for v in carried - targets:
            if self._read_before_write(v, s.body):
                lp.carried[v] = (frame.env.get(v), None)
                frame.env[v] = ("loopvar", v, lp.id)
        self.bind(s.target, elem, frame, inner, s)
        if not hasattr(self, "_unroll_continues"):
            self._unroll_continues = []
        self._unroll_continues.append([])      # (a `continue` in here belongs to this loop, not to an unrolled one around it)
        try:
            end = self.exec_block(s.body, frame, inner)
        finally:
            self._unroll_continues.pop()
        for v in carried - targets:
            init = pre.get(v)
            lp.carried[v] = (init, frame.env.get(v) if end is not None else None)
            written = any(a[0] == v and lp.id in a[3] and a[4] == frame.qual for a in self.assign_log)
            if end is None or frame.env.get(v) != init or written:
                frame.env[v] = self._search_result(v, lp, init, frame) or ("after", v, lp.id)
        out = _State(st.conds, st.loops)
        if s.orelse:
            r = self.exec_block(s.orelse, frame, out)
            if r is None and not lp.breaks:
                return None
        return out

    # -- a list built one element per position of a source sequence (a "map" written as a loop) ------------------------------
    def mapped_list(self, obj: Term) -> Optional[Tuple[int, Term, Term]]:
        """(L1, source sequence S, element value V) when `obj` is a list that starts empty and is only ever changed by `.append(..)`
        inside ONE for-loop L1 over S (or enumerate(S)), exactly once on every path through an iteration (the appends sit in the arms
        of an if / elif / else that covers all cases): element i of the list is V at position i of S.  V is given in terms of
        ('elem', S, L1) / ('idx', L1); None for any other list."""
        if obj[0] != "obj":
            return None
        o = self.objs[obj[1]]
        if o.kind != "list" or o.init or isinstance(o.node, ast.Call) and getattr(o.node, "args", None):
            return None
        evs = []
        for e in self.events:
            if e.kind == "call" and e.term[1][0] == "attr" and e.term[1][1] == obj:
                if e.term[1][2] != "append" or len(e.term[2]) != 1 or e.term[3]:
                    return None
                evs.append(e)
            elif e.kind in ("store", "del") and e.term[0] == "sub" and e.term[1] == obj:
                return None
        if not evs:
            return None
        loops = {e.loops for e in evs}
        if len(loops) != 1:
            return None
        lps = next(iter(loops))
        if len(lps) != len(o.loops) + 1 or lps[:len(o.loops)] != tuple(o.loops):
            return None
        L1 = lps[-1]
        lp1 = self.loops[L1]
        if lp1.kind != "for" or lp1.iter is None or lp1.breaks or lp1.returns:
            return None
        if lp1.iter[0] == "call" and lp1.iter[1] == ("name", "enumerate") and len(lp1.iter[2]) == 1 and not lp1.iter[3]:
            S = lp1.iter[2][0]
        elif lp1.iter[0] == "call" and lp1.iter[1][0] == "name" and lp1.iter[1][1] in ("zip", "enumerate", "range", "reversed", "sorted", "iter"):
            return None
        else:
            S = lp1.iter
        base = len(lp1.conds)

        def tree(items):
            """the value as a conditional over the arms; None unless the arms cover every case exactly once"""
            if len(items) == 1 and not items[0][0]:
                return items[0][1]
            if any(not cs for cs, _v in items):
                return None
            c0 = items[0][0][0][0]
            yes = [(cs[1:], v) for cs, v in items if cs[0] == (c0, True)]
            no = [(cs[1:], v) for cs, v in items if cs[0] == (c0, False)]
            if not yes or not no or len(yes) + len(no) != len(items):
                return None
            a, b = tree(yes), tree(no)
            if a is None or b is None:
                return None
            return ("ifexp", c0, a, b)
        V = tree([(tuple(e.conds[base:]), e.term[2][0]) for e in evs])
        if V is None:
            return None
        return L1, S, V

    def _unmap_iter(self, it: Term):
        """(iterable with every mapped list replaced by its source sequence, {argument position (None = the iterable itself):
        (L1, V)}) for `for .. in M`, `enumerate(M)`, `zip(.., M, ..)`; None if no mapped list is walked."""
        if it[0] == "obj":
            m = self.mapped_list(it)
            return None if m is None else (m[1], {None: (m[0], m[2])})
        if it[0] == "call" and it[1] in (("name", "enumerate"), ("name", "zip")) and it[2] and \
                (not it[3] or (it[1][1] == "zip" and all(k == "strict" for k, _ in it[3]))):
            if it[1][1] == "enumerate" and len(it[2]) != 1:
                return None
            args, found = [], {}
            for k, a in enumerate(it[2]):
                m = self.mapped_list(a) if a[0] == "obj" else None
                if m is None:
                    args.append(a)
                else:
                    args.append(m[1])
                    found[k] = (m[0], m[2])
            if found:
                if it[1][1] == "zip" and len(set(args)) == 1:
                    # zip(S, M) with M mapped from S: one walk over S, the pair being (element, its mapped value)
                    found = dict(found)
                    found["collapsed"] = len(args)
                    return args[0], found
                return ("call", it[1], tuple(args), it[3]), found
        return None

    def _mapped_element(self, orig_it: Term, elem: Term, found, lp: Loop) -> Term:
        def value(L1, V):
            return reloop(V, L1, lp.id)
        if None in found:
            return value(*found[None])
        if "collapsed" in found:
            return ("tuple", tuple(value(*found[k]) if k in found else elem for k in range(found["collapsed"])))
        # enumerate(M): (idx, element)   zip(a, M, ..): (elements ..)
        if elem[0] != "tuple":
            return elem
        parts = list(elem[1])
        off = 1 if orig_it[1][1] == "enumerate" else 0
        for k, (L1, V) in found.items():
            if k + off < len(parts):
                parts[k + off] = value(L1, V)
        return ("tuple", tuple(parts))

    def _fusable(self, it: Term, inline_comp: bool) -> Optional[Tuple[int, Tuple[Cond, ...], Term]]:
        """(inner loop, filter conditions, element value) when `it` is a comprehension with ONE generator over a plain iterable,
        built right here (same loop nest, same path condition) - iterating it is iterating its source."""
        materialised = False
        if it[0] == "call" and it[1] in (("name", "list"), ("name", "tuple"), ("name", "iter")) and len(it[2]) == 1 and not it[3]:
            materialised = it[1][1] != "iter"
            it = it[2][0]
        if it[0] != "obj" or self.objs[it[1]].kind not in ("genexp", "listcomp"):
            return None
        if (self.objs[it[1]].kind == "listcomp" or materialised) and not inline_comp:
            return None                   # a named list / tuple is a value of its own (iterated again, measured, returned)
        r = single_element(self, it)
        if r is None or len(r[0]) != 1 or r[3].kind != "elem":
            return None
        (L1,), extra, val, ev = r
        lp1 = self.loops[L1]
        if lp1.iter is None or lp1.kind != "comp":
            return None
        return L1, tuple(extra), val

    def _search_result(self, v: str, lp: Loop, init: Optional[Term], frame: Frame) -> Optional[Term]:
        """The search idiom  `for x in xs: if C(x): v = V(x); break`  (v assigned once in the loop, on a path that breaks
        out of it, and not read in the loop):  after the loop  v == ('first', L, V, init)  - V at the first element
        satisfying the break condition (recorded in loops[L].breaks), else the value before the loop."""
        if init is None or not lp.breaks:
            return None
        sites = [a for a in self.assign_log if a[0] == v and lp.id in a[3] and a[4] == frame.qual]
        if len(sites) != 1:
            return None
        _, val, conds, loops, _ = sites[0]
        if loops[-1] != lp.id:
            return None
        inside = conds[len(lp.conds):]
        if not inside or not any(b[:len(conds)] == conds for b in lp.breaks):
            return None
        if len(lp.breaks) != 1:
            return None
        if ("loopvar", v, lp.id) in list(subterms(val)):
            return None
        lp.found = [tuple(inside)]
        return ("first", lp.id, val, init)

    def _exec_while(self, s: ast.While, frame: Frame, st: _State) -> Optional[_State]:
        lp = self._new_loop("while", None, s, st, frame)
        inner = _State(st.conds, st.loops + (lp.id,))
        carried = {v for v in self._assigned_in(s.body) if v in frame.env or v in frame.locals}
        pre = dict(frame.env)
        for v in carried:
            lp.carried[v] = (frame.env.get(v), None)
            frame.env[v] = ("loopvar", v, lp.id)
        c = self.eval(s.test, frame, inner)
        lp.iter = c
        c, flip = strip_not(c)
        if not hasattr(self, "_unroll_continues"):
            self._unroll_continues = []
        self._unroll_continues.append([])
        try:
            end = self.exec_block(s.body, frame, inner.with_cond(c, not flip))
        finally:
            self._unroll_continues.pop()
        for v in carried:
            lp.carried[v] = (pre.get(v), frame.env.get(v) if end is not None else None)
            frame.env[v] = ("after", v, lp.id)
        out = _State(st.conds, st.loops)
        infinite = isinstance(s.test, ast.Constant) and bool(s.test.value)
        if infinite and not lp.breaks:
            return None
        if s.orelse:
            self.exec_block(s.orelse, frame, out)
        return out

    def _read_before_write(self, var: str, body: Sequence[ast.stmt]) -> bool:
        """Conservative: is `var` read anywhere in the loop body (loop-carried dependence possible)?"""
        for s in body:
            for n in ast.walk(s):
                if isinstance(n, ast.Name) and n.id == var and isinstance(n.ctx, ast.Load):
                    return True
                if isinstance(n, ast.AugAssign) and isinstance(n.target, ast.Name) and n.target.id == var:
                    return True
        return False

    def loop_element(self, it: Term, lp: Loop) -> Term:
        """The term bound to the loop target for iterable `it`."""
        if it[0] == "call" and it[1][0] == "name" and (not it[3] or (it[1][1] == "zip" and all(k == "strict" for k, _ in it[3]))):
            fn, args = it[1][1], it[2]
            if fn == "enumerate" and len(args) in (1, 2):
                lp.domain = args[0]
                idx = ("idx", lp.id) if len(args) == 1 else ("bin", "Add", ("idx", lp.id), args[1])
                return ("tuple", (idx, self.loop_element(args[0], lp)))
            if fn == "zip" and args and not any(a[0] == "star" for a in args):
                lp.domain = ("tuple", tuple(args))
                return ("tuple", tuple(self.loop_element(a, lp) for a in args))
            if fn == "range" and 1 <= len(args) <= 3:
                start = args[0] if len(args) >= 2 else const(0)
                stop = args[1] if len(args) >= 2 else args[0]
                step = args[2] if len(args) == 3 else const(1)
                lp.range = (start, stop, step)
                if start == const(0) and step == const(1):
                    return ("idx", lp.id)
                if step == const(1):
                    return ("bin", "Add", start, ("idx", lp.id))
                return ("elem", it, lp.id)
        if it[0] == "call" and it[1][0] == "attr" and it[1][2] == "items" and not it[2]:
            return ("tuple", (("key", it[1][1], lp.id), ("val", it[1][1], lp.id)))
        return ("elem", it, lp.id)

    # -- try -----------------------------------------------------------------
    def _exec_try(self, s: ast.Try, frame: Frame, st: _State) -> Optional[_State]:
        env0 = dict(frame.env)
        end = self.exec_block(s.body, frame, st)
        if end is not None and s.orelse:
            end = self.exec_block(s.orelse, frame, end)
        env_body = frame.env
        outs = [(end, env_body)] if end is not None else []
        for h in s.handlers:
            # the handler may start from any prefix of the body: locals assigned in the body become uncertain
            frame.env = dict(env0)
            for k, v in env_body.items():
                if env0.get(k) != v:
                    frame.env[k] = mk_ifexp(("name", "<raised-before>"), env0.get(k, ("unbound", k)), v)
            typ = self.eval(h.type, frame, st) if h.type is not None else ("name", "BaseException")
            tag = (typ, const(s.lineno)) + ((const(tuple(self._unroll)),) if self._unroll else ())
            hs = st.with_cond(("call", ("name", "<except>"), tag, ()), True)
            if h.name:
                frame.env[h.name] = ("exc", typ)
            r = self.exec_block(h.body, frame, hs)
            if r is not None:
                outs.append((r if end is None else _State(st.conds, st.loops), frame.env))
        if not outs:
            frame.env = env_body
            res = None
        else:
            merged = {}
            keys = set()
            for _, e in outs:
                keys |= set(e)
            for k in keys:
                vals = [e.get(k, ("unbound", k)) for _, e in outs]
                merged[k] = vals[0] if all(v == vals[0] for v in vals) else ("phi", tuple(vals))
            frame.env = merged
            # the body always leaves (return / raise): execution continues only through a handler - keep its condition
            res = outs[0][0] if (end is None and len(outs) == 1) else _State(st.conds, st.loops)
        if s.finalbody:
            r = self.exec_block(s.finalbody, frame, res or st)
            if r is None:
                return None
        return res

    # ------------------------------------------------------------------ binding
    def bind(self, target: ast.AST, value: Term, frame: Frame, st: _State, node: ast.AST) -> None:
        if isinstance(target, ast.Name):
            frame.env[target.id] = value
            if st.loops:
                self.assign_log.append((target.id, value, st.conds, st.loops, frame.qual))
        elif isinstance(target, (ast.Tuple, ast.List)):
            n = len(target.elts)
            star = [i for i, e in enumerate(target.elts) if isinstance(e, ast.Starred)]
            if not star and _tuple_width(value) == n:
                for i, e in enumerate(target.elts):
                    self.bind(e, component(value, i, n), frame, st, node)
            else:
                for i, e in enumerate(target.elts):
                    if isinstance(e, ast.Starred):
                        self.bind(e.value, ("sub", value, ("slice", const(i), const(i - n + 1) if i - n + 1 else NONE, NONE)), frame, st, node)
                    elif star and i > star[0]:
                        self.bind(e, ("sub", value, const(i - n)), frame, st, node)
                    else:
                        self.bind(e, ("sub", value, const(i)), frame, st, node)
        elif isinstance(target, ast.Attribute):
            self._event("store", ("attr", self.eval(target.value, frame, st), target.attr), value, st, node, frame)
        elif isinstance(target, ast.Subscript):
            self._event("store", ("sub", self.eval(target.value, frame, st), self.eval_slice(target.slice, frame, st)), value, st, node, frame)
        elif isinstance(target, ast.Starred):
            self.bind(target.value, value, frame, st, node)
        else:
            raise AnalysisError(f"symx: assignment target {type(target).__name__} not supported")

    # ------------------------------------------------------------------ expressions
    def eval_slice(self, n: ast.AST, frame: Frame, st: _State) -> Term:
        if isinstance(n, ast.Slice):
            return ("slice", self.eval(n.lower, frame, st) if n.lower else NONE, self.eval(n.upper, frame, st) if n.upper else NONE,
                    self.eval(n.step, frame, st) if n.step else NONE)
        return self.eval(n, frame, st)

    def eval(self, n: ast.AST, frame: Frame, st: _State) -> Term:
        if isinstance(n, ast.Constant):
            return const(n.value)
        if isinstance(n, ast.Name):
            return self.lookup(n.id, frame)
        if isinstance(n, ast.Attribute):
            t = ("attr", self.eval(n.value, frame, st), n.attr)
            if n.attr in TRACKED_READS:
                # WHEN a replaceable field was read: the term object made here keeps its identity through copy propagation, so a
                # rule can tell a value read before a replacement of the field from one read after it
                self._seq += 1
                self.reads.append(Event(self._seq, "read", t, None, st.conds, st.loops, n, frame.qual, self._call_depth))
            return t
        if isinstance(n, ast.Subscript):
            base = self.eval(n.value, frame, st)
            idx = self.eval_slice(n.slice, frame, st)
            r = self.subscript(base, idx)
            if idx[0] == "const" and isinstance(idx[2], int) and not isinstance(idx[2], bool) and r[0] == "sub":
                self._event("index", r, None, st, n, frame)      # x[<literal position>]: raises on a sequence that is too short
            return r
        if isinstance(n, ast.Call):
            return self.eval_call(n, frame, st)
        if isinstance(n, ast.BinOp):
            return ("bin", _op(n.op), self.eval(n.left, frame, st), self.eval(n.right, frame, st))
        if isinstance(n, ast.UnaryOp):
            v = self.eval(n.operand, frame, st)
            if isinstance(n.op, ast.Not):
                return negate(v)
            if isinstance(n.op, ast.USub) and v[0] == "const" and isinstance(v[2], (int, float)) and not isinstance(v[2], bool):
                return const(-v[2])
            return ("un", _op(n.op), v)
        if isinstance(n, ast.BoolOp):
            vals = []
            cur = st
            for v in n.values:
                t = self.eval(v, frame, cur)
                vals.append(t)
                b, flip = strip_not(t)
                cur = cur.with_cond(b, (not flip) if isinstance(n.op, ast.And) else flip)
            flat = []
            kind = "and" if isinstance(n.op, ast.And) else "or"
            for t in vals:
                if t[0] == "bool" and t[1] == kind:
                    flat += list(t[2])
                else:
                    flat.append(t)
            return ("bool", kind, tuple(flat))
        if isinstance(n, ast.Compare):
            parts = []
            left = self.eval(n.left, frame, st)
            for op, right in zip(n.ops, n.comparators):
                r = self.eval(right, frame, st)
                parts.append(("cmp", _op(op), left, r))
                left = r
            return parts[0] if len(parts) == 1 else ("bool", "and", tuple(parts))
        if isinstance(n, ast.IfExp):
            c = self.eval(n.test, frame, st)
            known = const_truth(c)
            if known is not None:
                return self.eval(n.body if known else n.orelse, frame, st)
            b, flip = strip_not(c)
            a = self.eval(n.body, frame, st.with_cond(b, not flip))
            o = self.eval(n.orelse, frame, st.with_cond(b, flip))
            return mk_ifexp(b, o, a) if flip else mk_ifexp(b, a, o)
        if isinstance(n, ast.Tuple):
            return ("tuple", self._elts(n.elts, frame, st))
        if isinstance(n, ast.List):
            return self._new_obj("list", self._elts(n.elts, frame, st), n, st)
        if isinstance(n, ast.Set):
            return self._new_obj("set", self._elts(n.elts, frame, st), n, st)
        if isinstance(n, ast.Dict):
            items = []
            for k, v in zip(n.keys, n.values):
                if k is None:
                    items.append(("dstar", self.eval(v, frame, st)))
                else:
                    items.append(("tuple", (self.eval(k, frame, st), self.eval(v, frame, st))))
            return self._new_obj("dict", items, n, st)
        if isinstance(n, (ast.ListComp, ast.SetComp, ast.GeneratorExp, ast.DictComp)):
            return self._comp(n, frame, st)
        if isinstance(n, ast.Lambda):
            return self._closure(n, frame, st)
        if isinstance(n, ast.JoinedStr):
            parts = []
            for v in n.values:
                if isinstance(v, ast.Constant):
                    parts.append(const(v.value))
                else:
                    spec = self.eval(v.format_spec, frame, st) if v.format_spec is not None else NONE
                    val = self.eval(v.value, frame, st)
                    if v.conversion == ord("r"):
                        val, conv = ("call", ("name", "repr"), (val,), ()), -1
                    else:
                        conv = v.conversion
                    parts.append(("fmt", val, conv, spec) if (conv != -1 or spec != NONE) else ("fmt", val, -1, NONE))
            return ("fstr", tuple(parts))
        if isinstance(n, ast.FormattedValue):
            return ("fmt", self.eval(n.value, frame, st), n.conversion, NONE)
        if isinstance(n, ast.NamedExpr):
            v = self.eval(n.value, frame, st)
            self.bind(n.target, v, frame, st, n)
            return v
        if isinstance(n, ast.Starred):
            return ("star", self.eval(n.value, frame, st))
        if isinstance(n, ast.Slice):
            return self.eval_slice(n, frame, st)
        if isinstance(n, (ast.Yield, ast.YieldFrom)):
            v = self.eval(n.value, frame, st) if n.value is not None else NONE
            self._event("yield", v, None, st, n, frame)
            return ("name", "<sent>")
        if isinstance(n, ast.Await):
            return self.eval(n.value, frame, st)
        raise AnalysisError(f"symx: expression kind {type(n).__name__} at line {getattr(n, 'lineno', '?')} is not supported")

    def _elts(self, elts, frame, st) -> Tuple[Term, ...]:
        out = []
        for e in elts:
            v = self.eval(e, frame, st)
            if v[0] == "star" and v[1][0] == "tuple":
                out += list(v[1][1])
            else:
                out.append(v)
        return tuple(out)

    def subscript(self, base: Term, idx: Term) -> Term:
        if base[0] == "dictlit" and idx[0] == "const":
            for k, v in base[1]:
                if k == idx:
                    return v
        # literal tuple with constant index
        if base[0] == "tuple" and idx[0] == "const" and isinstance(idx[2], int) and not isinstance(idx[2], bool) \
                and -len(base[1]) <= idx[2] < len(base[1]):
            return base[1][idx[2]]
        if base[0] == "ifexp" and idx[0] == "const" and isinstance(idx[2], int) and not isinstance(idx[2], bool):
            w = _tuple_width(base)
            if w is not None and -w <= idx[2] < w:
                return component(base, idx[2], w)
        # x[i] where i is the position of a loop that walks x  ->  elem(x, L)
        if idx[0] == "idx":
            lp = self.loops[idx[1]]
            if lp.domain is not None and (lp.domain == base or (lp.domain[0] == "tuple" and base in lp.domain[1])):
                return ("elem", base, lp.id)
            if lp.range is not None and lp.range[0] == const(0) and lp.range[2] == const(1) \
                    and lp.range[1][0] == "call" and lp.range[1][1] == ("name", "len") and len(lp.range[1][2]) == 1 \
                    and self.same_length(lp.range[1][2][0], base):
                return ("elem", base, lp.id)
        return ("sub", base, idx)

    def length_root(self, x: Term) -> Term:
        """The sequence whose length x provably shares: [e for v in y] (one generator, no condition) has len(y)."""
        seen = 0
        while x[0] == "obj" and seen < 8:
            seen += 1
            o = self.objs[x[1]]
            if o.kind in ("listcomp", "genexp", "setcomp"):
                if o.kind == "setcomp":
                    break
                evs = [e for e in self.events if e.kind == "elem" and e.term == x]
                if len(evs) != 1:
                    break
                lps = [L for L in evs[0].loops if L not in o.loops]
                if len(lps) != 1 or evs[0].conds != o.conds or self.loops[lps[0]].iter is None:
                    break
                lp = self.loops[lps[0]]
                nxt = lp.domain if (lp.domain is not None and lp.domain[0] != "tuple") else lp.iter
                if lp.range is not None:
                    break
                x = nxt
            elif o.kind == "list" and isinstance(o.node, ast.Call) and len(o.init) == 1:
                x = o.init[0]
            else:
                break
        if x[0] == "call" and x[1] in (("name", "list"), ("name", "tuple")) and len(x[2]) == 1 and not x[3]:
            return self.length_root(x[2][0])
        return x

    def same_length(self, a: Term, b: Term) -> bool:
        return a == b or self.length_root(a) == self.length_root(b)

    def _comp(self, n, frame: Frame, st: _State) -> Term:
        kind = {ast.ListComp: "listcomp", ast.SetComp: "setcomp", ast.GeneratorExp: "genexp", ast.DictComp: "dictcomp"}[type(n)]
        obj = self._new_obj(kind, (), n, st)
        saved = {}
        cur = st
        names = set()
        for g in n.generators:
            it = self.eval(g.iter, frame, cur)
            # a comprehension over a generator expression is a comprehension over its source (as for `for` statements)
            inline_comp = isinstance(g.iter, (ast.GeneratorExp, ast.ListComp))
            fz = self._fusable(it, inline_comp)
            if fz is not None:
                L1, extra, val1 = fz
                it = self.loops[L1].iter
            lp = self._new_loop("comp", it, g, cur, frame)
            elem = self.loop_element(it, lp)
            cur = _State(cur.conds, cur.loops + (lp.id,))
            if fz is not None:
                elem = reloop(val1, L1, lp.id)
                cur = _State(cur.conds + tuple((reloop(c, L1, lp.id), pol) for c, pol in extra), cur.loops)
            for m in ast.walk(g.target):
                if isinstance(m, ast.Name) and m.id not in saved:
                    saved[m.id] = frame.env.get(m.id, _MISSING)
                    names.add(m.id)
            self.bind(g.target, elem, frame, cur, n)
            for c in g.ifs:
                t = self.eval(c, frame, cur)
                b, flip = strip_not(t)
                cur = cur.with_cond(b, not flip)
        if isinstance(n, ast.DictComp):
            val = ("tuple", (self.eval(n.key, frame, cur), self.eval(n.value, frame, cur)))
        else:
            val = self.eval(n.elt, frame, cur)
        self._event("elem", obj, val, cur, n, frame)
        for k, v in saved.items():
            if v is _MISSING:
                frame.env.pop(k, None)
            else:
                frame.env[k] = v
        return obj

    def _closure(self, node, frame: Frame, st: _State) -> Term:
        a = node.args
        defaults: Dict[str, Term] = {}
        pos = a.posonlyargs + a.args
        for p, d in zip(pos[len(pos) - len(a.defaults):], a.defaults):
            defaults[p.arg] = self.eval(d, frame, st)
        for p, d in zip(a.kwonlyargs, a.kw_defaults):
            if d is not None:
                defaults[p.arg] = self.eval(d, frame, st)
        finfo = None
        for f in self.prog.functions.values():
            if f.node is node:
                finfo = f
                break
        c = Closure(len(self.closures) + 1, node, frame, defaults, finfo)
        self.closures[c.id] = c
        return ("lam", c.id)

    # ------------------------------------------------------------------ calls
    def eval_call(self, n: ast.Call, frame: Frame, st: _State) -> Term:
        f = self.eval(n.func, frame, st)
        args = tuple(self.eval(a, frame, st) for a in n.args)
        kwargs = tuple((k.arg, self.eval(k.value, frame, st)) if k.arg else ("**", self.eval(k.value, frame, st)) for k in n.keywords)
        simple = not any(a[0] == "star" for a in args) and not any(k == "**" for k, _ in kwargs)
        return self._apply(f, args, kwargs, simple, n, frame, st)

    def _apply(self, f: Term, args, kwargs, simple: bool, n: ast.Call, frame: Frame, st: _State) -> Term:
        # a callable selected by a condition (caster = A if c else B): the call is the selection of the two calls
        if f[0] == "ifexp" and simple and any(x[0] == "lam" for x in _ifexp_leaves(f)):
            a = self._apply(f[2], args, kwargs, simple, n, frame, st.with_cond(f[1], True))
            b = self._apply(f[3], args, kwargs, simple, n, frame, st.with_cond(f[1], False))
            return mk_ifexp(f[1], a, b)
        # next((V(x) for x in xs if C(x)), default): V at the first element satisfying C, else the default - the search idiom, the
        # same term the flag-and-break loop gives
        if f == ("name", "next") and simple and not kwargs and len(args) == 2 and args[0][0] == "obj" \
                and self.objs[args[0][1]].kind == "genexp":
            se = single_element(self, args[0])
            if se is not None and len(se[0]) == 1 and se[3].kind == "elem":
                (L1,), extra, val, _ev = se
                lp1 = self.loops[L1]
                if lp1.kind == "comp" and not lp1.found and extra:
                    lp1.found = [tuple(extra)]
                    term = ("first", L1, val, args[1])
                    self._event("call", ("call", f, args, kwargs), term, st, n, frame)
                    return term
        # operator.itemgetter(k)(x) is x[k]; operator.attrgetter('a')(x) is x.a; operator.methodcaller('m', ..)(x) is x.m(..)
        if f[0] == "call" and f[1][0] in ("attr", "name") and simple and len(args) == 1 and not kwargs and f[2]:
            made = f[1][2] if (f[1][0] == "attr" and f[1][1] == ("name", "operator")) else f[1][1] if f[1][0] == "name" else None
            if made == "itemgetter" and len(f[2]) == 1 and not f[3]:
                return self.subscript(args[0], f[2][0])
            if made == "attrgetter" and len(f[2]) == 1 and not f[3] and f[2][0][0] == "const" and isinstance(f[2][0][2], str) \
                    and "." not in f[2][0][2]:
                return ("attr", args[0], f[2][0][2])
            if made == "methodcaller" and f[2][0][0] == "const" and isinstance(f[2][0][2], str):
                return self._apply(("attr", args[0], f[2][0][2]), tuple(f[2][1:]), tuple(f[3]), simple, n, frame, st)
        # functools.partial(g, a, ..)(b, ..) is g(a, .., b, ..)
        if f[0] == "call" and f[1] in (("name", "partial"), ("attr", ("name", "functools"), "partial")) and f[2] and simple \
                and not any(a[0] == "star" for a in f[2]) and not any(k == "**" for k, _ in f[3]):
            return self._apply(f[2][0], tuple(f[2][1:]) + tuple(args), tuple(f[3]) + tuple(kwargs), simple, n, frame, st)
        # map(g, xs) / map(g, xs, ys) / itertools.starmap(g, pairs) with a function of the package (a lambda, a closure, a later helper,
        # a partial of one): the generator (g(x) for x in xs) / (g(x, y) for x, y in zip(xs, ys)) / (g(*p) for p in pairs)
        if simple and not kwargs and len(args) >= 2 and f in (("name", "map"), ("name", "starmap"), ("attr", ("name", "itertools"), "starmap")) \
                and self._is_package_callable(args[0], n, frame):
            r = self._synth_map(f[-1] == "starmap", args[0], args[1:], n, frame, st)
            if r is not None:
                return r
        # closures / lambdas
        if f[0] == "lam" and simple and self._call_depth < self.MAX_DEPTH:
            c = self.closures[f[1]]
            if not self.atomic_closure(c):
                r = self._inline(c.node, c.frame, c.defaults, c.finfo, args, kwargs, st, n, None)
                if r is not None:
                    self._event("inline", ("call", f, args, kwargs), r, st, n, frame)
                    return r
        # package functions that are not part of the reference vocabulary
        if simple and frame.func is not None and self._call_depth < self.MAX_DEPTH:
            tgt, self_term = self._resolve(n, f, frame)
            if tgt is not None and tgt.qualname not in self._stack and self.inline(tgt) \
                    and not isinstance(tgt.node, ast.Lambda) and not _is_generator(tgt.node) and not self.atomic_function(tgt):
                given_args = ((self_term,) + args) if self_term is not None else args
                r = self._inline(tgt.node, None, self._module_defaults(tgt), tgt, given_args, kwargs, st, n, tgt)
                if r is not None:
                    self._event("inline", ("call", ("name", tgt.qualname), given_args, kwargs), r, st, n, frame)
                    return r
        # a later GENERATOR helper (`def _public_api_names(cls): for n in dir(cls): ... yield n.lower()`): the generator object it
        # returns, its elements being what it yields (each `yield` an element event of that object, as for a generator expression)
        if simple and frame.func is not None and self._call_depth < self.MAX_DEPTH:
            tgt, self_term = self._resolve(n, f, frame)
            if tgt is not None and tgt.qualname not in self._stack and self.inline(tgt) and not isinstance(tgt.node, ast.Lambda) \
                    and _is_generator(tgt.node) and not self.atomic_function(tgt) \
                    and not any(isinstance(x, ast.YieldFrom) for x in walk_no_nested(tgt.node)):
                given_args = ((self_term,) + args) if self_term is not None else args
                mark = len(self.events)
                gen = self._new_obj("genexp", (), n, st)
                r = self._inline(tgt.node, None, self._module_defaults(tgt), tgt, given_args, kwargs, st, n, tgt)
                if r is not None:
                    for k_ in range(mark, len(self.events)):
                        e_ = self.events[k_]
                        if e_.kind == "yield" and e_.func == tgt.qualname:
                            self.events[k_] = Event(e_.seq, "elem", gen, e_.term, e_.conds, e_.loops, e_.node, e_.func, e_.depth)
                    self._event("inline", ("call", ("name", tgt.qualname), given_args, kwargs), gen, st, n, frame)
                    return gen
        if f[0] == "name" and f[1] in _CONSTRUCTORS:
            obj = self._new_obj(f[1], args + tuple(("tuple", (const(k), v)) for k, v in kwargs), n, st)
            self._event("call", ("call", f, args, kwargs), obj, st, n, frame)
            return obj
        term = ("call", f, args, kwargs)
        self._event("call", term, None, st, n, frame)
        return term

    def _is_package_callable(self, g: Term, n: ast.Call, frame: Frame) -> bool:
        if g[0] == "lam":
            return True
        if g[0] == "call" and g[1] in (("name", "partial"), ("attr", ("name", "functools"), "partial")) and g[2]:
            return self._is_package_callable(g[2][0], n, frame)
        if g[0] == "call" and g[2] and ((g[1][0] == "attr" and g[1][1] == ("name", "operator") and g[1][2] in ("itemgetter", "attrgetter", "methodcaller"))
                                        or (g[1][0] == "name" and g[1][1] in ("itemgetter", "attrgetter", "methodcaller"))):
            return True
        if g[0] in ("name", "attr") and frame.func is not None:
            tgt, _s = self._resolve(n, g, frame)
            return tgt is not None and self.inline(tgt)
        return False

    def _synth_map(self, star: bool, g: Term, iters: Tuple[Term, ...], n: ast.Call, frame: Frame, st: _State) -> Optional[Term]:
        if star and len(iters) != 1:
            return None
        # map(g, (a, b, c)) over a display of a few items: the items' results, one by one (`x, y, z = map(norm, (x, y, z))`)
        if not star and len(iters) == 1:
            items = self._literal_items(iters[0])
            if items is not None and 0 < len(items) <= self.MAX_UNROLL:
                return ("tuple", tuple(self._apply(g, (item,), (), True, n, frame, st) for item in items))
        it = iters[0] if len(iters) == 1 else ("call", ("name", "zip"), tuple(iters), ())
        fz = self._fusable(it, True)
        obj = self._new_obj("genexp", (), n, st)
        if fz is not None:
            L1, extra, val1 = fz
            it = self.loops[L1].iter
        lp = self._new_loop("comp", it, n, st, frame)
        elem = self.loop_element(it, lp)
        cur = _State(st.conds, st.loops + (lp.id,))
        if fz is not None:
            elem = reloop(val1, L1, lp.id)
            cur = _State(cur.conds + tuple((reloop(c, L1, lp.id), pol) for c, pol in extra), cur.loops)
        if star or len(iters) > 1:
            if elem[0] != "tuple":
                # (pairs whose shape is not known: g(*pair) stays one opaque call)
                val = ("call", g, (("star", elem),), ())
                self._event("elem", obj, val, cur, n, frame)
                return obj
            call_args = tuple(elem[1])
        else:
            call_args = (elem,)
        val = self._apply(g, call_args, (), True, n, frame, cur)
        self._event("elem", obj, val, cur, n, frame)
        return obj

    def _resolve(self, n: ast.Call, f: Term, frame: Frame) -> Tuple[Optional[FuncInfo], Optional[Term]]:
        """Resolve the callee from the TERM (so that aliases and hoisted locals resolve too)."""
        prog = self.prog
        fi = frame.func
        if f[0] == "name":
            name = f[1]
            q = f"{fi.module}.{name}"
            if q in prog.functions:
                return prog.functions[q], None
            imp = prog.modules[fi.module].imports.get(name)
            if imp and f"{imp[0]}.{imp[1]}" in prog.functions:
                return prog.functions[f"{imp[0]}.{imp[1]}"], None
            return None, None
        if f[0] == "attr":
            recv = f[1]
            owner = fi.cls
            if owner and recv == self.lookup("self", frame) and recv[0] in ("param", "name", "call", "attr", "elem", "sub"):
                t = prog.method(owner, f[2])
                return (t, recv) if t is not None and not _is_static(t) else (t, None) if t is not None else (None, None)
            if recv[0] == "name" and recv[1] in prog.classes:
                t = prog.method(recv[1], f[2])
                if t is not None and _is_static(t):
                    return t, None
        return None, None

    def _module_defaults(self, tgt: FuncInfo) -> Dict[str, Term]:
        a = tgt.node.args
        out = {}
        pos = a.posonlyargs + a.args
        for p, d in zip(pos[len(pos) - len(a.defaults):], a.defaults):
            out[p.arg] = _const_expr(d)
        for p, d in zip(a.kwonlyargs, a.kw_defaults):
            if d is not None:
                out[p.arg] = _const_expr(d)
        return out

    def _inline(self, node, defining: Optional[Frame], defaults: Dict[str, Term], finfo: Optional[FuncInfo],
                args: Tuple[Term, ...], kwargs, st: _State, call: ast.Call, tgt: Optional[FuncInfo]) -> Optional[Term]:
        a = node.args
        if a.vararg or a.kwarg:
            return None
        pos = [p.arg for p in a.posonlyargs + a.args]
        kwonly = [p.arg for p in a.kwonlyargs]
        if len(args) > len(pos):
            return None
        given: Dict[str, Term] = dict(zip(pos, args))
        for k, v in kwargs:
            if k not in pos + kwonly or k in given:
                return None
            given[k] = v
        for p in pos + kwonly:
            if p not in given and p not in defaults:
                return None
        qual = finfo.qualname if finfo is not None else f"{defining.qual if defining else '?'}.<lambda>@{getattr(node, 'lineno', 0)}"
        if qual in self._stack:
            return None
        fr = Frame(finfo if finfo is not None else (defining.func if defining else None), defining, qual)
        if finfo is None and defining is not None:
            # a lambda: give it a FuncInfo-like identity of its definer for call resolution
            fr.func = defining.func
        self._bind_params(fr, node, given, defaults)
        fr.base_conds = len(st.conds)
        self._stack.append(qual)
        self._call_depth += 1
        try:
            body = [ast.Return(value=node.body, lineno=node.lineno, col_offset=0)] if isinstance(node, ast.Lambda) else node.body
            end_state = self.exec_block(body, fr, _State(st.conds, st.loops))
        finally:
            self._call_depth -= 1
            self._stack.pop()
        rets = fr.returns
        # what holds on EVERY normal return of the callee holds in the caller from here on (a helper that validates and
        # raises otherwise): extend the caller's path condition in place
        ends = [c for c, _ in rets]
        if end_state is not None:
            ends.append(tuple(end_state.conds[fr.base_conds:]))
        if ends:
            common = [c for c in ends[0] if all(c in e for e in ends[1:])]
            if common:
                st.conds = st.conds + tuple(c for c in common if c not in st.conds)
        if not rets:
            return NONE
        # fold the returns into a conditional term (the last one is the default)
        out = rets[-1][1]
        implicit_none = not _always_leaves(body) if not isinstance(node, ast.Lambda) else False
        if implicit_none:
            out = NONE
            seq = rets
        else:
            seq = rets[:-1]
        nb = len(st.loops)
        heads = [(ls[nb] if len(ls) > nb else None) for ls in fr.return_loops]
        items = list(zip(seq, heads[:len(seq)]))
        # consecutive returns inside one loop of the callee are a SEARCH: the value at the first element on which one of them is
        # taken, else whatever follows the loop  ->  ('first', L, V, rest)
        i = len(items)
        while i > 0:
            (conds, t), head = items[i - 1]
            if head is None:
                out = t if not conds else mk_ifexp(conj(conds), t, out)
                i -= 1
                continue
            j = i
            while j > 0 and items[j - 1][1] == head:
                j -= 1
            lp = self.loops[head]
            k = max(0, len(lp.conds) - fr.base_conds)
            group = [(c[k:], t_) for (c, t_), _ in items[j:i]]
            entry = items[j][0][0][:k]
            V = group[-1][1]
            for inside, t_ in reversed(group[:-1]):
                V = mk_ifexp(conj(inside), t_, V) if inside else t_
            lp.found = [tuple(inside) for inside, _ in group]
            term = ("first", head, V, out)
            out = mk_ifexp(conj(entry), term, out) if entry else term
            i = j
        return out


_MISSING = ("<missing>",)
# builtin / stdlib constructors of MUTABLE containers: each call is a distinct object (two `set()` are not the same set)
_CONSTRUCTORS = {"set", "dict", "list", "defaultdict", "OrderedDict", "deque", "Counter", "bytearray"}


# ---------------------------------------------------------------------------------------------
# small helpers
# ---------------------------------------------------------------------------------------------
def _load(t: ast.AST) -> ast.AST:
    import copy
    c = copy.copy(t)
    if hasattr(c, "ctx"):
        c.ctx = ast.Load()
    return c


def _walk_same_loop(s: ast.AST):
    """Nodes of statement s that belong to the same loop level (not inside nested loops / defs)."""
    yield s
    for fld in ("body", "orelse", "finalbody", "handlers"):
        for c in getattr(s, fld, []) or []:
            if isinstance(c, (ast.For, ast.While, ast.AsyncFor, ast.FunctionDef, ast.AsyncFunctionDef, ast.ClassDef)):
                continue
            yield from _walk_same_loop(c)


def _always_leaves(body: Sequence[ast.stmt]) -> bool:
    """Does every path through `body` end in return / raise (syntactic, conservative)?"""
    if not body:
        return False
    last = body[-1]
    if isinstance(last, (ast.Return, ast.Raise)):
        return True
    if isinstance(last, ast.If):
        return bool(last.orelse) and _always_leaves(last.body) and _always_leaves(last.orelse)
    if isinstance(last, ast.Try):
        return _always_leaves(last.body) and all(_always_leaves(h.body) for h in last.handlers) or _always_leaves(last.finalbody)
    if isinstance(last, (ast.With, ast.AsyncWith)):
        return _always_leaves(last.body)
    return False


def _always_raises(body: Sequence[ast.stmt]) -> bool:
    """Does every path through `body` end in raise (syntactic, conservative)?"""
    if not body:
        return False
    last = body[-1]
    if isinstance(last, ast.Raise):
        return True
    if isinstance(last, ast.If):
        return bool(last.orelse) and _always_raises(last.body) and _always_raises(last.orelse)
    if isinstance(last, (ast.With, ast.AsyncWith)):
        return _always_raises(last.body)
    return False


def _is_generator(node: ast.AST) -> bool:
    return any(isinstance(n, (ast.Yield, ast.YieldFrom)) for n in walk_no_nested(node))


def _is_static(f: FuncInfo) -> bool:
    return "staticmethod" in f.decorators


def _const_expr(d: ast.AST) -> Term:
    if isinstance(d, ast.Constant):
        return const(d.value)
    if isinstance(d, ast.Name):
        return ("name", d.id)
    if isinstance(d, ast.UnaryOp) and isinstance(d.op, ast.USub) and isinstance(d.operand, ast.Constant):
        return const(-d.operand.value)
    if isinstance(d, ast.Tuple):
        return ("tuple", tuple(_const_expr(e) for e in d.elts))
    return ("name", "<default:" + ast.unparse(d) + ">")


_READ_ONLY_METHODS = {"get", "items", "keys", "values", "__contains__", "__getitem__", "copy"}


def _read_only_name(tree: ast.Module, name: str) -> bool:
    """every use of the module-level name in its module is a read that cannot change the object (subscript load, `in`, len(),
    iteration, .get/.items/.keys/.values) - apart from its one defining assignment"""
    parents = {}
    for n in ast.walk(tree):
        for c in ast.iter_child_nodes(n):
            parents[c] = n
    stores = 0
    for n in ast.walk(tree):
        if not (isinstance(n, ast.Name) and n.id == name):
            continue
        par = parents.get(n)
        if isinstance(n.ctx, ast.Store):
            stores += 1
            if not (isinstance(par, ast.Assign) and parents.get(par) is tree):
                return False
            continue
        if isinstance(n.ctx, ast.Del):
            return False
        if isinstance(par, ast.Subscript) and par.value is n and isinstance(par.ctx, ast.Load):
            continue
        if isinstance(par, ast.Attribute) and par.value is n and par.attr in _READ_ONLY_METHODS:
            continue
        if isinstance(par, ast.Compare) and n in par.comparators and all(isinstance(o, (ast.In, ast.NotIn)) for o in par.ops):
            continue
        if isinstance(par, (ast.For, ast.comprehension)) and par.iter is n:
            continue
        if isinstance(par, ast.Call) and isinstance(par.func, ast.Name) and par.func.id in ("len", "sorted", "list", "tuple", "iter") and n in par.args:
            continue
        return False
    return stores == 1


def _ifexp_leaves(t: Term) -> List[Term]:
    return _ifexp_leaves(t[2]) + _ifexp_leaves(t[3]) if t[0] == "ifexp" else [t]


def _table_term(d: ast.AST) -> Optional[Term]:
    if isinstance(d, ast.Tuple):
        xs = [_table_term(e) for e in d.elts]
        return None if any(x is None for x in xs) else ("tuple", tuple(xs))
    if isinstance(d, ast.Constant):
        return const(d.value)
    if isinstance(d, ast.Name):
        return ("name", d.id)
    if isinstance(d, ast.Attribute):
        b = _table_term(d.value)
        return None if b is None else ("attr", b, d.attr)
    return None


def reloop(t, old: int, new: int):
    """t with every reference to loop `old` (element, position, key, value) turned into the same reference to loop `new`"""
    if not isinstance(t, tuple) or not t:
        return t
    k = t[0]
    if k in ("elem", "key", "val") and len(t) == 3 and t[2] == old:
        return (k, reloop(t[1], old, new), new)
    if k == "idx" and len(t) == 2 and t[1] == old:
        return ("idx", new)
    if k == "const":
        return t
    return tuple(reloop(x, old, new) for x in t)


def component(value: Term, i: int, n: int) -> Optional[Term]:
    """i-th of n components of a tuple-valued term (through conditional terms), None when not visible"""
    if value[0] == "tuple":
        return value[1][i] if len(value[1]) == n and -n <= i < n else None
    if value[0] == "ifexp":
        a, b = component(value[2], i, n), component(value[3], i, n)
        return None if a is None or b is None else mk_ifexp(value[1], a, b)
    return None


def _tuple_width(value: Term) -> Optional[int]:
    if value[0] == "tuple":
        return len(value[1])
    if value[0] == "ifexp":
        a, b = _tuple_width(value[2]), _tuple_width(value[3])
        return a if a is not None and a == b else None
    return None


def const_truth(c: Term) -> Optional[bool]:
    """Truth value of a condition term that constants decide:  None is None,  'x' == 'x',  <loop counter> is None, True/False."""
    if c[0] == "const":
        return bool(c[2])
    if c[0] == "un" and c[1] == "Not":
        v = const_truth(c[2])
        return None if v is None else not v
    if c[0] == "cmp" and c[1] in ("Is", "IsNot", "Eq", "NotEq"):
        a, b = c[2], c[3]
        pos = c[1] in ("Is", "Eq")
        if a[0] == "const" and b[0] == "const":
            same = (a == b) if c[1] in ("Is", "IsNot") else (a[2] == b[2])
            return same if pos else not same
        for x, y in ((a, b), (b, a)):
            if y == NONE and x[0] in ("idx", "tuple", "fstr", "lam"):
                return not pos           # a loop counter / tuple / string / function is never None
    if c[0] == "bool":
        vals = [const_truth(x) for x in c[2]]
        if c[1] == "and":
            if any(v is False for v in vals):
                return False
            return True if all(v is True for v in vals) else None
        if any(v is True for v in vals):
            return True
        return False if all(v is False for v in vals) else None
    return None


def mk_ifexp(c: Term, a: Term, b: Term) -> Term:
    """(a if c else b) with the test in positive form (a negated test swaps the arms)."""
    base, flip = strip_not(c)
    if a == b:
        return a
    return ("ifexp", base, b, a) if flip else ("ifexp", base, a, b)


def strip_not(t: Term) -> Tuple[Term, bool]:
    """(base, flipped): peel `not` and negative comparison operators so that a condition and its negation
    share one base term  (x not in s -> (x in s, flipped);  a is not None -> (a is None, flipped))."""
    flip = False
    while True:
        if t[0] == "un" and t[1] == "Not":
            t = t[2]
            flip = not flip
        elif t[0] == "cmp" and t[1] in ("NotEq", "IsNot", "NotIn"):
            t = ("cmp", _NEG[t[1]], t[2], t[3])
            flip = not flip
        else:
            return t, flip


_NEG = {"Eq": "NotEq", "NotEq": "Eq", "Is": "IsNot", "IsNot": "Is", "In": "NotIn", "NotIn": "In",
        "Lt": "GtE", "GtE": "Lt", "Gt": "LtE", "LtE": "Gt"}


def negate(t: Term) -> Term:
    if t[0] == "un" and t[1] == "Not":
        return t[2]
    if t[0] == "cmp" and t[1] in ("Eq", "NotEq", "Is", "IsNot", "In", "NotIn"):
        return ("cmp", _NEG[t[1]], t[2], t[3])
    if t[0] == "const":
        return const(not t[2])
    return ("un", "Not", t)


def conj(conds: Sequence[Cond]) -> Term:
    lits = [c if pol else negate(c) for c, pol in conds]
    return lits[0] if len(lits) == 1 else ("bool", "and", tuple(lits))


def default_inline(prog: Program) -> Callable[[FuncInfo], bool]:
    base = baseline_functions()

    def pred(f: FuncInfo) -> bool:
        return f.qualname not in base
    return pred


_BASELINE: Optional[Set[str]] = None


def baseline_functions() -> Set[str]:
    """Qualified names of the functions of the reference tree (the rules' vocabulary).  A function that is not in
    this table is a helper introduced later and is evaluated in line."""
    global _BASELINE
    if _BASELINE is None:
        import os
        p = os.path.join(os.path.dirname(__file__), "baseline_funcs.txt")
        with open(p) as fh:
            _BASELINE = {l.strip() for l in fh if l.strip() and not l.startswith("#")}
    return _BASELINE


# ---------------------------------------------------------------------------------------------
# queries and printing
# ---------------------------------------------------------------------------------------------
def subterms(t: Term):
    """All sub-terms of t (t included), by kind."""
    stack = [t]
    while stack:
        t = stack.pop()
        yield t
        k = t[0]
        if k in ("const", "param", "name", "obj", "lam", "idx", "unbound"):
            continue
        if k == "call":
            stack.append(t[1])
            stack.extend(t[2])
            stack.extend(v for _, v in t[3])
        elif k in ("tuple", "fstr", "phi"):
            stack.extend(t[1])
        elif k == "bool":
            stack.extend(t[2])
        elif k in ("attr", "star", "dstar", "exc"):
            stack.append(t[1])
        elif k in ("elem", "key", "val"):
            stack.append(t[1])
        elif k in ("loopvar", "after"):
            continue
        elif k == "first":
            stack.append(t[2])
            stack.append(t[3])
        elif k == "fmt":
            stack.append(t[1])
            if isinstance(t[3], tuple):
                stack.append(t[3])
        else:
            # sub, slice, bin, un, cmp, ifexp: every tuple-valued field is a term
            for x in t[1:]:
                if isinstance(x, tuple) and x and isinstance(x[0], str):
                    stack.append(x)


_KINDS = {"const", "param", "name", "attr", "sub", "slice", "call", "bin", "un", "cmp", "bool", "ifexp", "tuple", "fstr", "fmt",
          "obj", "lam", "elem", "idx", "key", "val", "loopvar", "after", "unbound", "exc", "star", "dstar", "phi", "first"}


def deep_subterms(it: "Interp", t: Term, depth: int = 0, seen=None):
    """subterms of t, looking through the objects it mentions (display elements, comprehension elements and sources)."""
    seen = seen if seen is not None else set()
    for x in subterms(t):
        yield x
        if x[0] == "obj" and depth < 5 and x[1] not in seen:
            seen.add(x[1])
            o = it.objs[x[1]]
            for i in o.init:
                yield from deep_subterms(it, i, depth + 1, seen)
            for e in it.events:
                if (e.kind == "elem" and e.term == x) or (e.kind == "call" and e.term[1][0] == "attr" and e.term[1][1] == x):
                    if e.value is not None:
                        yield from deep_subterms(it, e.value, depth + 1, seen)
                    if e.kind == "call":
                        for a in e.term[2]:
                            yield from deep_subterms(it, a, depth + 1, seen)
                    for L in e.loops:
                        if L not in o.loops and it.loops[L].iter is not None:
                            yield from deep_subterms(it, it.loops[L].iter, depth + 1, seen)


def callee(t: Term) -> Optional[str]:
    """Dotted name of the callee of a call term: Vector / uniquify / self._resolve_column / x.append (receiver opaque -> '?.append')."""
    if t[0] != "call":
        return None
    return dotted(t[1])


def dotted(f: Term) -> Optional[str]:
    if f[0] == "name":
        return f[1]
    if f[0] == "param":
        return f[1]
    if f[0] == "attr":
        b = dotted(f[1])
        return f"{b if b is not None else '?'}.{f[2]}"
    return None


def kw(t: Term, name: str) -> Optional[Term]:
    for k, v in t[3]:
        if k == name:
            return v
    return None


def show(t, interp: Optional[Interp] = None, depth: int = 0) -> str:
    """Readable canonical text of a term (used in messages and for comparing siblings)."""
    if not isinstance(t, tuple) or not t:
        return repr(t)
    k = t[0]
    s = lambda x: show(x, interp, depth + 1)
    if depth > 12:
        return "..."
    if k == "const":
        return repr(t[2])
    if k in ("param", "name"):
        return t[1]
    if k == "attr":
        return f"{s(t[1])}.{t[2]}"
    if k == "sub":
        return f"{s(t[1])}[{s(t[2])}]"
    if k == "slice":
        return ":".join("" if x == NONE else s(x) for x in t[1:3]) + ("" if t[3] == NONE else ":" + s(t[3]))
    if k == "call":
        a = [s(x) for x in t[2]] + [f"{kk}={s(v)}" for kk, v in t[3]]
        return f"{s(t[1])}({', '.join(a)})"
    if k == "bin":
        return f"({s(t[2])} {_SYM.get(t[1], t[1])} {s(t[3])})"
    if k == "un":
        return f"{_SYM.get(t[1], t[1])} {s(t[2])}"
    if k == "cmp":
        return f"({s(t[2])} {_SYM.get(t[1], t[1])} {s(t[3])})"
    if k == "bool":
        return "(" + f" {t[1]} ".join(s(x) for x in t[2]) + ")"
    if k == "ifexp":
        return f"({s(t[2])} if {s(t[1])} else {s(t[3])})"
    if k == "tuple":
        return "(" + ", ".join(s(x) for x in t[1]) + ("," if len(t[1]) == 1 else "") + ")"
    if k == "fstr":
        return "f'" + "".join(x[2] if x[0] == "const" else "{" + s(x[1]) + ("!" + chr(x[2]) if x[2] not in (-1,) else "") +
                              (":" + s(x[3]) if x[3] != NONE else "") + "}" for x in t[1]) + "'"
    if k == "fmt":
        return "{" + s(t[1]) + "}"
    if k == "obj":
        if interp is not None:
            o = interp.objs[t[1]]
            if o.kind in _CONSTRUCTORS and not isinstance(o.node, (ast.List, ast.Set, ast.Dict)) and depth < 6:
                return f"{o.kind}(" + ", ".join(s(x) for x in o.init) + f")#{t[1]}"
            if o.kind in ("list", "set", "dict") and depth < 6:
                op, cl = {"list": "[]", "set": "{}", "dict": "{}"}[o.kind]
                return op + ", ".join(s(x) for x in o.init) + cl + f"#{t[1]}"
            if depth < 6:
                els = [e for e in interp.events if e.kind == "elem" and e.term == t]
                if els:
                    e = els[0]
                    lps = [L for L in e.loops if interp.loops[L].kind == "comp" and L not in o.loops]
                    src = " ".join(f"for @{L} in {s(interp.loops[L].iter)}" for L in lps)
                    extra = [c for c in e.conds[len(o.conds):]]
                    cond = "".join(f" if {'' if pol else 'not '}{s(c)}" for c, pol in extra)
                    return f"<{o.kind} {s(e.value)} {src}{cond}>"
        return f"<obj#{t[1]}>"
    if k == "lam":
        return f"<closure#{t[1]}>"
    if k == "elem":
        return f"{s(t[1])}<@{t[2]}>"
    if k == "idx":
        return f"@{t[1]}"
    if k in ("key", "val"):
        return f"{k}({s(t[1])})@{t[2]}"
    if k in ("loopvar", "after"):
        return f"{k}:{t[1]}@{t[2]}"
    if k == "unbound":
        return f"<unbound {t[1]}>"
    if k == "star":
        return "*" + s(t[1])
    if k == "dstar":
        return "**" + s(t[1])
    if k == "phi":
        return "phi(" + ", ".join(s(x) for x in t[1]) + ")"
    if k == "exc":
        return f"<exc {s(t[1])}>"
    if k == "first":
        return f"first@{t[1]}({s(t[2])} | else {s(t[3])})"
    return repr(t)


_SYM = {"Add": "+", "Sub": "-", "Mult": "*", "Div": "/", "FloorDiv": "//", "Mod": "%", "Pow": "**", "LShift": "<<", "RShift": ">>",
        "BitOr": "|", "BitAnd": "&", "BitXor": "^", "MatMult": "@", "Eq": "==", "NotEq": "!=", "Lt": "<", "LtE": "<=", "Gt": ">",
        "GtE": ">=", "Is": "is", "IsNot": "is not", "In": "in", "NotIn": "not in", "Not": "not", "USub": "-", "UAdd": "+",
        "Invert": "~"}


def beval(t: Term, atoms: Dict[Term, bool]):
    """Evaluate a boolean term under an assignment of atom terms; None when it does not reduce to a constant."""
    if t in atoms:
        return atoms[t]
    base, flip = strip_not(t)
    if flip and base in atoms:
        return not atoms[base]
    k = t[0]
    if k == "const":
        return t[2]
    if k == "un" and t[1] == "Not":
        v = beval(t[2], atoms)
        return None if v is None else (not v)
    if k == "bool":
        vals = [beval(x, atoms) for x in t[2]]
        if t[1] == "and":
            if any(v is False for v in vals):
                return False
            return None if any(v is None for v in vals) else vals[-1]
        if any(v is not None and v is not False and v for v in vals):
            return next(v for v in vals if v)
        return None if any(v is None for v in vals) else vals[-1]
    if k == "ifexp":
        c = beval(t[1], atoms)
        if c is None:
            return None
        return beval(t[2] if c else t[3], atoms)
    if k == "cmp" and t[1] in ("Eq", "NotEq", "Is", "IsNot"):
        a, b = beval(t[2], atoms), beval(t[3], atoms)
        if a is None and t[2] != NONE or b is None and t[3] != NONE:
            return None
        if isinstance(a, bool) and isinstance(b, bool):
            return (a == b) if t[1] in ("Eq", "Is") else (a != b)
        return None
    if k == "call" and t[1] == ("name", "bool") and len(t[2]) == 1 and not t[3]:
        v = beval(t[2][0], atoms)
        return None if v is None else bool(v)
    if k == "bin" and t[1] == "BitXor":
        a, b = beval(t[2], atoms), beval(t[3], atoms)
        if isinstance(a, bool) and isinstance(b, bool):
            return a != b
    return None


def simplify(t: Term, atoms: Dict[Term, bool], depth: int = 0) -> Term:
    """Rebuild t bottom-up with the conditionals / boolean operators decided by `atoms` resolved, `X is None` folded for
    constants, f-strings flattened (constant parts merged, empty parts dropped).  Objects are opaque."""
    if depth > 60:
        return t
    k = t[0]
    sm = lambda x: simplify(x, atoms, depth + 1)
    if k in ("const", "param", "name", "obj", "lam", "idx", "unbound", "loopvar", "after"):
        out = t
    elif k == "ifexp":
        c = sm(t[1])
        v = beval(c, atoms)
        if v is None:
            out = ("ifexp", c, sm(t[2]), sm(t[3]))
        else:
            return sm(t[2] if v else t[3])
    elif k == "bool":
        vals = [sm(x) for x in t[2]]
        keep = []
        for x in vals:
            v = beval(x, atoms)
            if t[1] == "and":
                if v is False or (v is not None and not v):
                    return x if x[0] == "const" else const(False)
                if v is None:
                    keep.append(x)
            else:
                if v is not None and v:
                    if not keep:
                        return x
                    keep.append(x)
                    break
                if v is None:
                    keep.append(x)
        if not keep:
            return vals[-1]
        out = keep[0] if len(keep) == 1 else ("bool", t[1], tuple(keep))
    elif k == "cmp":
        a, b = sm(t[2]), sm(t[3])
        out = ("cmp", t[1], a, b)
        if t[1] in ("Is", "IsNot") and a[0] == "const" and b[0] == "const":
            same = a == b
            return const(same if t[1] == "Is" else not same)
        if t[1] in ("Is", "IsNot") and b == NONE and a[0] in ("fstr", "tuple"):
            return const(t[1] == "IsNot")
    elif k == "un":
        a = sm(t[2])
        out = negate(a) if t[1] == "Not" else ("un", t[1], a)
    elif k == "call":
        out = ("call", sm(t[1]), tuple(sm(x) for x in t[2]), tuple((kk, sm(v)) for kk, v in t[3]))
    elif k == "fstr":
        parts: List[Term] = []
        for x in t[1]:
            if x[0] == "fmt":
                v = sm(x[1])
                if v[0] == "const" and isinstance(v[2], str) and x[2] == -1 and x[3] == NONE:
                    x = v
                elif v[0] == "fstr" and x[2] == -1 and x[3] == NONE:
                    for y in v[1]:
                        parts.append(y)
                    continue
                else:
                    x = ("fmt", v, x[2], x[3])
            if x[0] == "const" and parts and parts[-1][0] == "const":
                parts[-1] = const(str(parts[-1][2]) + str(x[2]))
            elif x[0] == "const" and x[2] == "":
                continue
            else:
                parts.append(x)
        out = ("fstr", tuple(parts))
        if len(parts) == 1 and parts[0][0] == "const":
            out = parts[0]
    elif k in ("tuple", "phi"):
        out = (k, tuple(sm(x) for x in t[1]))
    elif k == "attr":
        out = ("attr", sm(t[1]), t[2])
    elif k == "sub":
        out = ("sub", sm(t[1]), sm(t[2]))
    elif k == "bin":
        out = ("bin", t[1], sm(t[2]), sm(t[3]))
    elif k in ("elem", "key", "val"):
        out = (k, sm(t[1]), t[2])
    elif k == "first":
        out = ("first", t[1], sm(t[2]), sm(t[3]))
    else:
        out = t
    v = atoms[out] if (out[0] == "cmp" or (out[0] == "call" and out[1][0] == "attr" and out[1][2] in ("endswith", "startswith"))) and out in atoms else None
    if v is not None:
        return const(bool(v))
    return out


def substitute(t: Term, mapping: Dict[Term, Term]) -> Term:
    """Replace every occurrence of the keys of `mapping` in t."""
    if t in mapping:
        return mapping[t]
    k = t[0]
    sb = lambda x: substitute(x, mapping)
    if k in ("const", "param", "name", "obj", "lam", "idx", "unbound", "loopvar", "after"):
        return t
    if k == "call":
        return ("call", sb(t[1]), tuple(sb(x) for x in t[2]), tuple((kk, sb(v)) for kk, v in t[3]))
    if k in ("tuple", "fstr", "phi"):
        return (k, tuple(sb(x) for x in t[1]))
    if k == "bool":
        return ("bool", t[1], tuple(sb(x) for x in t[2]))
    if k == "fmt":
        return ("fmt", sb(t[1]), t[2], sb(t[3]) if isinstance(t[3], tuple) else t[3])
    if k in ("attr", "star", "dstar", "exc"):
        return (k, sb(t[1])) + tuple(t[2:])
    if k in ("elem", "key", "val"):
        return (k, sb(t[1]), t[2])
    if k == "first":
        return ("first", t[1], sb(t[2]), sb(t[3]))
    return (k,) + tuple(sb(x) if isinstance(x, tuple) and x and isinstance(x[0], str) else x for x in t[1:])


def reduce_ifexp(t: Term, atoms: Dict[Term, bool]) -> Term:
    """Resolve the conditionals of `t` whose tests are decided by `atoms` (top-down)."""
    while t[0] == "ifexp":
        c = beval(t[1], atoms)
        if c is None:
            break
        t = t[2] if c else t[3]
    return t


def flatten_conds(conds: Sequence[Cond]) -> List[Cond]:
    """Literals implied by a path condition: (a and b) true -> a, b true; (a or b) false -> a, b false; each literal in
    positive form (x is not None -> (x is None, False))."""
    out: List[Cond] = []

    def add(t: Term, pol: bool) -> None:
        b, flip = strip_not(t)
        pol = pol != flip
        if b[0] == "bool" and ((b[1] == "and") == pol):
            for x in b[2]:
                add(x, pol)
        else:
            out.append((b, pol))
    for t, pol in conds:
        add(t, pol)
    return out


def dnf(conds: Sequence[Cond], limit: int = 1024) -> Optional[List[frozenset]]:
    """The path condition as a disjunction of literal sets - one per class of paths - with the contradictory ones dropped.
    and/or/not and conditional terms (also inside a comparison: (a if c else b) is None) are split; constants fold.
    None when the expansion exceeds `limit` classes."""
    class _TooBig(Exception):
        pass

    def lit(t: Term, pol: bool) -> List[frozenset]:
        b, flip = strip_not(t)
        pol = pol != flip
        ct = const_truth(b)
        if ct is not None:
            return [frozenset()] if ct == pol else []
        if b[0] == "bool":
            parts = [lit(x, pol) for x in b[2]]
            if (b[1] == "and") == pol:
                return product(parts)
            out: List[frozenset] = []
            for p_ in parts:
                out += p_
            return out
        if b[0] == "ifexp":
            return product([lit(b[1], True), lit(b[2], pol)]) + product([lit(b[1], False), lit(b[3], pol)])
        if b[0] == "cmp":
            for i in (2, 3):
                if b[i][0] == "ifexp":
                    c, x, y = b[i][1], b[i][2], b[i][3]
                    tx = b[:i] + (x,) + b[i + 1:]
                    ty = b[:i] + (y,) + b[i + 1:]
                    return product([lit(c, True), lit(tx, pol)]) + product([lit(c, False), lit(ty, pol)])
        return [frozenset([(b, pol)])]

    def product(parts: List[List[frozenset]]) -> List[frozenset]:
        acc: List[frozenset] = [frozenset()]
        for p_ in parts:
            nxt = []
            for a in acc:
                for b in p_:
                    u = a | b
                    if any((t, not pol) in u for t, pol in b):
                        continue
                    nxt.append(u)
            acc = list(dict.fromkeys(nxt))
            if len(acc) > limit:
                raise _TooBig()
        return acc
    try:
        return product([lit(t, pol) for t, pol in conds])
    except _TooBig:
        return None


def show_conds(conds: Sequence[Cond], interp: Optional[Interp] = None) -> str:
    return " and ".join(("" if pol else "not ") + show(c, interp) for c, pol in conds) or "always"


def single_element(interp: Interp, obj: Term):
    """(loops inside the object's scope, extra conditions, value term) when `obj` receives exactly ONE element per iteration:
    one fill site, or two fill sites under complementary conditions (if c: xs.append(a) else: xs.append(b) -> a if c else b).
    None otherwise."""
    if obj[0] != "obj":
        return None
    o = interp.objs[obj[1]]
    if o.init:
        return None
    els = elements(interp, obj)

    def val(e):
        return e.value if e.kind == "elem" else (e.term[2][0] if e.kind == "call" and len(e.term[2]) == 1 and e.term[1][2] in ("append", "add") else None)
    if len(els) == 1:
        e = els[0]
        if val(e) is None:
            return None
        return tuple(L for L in e.loops if L not in o.loops), tuple(e.conds[len(o.conds):]), val(e), e
    if len(els) == 2:
        a, b = els
        if a.loops != b.loops or val(a) is None or val(b) is None or len(a.conds) != len(b.conds) or not a.conds:
            return None
        if a.conds[:-1] != b.conds[:-1] or a.conds[-1][0] != b.conds[-1][0] or a.conds[-1][1] == b.conds[-1][1]:
            return None
        c, pol = a.conds[-1]
        v = mk_ifexp(c, val(a), val(b)) if pol else mk_ifexp(c, val(b), val(a))
        return tuple(L for L in a.loops if L not in o.loops), tuple(a.conds[len(o.conds):-1]), v, a
    return None


def elements(interp: Interp, obj: Term) -> List[Event]:
    """Every event that puts an element into `obj` (comprehension element, .append/.add/.extend call, subscript store),
    in program order.  Display elements are in interp.objs[..].init."""
    out = []
    for e in interp.events:
        if e.kind == "elem" and e.term == obj:
            out.append(e)
        elif e.kind == "call" and e.term[1][0] == "attr" and e.term[1][1] == obj and e.term[1][2] in ("append", "add", "extend", "insert", "update", "setdefault"):
            out.append(e)
        elif e.kind == "store" and e.term[0] == "sub" and e.term[1] == obj:
            out.append(e)
    return out


# ---------------------------------------------------------------------------------------------
# back to syntax: the normal form of a value as a Python expression (for the AST-level recognisers)
# ---------------------------------------------------------------------------------------------
_OPS = {n: getattr(ast, n) for n in ("Add", "Sub", "Mult", "Div", "FloorDiv", "Mod", "Pow", "LShift", "RShift", "BitOr", "BitAnd", "BitXor",
                                      "MatMult", "Eq", "NotEq", "Lt", "LtE", "Gt", "GtE", "Is", "IsNot", "In", "NotIn", "Not", "USub", "UAdd",
                                      "Invert")}


def term_to_ast(it: Interp, t: Term, depth: int = 0) -> ast.expr:
    """A Python expression that denotes term t: locals are gone (copy propagation), helpers are inlined, comprehensions and
    append-loops are comprehensions, loop elements are `_v<loop>` names.  Used to feed recognisers written over syntax
    (aggfacts) with normalised code."""
    cv = lambda x: term_to_ast(it, x, depth + 1)
    if depth > 40:
        return ast.Name(id="<deep>", ctx=ast.Load())
    k = t[0]
    if k == "const":
        return ast.Constant(value=t[2])
    if k in ("param", "name"):
        return ast.Name(id=t[1], ctx=ast.Load())
    if k == "attr":
        return ast.Attribute(value=cv(t[1]), attr=t[2], ctx=ast.Load())
    if k == "sub":
        return ast.Subscript(value=cv(t[1]), slice=cv(t[2]), ctx=ast.Load())
    if k == "slice":
        return ast.Slice(lower=None if t[1] == NONE else cv(t[1]), upper=None if t[2] == NONE else cv(t[2]),
                         step=None if t[3] == NONE else cv(t[3]))
    if k == "call":
        return ast.Call(func=cv(t[1]), args=[cv(x) for x in t[2]],
                        keywords=[ast.keyword(arg=None if kk == "**" else kk, value=cv(v)) for kk, v in t[3]])
    if k == "bin":
        return ast.BinOp(left=cv(t[2]), op=_OPS[t[1]](), right=cv(t[3]))
    if k == "un":
        return ast.UnaryOp(op=_OPS[t[1]](), operand=cv(t[2]))
    if k == "cmp":
        return ast.Compare(left=cv(t[2]), ops=[_OPS[t[1]]()], comparators=[cv(t[3])])
    if k == "bool":
        return ast.BoolOp(op=ast.And() if t[1] == "and" else ast.Or(), values=[cv(x) for x in t[2]])
    if k == "ifexp":
        return ast.IfExp(test=cv(t[1]), body=cv(t[2]), orelse=cv(t[3]))
    if k == "tuple":
        return ast.Tuple(elts=[cv(x) for x in t[1]], ctx=ast.Load())
    if k == "star":
        return ast.Starred(value=cv(t[1]), ctx=ast.Load())
    if k == "fstr":
        vals = []
        for x in t[1]:
            if x[0] == "const":
                vals.append(ast.Constant(value=x[2]))
            else:
                vals.append(ast.FormattedValue(value=cv(x[1]), conversion=x[2] if isinstance(x[2], int) else -1, format_spec=None))
        return ast.JoinedStr(values=vals)
    if k == "elem":
        return ast.Name(id=f"_v{t[2]}", ctx=ast.Load())
    if k == "idx":
        return ast.Name(id=f"_i{t[1]}", ctx=ast.Load())
    if k in ("key", "val"):
        return ast.Name(id=f"_{k[0]}{t[2]}", ctx=ast.Load())
    if k == "lam":
        c = it.closures[t[1]]
        if isinstance(c.node, ast.Lambda):
            import copy as _copy
            return _copy.deepcopy(c.node)
        return ast.Name(id=f"_closure{t[1]}", ctx=ast.Load())
    if k == "obj":
        o = it.objs[t[1]]
        if o.kind in ("list", "set", "dict") and isinstance(o.node, (ast.List, ast.Set, ast.Dict)) and not it._mutated(t):
            if o.kind == "list":
                return ast.List(elts=[cv(x) for x in o.init], ctx=ast.Load())
            if o.kind == "set":
                return ast.Set(elts=[cv(x) for x in o.init]) if o.init else ast.Call(func=ast.Name(id="set", ctx=ast.Load()), args=[], keywords=[])
            return ast.Dict(keys=[cv(x[1][0]) if x[0] == "tuple" else None for x in o.init],
                            values=[cv(x[1][1]) if x[0] == "tuple" else cv(x[1]) for x in o.init])
        if isinstance(o.node, ast.Call) and not it._mutated(t):
            return ast.Call(func=ast.Name(id=o.kind, ctx=ast.Load()), args=[cv(x) for x in o.init], keywords=[])
        se = single_element(it, t)
        if se is not None and se[0]:
            lps, extra, val, ev = se
            gens = []
            for L in lps:
                lp = it.loops[L]
                src = lp.iter
                tgt: ast.expr = ast.Name(id=f"_v{L}", ctx=ast.Store())
                if lp.range is not None or (src is not None and src[0] == "call" and src[1] == ("name", "enumerate")):
                    tgt = ast.Name(id=f"_i{L}", ctx=ast.Store()) if lp.range is not None else \
                        ast.Tuple(elts=[ast.Name(id=f"_i{L}", ctx=ast.Store()), ast.Name(id=f"_v{L}", ctx=ast.Store())], ctx=ast.Store())
                if lp.domain is not None and lp.domain[0] != "tuple" and lp.range is None and src is not None and src[0] == "call" \
                        and src[1] != ("name", "enumerate"):
                    src = lp.domain
                gens.append(ast.comprehension(target=tgt, iter=cv(src) if src is not None else ast.Name(id="<iter>", ctx=ast.Load()),
                                              ifs=[], is_async=0))
            # all extra conditions on the innermost generator (pure filters)
            for c, pol in ev.conds[len(o.conds):]:
                gens[-1].ifs.append(cv(c if pol else negate(c)))
            # elements of the iterated sequence are named after the loop: rewrite ('elem', iter, L) handled by cv
            if o.kind == "dictcomp" and val[0] == "tuple" and len(val[1]) == 2:
                return ast.DictComp(key=cv(val[1][0]), value=cv(val[1][1]), generators=gens)
            node_cls = {"genexp": ast.GeneratorExp, "setcomp": ast.SetComp}.get(o.kind, ast.ListComp)
            return node_cls(elt=cv(val), generators=gens)
        return ast.Name(id=f"_obj{t[1]}", ctx=ast.Load())
    if k == "first":
        return ast.Name(id=f"_first{t[1]}", ctx=ast.Load())
    if k in ("loopvar", "after"):
        return ast.Name(id=f"_{t[1]}_{k}{t[2]}", ctx=ast.Load())
    return ast.Name(id=f"<{k}>", ctx=ast.Load())


def normalised_function(it: Interp, returns: Optional[List[Event]] = None, name: str = "normal_form") -> ast.FunctionDef:
    """A synthetic function `def f(): if <guard>: return a ... return z` built from the return events of the analysed function
    (guard = the last condition of each non-final return): the normal form of a pure, value-returning function."""
    rets = returns if returns is not None else [e for e in it.events if e.kind == "return" and e.depth == 0]
    body: List[ast.stmt] = []
    for i, e in enumerate(rets):
        val = ast.Return(value=term_to_ast(it, e.term))
        if i < len(rets) - 1 and e.conds:
            c, pol = e.conds[-1]
            test = term_to_ast(it, c if pol else negate(c))
            body.append(ast.If(test=test, body=[val], orelse=[]))
        else:
            body.append(val)
    fn = ast.FunctionDef(name=name, args=ast.arguments(posonlyargs=[], args=[], kwonlyargs=[], kw_defaults=[], defaults=[]),
                         body=body or [ast.Pass()], decorator_list=[], returns=None, type_comment=None)
    fn.lineno = getattr(it.func.node, "lineno", 1)
    return ast.fix_missing_locations(fn)

"""C14 - sorting is a stable permutation with direction-independent None placement."""
from __future__ import annotations

import ast
from typing import List, Optional, Tuple

from ..absint import NONE, AnyIndex, Const, Inst, Interp, Tup
from ..astutil import Defs
from ..core import AnalysisError, attr_chain, cshort, kwarg, short, walk_no_nested, walk_stmts
from ..effects import MUTATING_BUILTIN
from . import nameres
from .joinrules import content_writes


def run(ctx) -> None:
    ctx.rule("a.permutation", "Table.sort_by permutes one index list list(range(nrows)) - only .sort() ever touches it - and "
                              "rebuilds EVERY column by gathering through that same list under the source name; Vector.sort_by "
                              "stores sorted(self._underlying)", 2)
    ctx.rule("b.stable-keys", "only list.sort / sorted (stable) are used; keys are applied from the last to the first; each pass "
                              "uses its own column's data and its own reverse flag", 2)
    ctx.rule("c.none-placement", "for every (reverse, na_last) cell the sort key puts None after all values iff na_last once the "
                                 "reversal is applied, and None is never compared with a value (exact evaluation of the key function)", 8)
    ctx.rule("d.flags", "reverse is normalised to one bool per key (length-checked) and paired with the resolved key of the same position", 2)
    ctx.rule("e.purity", "sort_by writes no content field of its operands", 2)
    ctx.rule("f.name-resolution", "sort keys given by name resolve by exact stored name (R-NAME)", 2)
    ctx.section("table", _table, ctx)
    ctx.section("vector", _vector, ctx)
    ctx.section("none", _none_cells, ctx)
    ctx.section("purity", _purity, ctx)
    ctx.section("names", nameres.check, ctx, "f.name-resolution")
    ctx.not_decided.append("that the comparison used by sort is a total order on the non-None values (user data)")


def _table(ctx) -> None:
    prog = ctx.prog
    f = prog.func("table.Table.sort_by")
    d = Defs(f)
    problems = []
    idx = [n for n, lst in d.assigns.items() if any(v is not None and short(v).startswith("list(range(") for v, _, _ in lst)]
    if len(idx) != 1:
        raise AnalysisError("Table.sort_by: index list list(range(nrows)) not found")
    ix = idx[0]
    if len(d.assigns[ix]) != 1:
        problems.append(f"`{ix}` is rebound: the result is no longer a permutation of the row indices produced by stable sorts")
    init = d.assigns[ix][0][0]
    nr = d.resolve(init.args[0].args[0]) if isinstance(init.args[0], ast.Call) and init.args[0].args else None
    if nr is None or short(nr) != "len(self)" or len(init.args[0].args) != 1:
        problems.append(f"`{ix}` starts as `{short(init)}`, not list(range(len(self)))")
    sorts = []
    for n in walk_no_nested(f.node):
        if isinstance(n, ast.Call) and isinstance(n.func, ast.Attribute) and short(n.func.value) == ix:
            if n.func.attr == "sort":
                sorts.append(n)
            elif n.func.attr in MUTATING_BUILTIN:
                problems.append(f"`{short(n, 40)}` changes the index list other than by a stable sort")
    for s in walk_stmts(f.body):
        tg = s.targets if isinstance(s, ast.Assign) else [s.target] if isinstance(s, ast.AugAssign) else s.targets if isinstance(s, ast.Delete) else []
        for t in tg:
            if isinstance(t, ast.Subscript) and short(t.value) == ix:
                problems.append(f"`{short(s, 50)}` writes the index list directly")
    # rebuild
    loops = [s for s in f.body if isinstance(s, ast.For) and short(s.iter) == "self._underlying"
             and any(isinstance(n, ast.Call) and short(n.func).endswith(".append") for n in walk_no_nested(s))]
    rebuild = [lp for lp in loops if f.body.index(lp) > max((f.body.index(x) for x in f.body if any(c is y for c in sorts for y in ast.walk(x))), default=-1)]
    if len(rebuild) != 1:
        problems.append("the columns are not rebuilt in one loop over all columns after sorting")
    else:
        lp = rebuild[0]
        col = lp.target.id
        dd = {s.targets[0].id: s.value for s in lp.body if isinstance(s, ast.Assign) and isinstance(s.targets[0], ast.Name)}
        app = [n for n in walk_no_nested(lp) if isinstance(n, ast.Call) and short(n.func).endswith(".append")]
        v = app[0].args[0] if app else None
        if not (isinstance(v, ast.Call) and short(v.func) == "Vector" and v.args):
            problems.append("a result column is not a Vector over gathered data")
        else:
            data = v.args[0]
            data = dd.get(data.id, data) if isinstance(data, ast.Name) else data
            ok = False
            if isinstance(data, ast.ListComp) and len(data.generators) == 1 and not data.generators[0].ifs \
                    and short(data.generators[0].iter) == ix and isinstance(data.elt, ast.Subscript) \
                    and short(data.elt.slice) == data.generators[0].target.id:
                src = data.elt.value
                src = dd.get(src.id, src) if isinstance(src, ast.Name) else src
                ok = short(src) in (f"{col}._underlying", col)
            if not ok:
                problems.append(f"column data is `{short(data, 60)}`, expected [<column storage>[i] for i in {ix}] (every row exactly once, "
                                f"cells of a row kept together)")
            nm = kwarg(v, "name")
            if nm is None or short(nm) != f"{col}._name":
                problems.append(f"result column is named `{short(nm) if nm is not None else 'nothing'}`, expected {col}._name")
            if kwarg(v, "dtype") is not None:
                problems.append("result column is given an explicit dtype")
        ret = f.body[-1]
        if not (isinstance(ret, ast.Return) and isinstance(ret.value, ast.Call) and short(ret.value.func) == "Table"):
            problems.append("does not return a Table of the rebuilt columns")
    ctx.ob("a.permutation", f, "table", not problems, "one index permutation gathered through every column", f.node, message="; ".join(problems))
    # ---- b: stability / key order
    problems = []
    if len(sorts) != 1:
        problems.append(f"{len(sorts)} `.sort` calls on the index list, expected one inside the per-key loop")
    key_loop = None
    for s in walk_stmts(f.body):
        if isinstance(s, ast.For) and sorts and any(n is sorts[0] for n in walk_no_nested(s)):
            key_loop = s
    mm = None
    if key_loop is None:
        problems.append("the sort is not inside a loop over the keys")
    else:
        it = short(key_loop.iter)
        tg = [n.id for n in ast.walk(key_loop.target) if isinstance(n, ast.Name)]
        m = None
        import re
        mm = re.fullmatch(r"reversed\(list\(zip\((\w+), (\w+)\)\)\)", it)
        if not mm or len(tg) != 2:
            problems.append(f"keys are applied in the order `{it}`, expected reversed(list(zip(<resolved keys>, <reverse flags>))): the last "
                            f"key first, so that earlier keys dominate (stable sorts)")
        else:
            colv, revv = tg
            resolved, revs = mm.group(1), mm.group(2)
            st = sorts[0]
            rk = kwarg(st, "reverse")
            if rk is None or short(rk) != revv:
                problems.append(f"the pass sorts with reverse=`{short(rk) if rk is not None else 'False'}`, expected this key's own flag `{revv}`")
            kf = kwarg(st, "key")
            fn = None
            for s in key_loop.body:
                if isinstance(s, ast.FunctionDef) and kf is not None and s.name == short(kf):
                    fn = s
            if fn is None:
                problems.append("the sort key function is not defined per key inside the loop")
            else:
                dd = {s.targets[0].id: short(s.value) for s in key_loop.body if isinstance(s, ast.Assign) and isinstance(s.targets[0], ast.Name)}
                defaults = {a.arg: short(dv) for a, dv in zip(fn.args.args[-len(fn.args.defaults):], fn.args.defaults)} if fn.args.defaults else {}
                data_def = defaults.get("data")
                data_def = defaults.get(fn.args.args[1].arg) if len(fn.args.args) > 1 else None
                if not (data_def and dd.get(data_def) == f"{colv}._underlying"):
                    problems.append("the key function does not read THIS key column's storage (bound per iteration)")
                if revv not in defaults.values():
                    problems.append("the key function's rev is not this key's own flag (bound per iteration)")
            # resolved / rev_flags provenance
            rs = [s for s in walk_stmts(f.body) if isinstance(s, ast.Expr) and short(s.value).startswith(f"{resolved}.append(")]
            if len(rs) != 1:
                problems.append(f"`{resolved}` is not filled once per key")
    for n in walk_no_nested(f.node):
        if isinstance(n, ast.Call) and short(n.func) in ("reversed",) and n.args and short(n.args[0]) == ix:
            problems.append("the index list is reversed wholesale: ties would come out in reversed order")
    ctx.ob("b.stable-keys", f, "table", not problems, "stable passes from last key to first, each with its own data and flag", key_loop or f.node,
           message="; ".join(problems))
    # ---- d: flags
    problems = []
    revs = mm.group(2) if (key_loop is not None and mm) else None
    resolved_v = mm.group(1) if (key_loop is not None and mm) else None
    rev_param = f.params[2] if len(f.params) > 2 else "reverse"
    # keys variable: the list the resolution loop ranges over
    res_loop = None
    for s_ in walk_stmts(f.body):
        if isinstance(s_, ast.For) and isinstance(s_.iter, ast.Name) and resolved_v and any(
                isinstance(n, ast.Call) and short(n.func) == f"{resolved_v}.append" for n in walk_no_nested(s_)):
            res_loop = s_
    keysv = res_loop.iter.id if res_loop is not None else "?"
    nrv = [n for n, lst in d.assigns.items() if any(v is not None and short(v) == "len(self)" for v, _, _ in lst)]
    nrv = nrv[0] if nrv else "?"
    rf = [s_ for s_ in walk_stmts(f.body) if isinstance(s_, ast.Assign) and revs and short(s_.targets[0]) == revs]
    texts = sorted(cshort(s_.value) for s_ in rf)
    if texts != sorted([f"[{rev_param}] * len({keysv})", f"[bool(_0) for _0 in {rev_param}]"]):
        problems.append(f"reverse flags are built as {texts}; expected one bool per key")
    guard = [s_ for s_ in walk_stmts(f.body) if isinstance(s_, ast.If) and short(s_.test) == f"len({rev_param}) != len({keysv})"
             and any(isinstance(b_, ast.Raise) for b_ in s_.body)]
    if not guard:
        problems.append("a per-key reverse list is not length-checked against the keys")
    if res_loop is None or not isinstance(res_loop.target, ast.Name):
        problems.append("keys are not resolved one by one, in order, through _resolve_column")
    else:
        spec = res_loop.target.id
        rcs = [x for x in res_loop.body if isinstance(x, ast.Assign) and short(x.value) == f"self._resolve_column({spec})"]
        if not rcs:
            problems.append("keys are not resolved one by one, in order, through _resolve_column")
        else:
            cv = rcs[0].targets[0].id
            lg = [x for x in res_loop.body if isinstance(x, ast.If) and short(x.test) == f"len({cv}) != {nrv}"]
            if not lg:
                problems.append("sort keys are not length-checked against the table")
            if not any(short(x) == f"{resolved_v}.append({cv})" for x in res_loop.body):
                problems.append("the resolved key is not recorded in key order")
    ctx.ob("d.flags", f, "flags", not problems, "one bool per key, same position as its key", f.node, message="; ".join(problems))
    # empty table branch keeps columns and names
    emp = [s_ for s_ in f.body if isinstance(s_, ast.If) and short(s_.test) == f"{nrv} == 0"]
    ok = bool(emp) and any("Vector([], name=_0._name) for _0 in self._underlying" in cshort(n) for n in walk_no_nested(emp[0])
                           if isinstance(n, (ast.ListComp, ast.GeneratorExp)))
    ctx.ob("d.flags", f, "empty", ok, "an empty table keeps its columns and names", emp[0] if emp else f.node,
           message="sorting an empty table does not keep its columns / names")


def _vector(ctx) -> None:
    prog = ctx.prog
    f = prog.func("vector.Vector.sort_by")
    d = Defs(f)
    problems = []
    rets = [s for s in walk_stmts(f.body) if isinstance(s, ast.Return)]
    v = d.resolve(rets[0].value) if rets else None
    if not (isinstance(v, ast.Call) and short(v.func) == "Vector" and v.args):
        problems.append("does not return a new Vector")
    else:
        data = d.resolve(v.args[0])
        inner = data.args[0] if isinstance(data, ast.Call) and short(data.func) in ("tuple", "list") and data.args else data
        if not (isinstance(inner, ast.Call) and short(inner.func) == "sorted" and inner.args and short(inner.args[0]) == "self._underlying"):
            problems.append(f"the data are `{short(data, 60)}`, expected sorted(self._underlying, ...) (a permutation of the elements)")
        else:
            if kwarg(inner, "reverse") is None or short(kwarg(inner, "reverse")) != "reverse":
                problems.append("sorted() is not given the caller's reverse flag")
            if kwarg(inner, "key") is None:
                problems.append("sorted() has no None-aware key")
        nm = kwarg(v, "name")
        if nm is None or short(nm) != "self._name":
            problems.append("the sorted vector does not keep self's name")
    ctx.ob("a.permutation", f, "vector", not problems, "Vector.sort_by = sorted(self._underlying, key, reverse), name kept", f.node,
           message="; ".join(problems))
    ctx.ob("b.stable-keys", f, "vector", not any(isinstance(n, ast.Call) and short(n.func) in ("reversed",) or
                                                (isinstance(n, ast.Call) and isinstance(n.func, ast.Attribute) and n.func.attr == "reverse")
                                                for n in walk_no_nested(f.node)),
           "no wholesale reversal", f.node, message="Vector.sort_by reverses a sorted list wholesale: ties come out in reversed order")


def _eval_key(ctx, owner, node, closure, elem):
    I = Interp(ctx.prog)
    return I.run_function_node(node, owner, [elem], closure)


def _none_cells(ctx) -> None:
    prog = ctx.prog
    # ---- Table.sort_by.key_fn
    f = prog.func("table.Table.sort_by")
    kf = prog.nested(f.qualname, "key_fn")
    cells = [(rev, nl) for rev in (False, True) for nl in (False, True)]
    for who, owner, nodes in (("Table.sort_by", kf, None), ("Vector.sort_by", prog.func("vector.Vector.sort_by"), "lambdas")):
        for rev, nl in cells:
            problems = []
            try:
                if who == "Table.sort_by":
                    def call(elem):
                        I = Interp(prog)
                        env = {"data": AnyIndex(elem), "rev": Const(rev), "na_last": Const(nl), "__module__": "table"}
                        node = kf.node
                        a = node.args
                        names = [x.arg for x in a.args]
                        return I.run_function_node(_strip_defaults(node), kf, [Const(0)] + [env[n] for n in names[1:]], {"__module__": "table"})
                    rn, rv = call(NONE), call(Inst("int"))
                else:
                    g = prog.func("vector.Vector.sort_by")
                    from ..absint import Closure
                    I = Interp(prog)
                    env = {"reverse": Const(rev), "na_last": Const(nl), "__module__": "vector"}
                    key_expr = None
                    for st in g.body:
                        if isinstance(st, ast.Expr) and isinstance(st.value, ast.Constant):
                            continue
                        srt = [n for n in walk_no_nested(st) if isinstance(n, ast.Call) and short(n.func) == "sorted"]
                        if srt:
                            key_expr = kwarg(srt[0], "key")
                            break
                        I.exec_stmt(st, env, g)
                    if key_expr is None:
                        raise AnalysisError("Vector.sort_by: sorted(..., key=...) not found")
                    clo = I.ev(key_expr, env, g)
                    if not isinstance(clo, Closure):
                        raise AnalysisError("Vector.sort_by: the sort key is not a lambda / local function")
                    rn = I.run_function_node(clo.node, g, [NONE], clo.env)
                    rv = I.run_function_node(clo.node, g, [Inst("int")], clo.env)
            except AnalysisError as e:
                raise
            if rn[0] != "return" or rv[0] != "return" or not isinstance(rn[1], Tup) or not isinstance(rv[1], Tup):
                problems.append(f"the key function does not return a (flag, value) tuple: {rn} / {rv}")
            else:
                fn_, fv_ = rn[1].items[0], rv[1].items[0]
                if not (isinstance(fn_, Const) and isinstance(fv_, Const)):
                    problems.append("the None flag is not a constant per (None / not None)")
                else:
                    a, b = fn_.v, fv_.v
                    if a == b:
                        problems.append("None and values get the same flag: None would be compared with a value (TypeError)")
                    else:
                        none_after = (a > b) != rev
                        if none_after != nl:
                            problems.append(f"with reverse={rev}, na_last={nl} the key flags are None->{a!r}, value->{b!r}: after "
                                            f"{'reversal' if rev else 'the ascending sort'} None comes "
                                            f"{'LAST' if none_after else 'FIRST'}, the contract says {'last' if nl else 'first'}")
                # second component among Nones must be a constant or None itself (never a value comparison)
                if isinstance(rn[1], Tup) and len(rn[1].items) > 1:
                    sec = rn[1].items[1]
                    if not isinstance(sec, Const):
                        problems.append("the tie-break component of a None key is not constant")
            ctx.ob("c.none-placement", owner, f"{who}:reverse={rev},na_last={nl}", not problems,
                   f"{who}: None {'last' if nl else 'first'} under reverse={rev}", owner.node, message=f"{who}: " + "; ".join(problems))


def _strip_defaults(node):
    import copy
    n2 = copy.copy(node)
    n2.args = copy.copy(node.args)
    n2.args.defaults = []
    return n2


def _select_lambda(prog, g, na_last: bool, reverse: bool):
    """The lambda bound to the sort key on the path taken for this na_last (evaluating the `if na_last:` selection)."""
    d = Defs(g)
    cands = [(v, st) for v, st, how in d.assigns.get("key_fn", []) if isinstance(v, ast.Lambda)]
    if not cands:
        # key passed inline
        for n in walk_no_nested(g.node):
            if isinstance(n, ast.Call) and short(n.func) == "sorted":
                k = kwarg(n, "key")
                if isinstance(k, ast.Lambda):
                    return k
        raise AnalysisError("Vector.sort_by: sort key lambda not found")
    if len(cands) == 1:
        return cands[0][0]
    # choose by the enclosing `if na_last:` branch
    for st in g.body:
        if isinstance(st, ast.If) and short(st.test) in ("na_last", "not na_last"):
            pos = short(st.test) == "na_last"
            branch = st.body if (na_last == pos) else st.orelse
            for s in walk_stmts(branch):
                if isinstance(s, ast.Assign) and isinstance(s.value, ast.Lambda):
                    return s.value
    raise AnalysisError("Vector.sort_by: cannot select the key lambda for na_last")


def _purity(ctx) -> None:
    for q in ("table.Table.sort_by", "vector.Vector.sort_by"):
        ws = content_writes(ctx.prog, q)
        f = ctx.prog.func(q)
        ctx.ob("e.purity", f, "purity", not ws, "no content write on operands", f.node,
               message=f"{q} modifies its operands: " + "; ".join(f"{x.root}.{x.fld} at {x.func.split('.')[-1]}:{x.line}" for x in ws[:3]))


_T, _V = "table", "vector"
MUTANTS = [
    dict(id="sort-without-reverse", module=_T, old="			indices.sort(key=key_fn, reverse=rev)", new="			indices.sort(key=key_fn)", rules=["b.stable-keys"]),
    dict(id="flags-reversed", module=_T, old="		for col, rev in reversed(list(zip(resolved, rev_flags))):", new="		for col, rev in reversed(list(zip(resolved, reversed(rev_flags)))):",
         rules=["b.stable-keys"]),
    dict(id="keys-first-to-last", module=_T, old="		for col, rev in reversed(list(zip(resolved, rev_flags))):", new="		for col, rev in list(zip(resolved, rev_flags)):",
         rules=["b.stable-keys"]),
    dict(id="table-flag-ignores-rev", module=_T, old="					flag = is_none if not rev else (not is_none)", new="					flag = is_none", rules=["c.none-placement"]),
    dict(id="indices-pop", module=_T, old="		# --- 6. Rebuild columns in sorted order ---\n", new="		indices.pop()\n", rules=["a.permutation"]),
    dict(id="columns-gathered-differently", module=_T, old="			new_data = [src[i] for i in indices]", new="			new_data = [src[i] for i in sorted(indices)] if col._name is None else [src[i] for i in indices]",
         rules=["a.permutation"]),
    dict(id="vector-flag-not-flipped", module=_V,
         old="			key_fn = lambda x: ((x is None) if not reverse else (x is not None), x if x is not None else 0)",
         new="			key_fn = lambda x: (x is None, x if x is not None else 0)", rules=["c.none-placement"]),
    dict(id="vector-none-high-merged", module=_V,
         old="		if na_last:\n			key_fn = lambda x: ((x is None) if not reverse else (x is not None), x if x is not None else 0)\n		else:\n			key_fn = lambda x: ((x is not None) if not reverse else (x is None), x if x is not None else 0)",
         new="		none_high = na_last and not reverse\n		key_fn = lambda x: ((x is None) if none_high else (x is not None), x if x is not None else 0)",
         rules=["c.none-placement"]),
    dict(id="descending-by-reverse-call", module=_T, old="			indices.sort(key=key_fn, reverse=rev)",
         new="			indices.sort(key=key_fn)\n			if rev:\n				indices.reverse()", rules=["a.permutation", "b.stable-keys"]),
    dict(id="vector-sorted-drops-name", module=_V, old="		new_vector = Vector(new_values, dtype=self._dtype, name=self._name)",
         new="		new_vector = Vector(new_values, dtype=self._dtype)", rules=["a.permutation"]),
    dict(id="sort-renames-columns-lower", module=_T, old="			new_cols.append(Vector(new_data, name=col._name))\n\n		return Table(new_cols)",
         new="			new_cols.append(Vector(new_data, name=str(col._name).lower()))\n\n		return Table(new_cols)", rules=["a.permutation"]),
    dict(id="twin-rename-indices", module=_T, twin=True, edits=[(_T, "indices", "order", 47)]),
]

"""C14 - sorting is a stable permutation with direction-independent None placement."""
from __future__ import annotations

import ast
from typing import List, Optional, Tuple

from ..symx import NONE as SNONE
from ..symx import Interp as SInterp
from ..symx import beval, callee, const, elements, kw, reduce_ifexp, show, show_conds, subterms
from ..astutil import Defs
from ..core import AnalysisError, attr_chain, cshort, kwarg, short, walk_no_nested, walk_stmts
from ..effects import MUTATING_BUILTIN
from . import nameres
from .joinrules import content_writes
from ..symx import subterms as _subterms


def run(ctx) -> None:
    ctx.rule("a.permutation", "Table.sort_by permutes one index list list(range(nrows)) - only .sort() ever touches it - and "
                              "rebuilds EVERY column by gathering through that same list under the source name; Vector.sort_by "
                              "stores sorted(self._underlying)", 2)
    ctx.rule("b.stable-keys", "only list.sort / sorted (stable) are used; keys are applied from the last to the first; each pass "
                              "uses its own column's data and its own reverse flag", 2)
    ctx.rule("c.none-placement", "for every (reverse, na_last) cell the sort key puts None after all values iff na_last once the "
                                 "reversal is applied, and None is never compared with a value (exact evaluation of the key function)", 8)
    ctx.rule("d.flags", "reverse is normalised to one bool per key (length-checked) and paired with the resolved key of the same position", 2)
    ctx.rule("e.purity", "sort_by writes no content field of its operands", 2)
    ctx.rule("f.name-resolution", "sort keys given by name resolve by exact stored name (R-NAME)", 2)
    ctx.section("table", _table, ctx)
    ctx.section("vector", _vector, ctx)
    ctx.section("none", _none_cells, ctx)
    ctx.section("purity", _purity, ctx)
    ctx.section("names", nameres.check, ctx, "f.name-resolution")
    ctx.not_decided.append("that the comparison used by sort is a total order on the non-None values (user data)")


def _seq_of(it, t):
    """Strip list()/tuple() wrappers (constructor objects or call terms)."""
    while True:
        if t[0] == "obj" and it.objs[t[1]].kind == "list" and isinstance(it.objs[t[1]].node, ast.Call) and len(it.objs[t[1]].init) == 1:
            t = it.objs[t[1]].init[0]
        elif t[0] == "call" and t[1] in (("name", "list"), ("name", "tuple")) and len(t[2]) == 1 and not t[3]:
            t = t[2][0]
        else:
            return t


def _sort_kwargs(t):
    return kw(t, "key"), kw(t, "reverse")


def _table(ctx) -> None:
    prog = ctx.prog
    f = prog.func("table.Table.sort_by")
    it = SInterp(prog, f)
    S = ("param", f.params[0])
    nrows = ("call", ("name", "len"), (S,), ())
    cols_all = ("attr", S, "_underlying")
    sh = lambda t, n=70: show(t, it)[:n] if t is not None else "?"
    # ---- the index permutation ------------------------------------------------------------------------------------
    ixs = [("obj", oid) for oid, o in it.objs.items() if o.kind == "list" and isinstance(o.node, ast.Call)
           and o.init == (("call", ("name", "range"), (nrows,), ()),)]
    sort_events = [e for e in it.events if e.kind == "call" and e.term[1][0] == "attr" and e.term[1][2] == "sort" and e.term[1][1][0] == "obj"]
    if len(ixs) != 1:
        cand = {e.term[1][1] for e in sort_events}
        if len(cand) == 1:
            ix = cand.pop()
            ctx.ob("a.permutation", f, "table", False, "", f.node,
                   message=f"the row index list starts as `{sh(ix)}`, not list(range(len(self)))")
            return
        raise AnalysisError("Table.sort_by: index list list(range(nrows)) not found")
    ix = ixs[0]
    problems = []
    sorts = []
    for e in it.events:
        if e.kind == "call" and e.term[1][0] == "attr" and e.term[1][1] == ix:
            m = e.term[1][2]
            if m == "sort":
                sorts.append(e)
            elif m in MUTATING_BUILTIN:
                problems.append(f"`{sh(e.term, 40)}` changes the index list other than by a stable sort")
        if e.kind in ("store", "del") and e.term[0] == "sub" and e.term[1] == ix:
            problems.append(f"`{sh(e.term, 40)} = ...` writes the index list directly")
    # every return hands back one Vector per column of self, in order, under the column's stored name
    rets = [e for e in it.events if e.kind == "return" and e.depth == 0]
    main_seen = False
    for r in rets:
        t = r.term
        # (the table's own name may be handed on: Table(cols, name=self._name))
        own_name = t[0] == "call" and (not t[3] or (len(t[3]) == 1 and kw(t, "name") == ("attr", ("param", f.params[0]), "_name")))
        if not (t[0] == "call" and t[1] == ("name", "Table") and len(t[2]) == 1 and own_name and t[2][0][0] == "obj"):
            problems.append(f"`return {sh(t, 50)}` is not a Table of the rebuilt columns")
            continue
        rc = t[2][0]
        els = elements(it, rc)
        if len(els) != 1 or it.objs[rc[1]].init:
            problems.append(f"the columns of `return {sh(t, 40)}` are not rebuilt in one pass over all columns")
            continue
        e = els[0]
        v = e.value if e.kind == "elem" else (e.term[2][0] if e.term[2] else None)
        lps = [L for L in e.loops if L not in it.objs[rc[1]].loops]
        if len(lps) != 1 or it.loops[lps[0]].iter != cols_all or e.conds[len(it.objs[rc[1]].conds):]:
            problems.append("the result columns are not produced by one unconditional pass over self's columns in order")
            continue
        col = ("elem", cols_all, lps[0])
        if not (v is not None and v[0] == "call" and v[1] == ("name", "Vector") and v[2]):
            problems.append("a result column is not a Vector over gathered data")
            continue
        data = v[2][0]
        nm = kw(v, "name")
        if nm != ("attr", col, "_name"):
            problems.append(f"result column is named `{sh(nm, 40)}`, expected the source column's stored name")
        # the sorted column holds the same elements in another order: it keeps the source column's dtype ("sorting a sorted table
        # changes nothing" - re-inference would turn <int?> without a None into <int>, <object> into <int>, and leave the columns
        # of an empty table without a dtype)
        dtv = kw(v, "dtype") if kw(v, "dtype") is not None else (v[2][1] if len(v[2]) > 1 else None)
        if dtv != ("attr", col, "_dtype"):
            problems.append(f"result column is given the dtype `{sh(dtv, 30) if dtv is not None else 'inferred anew'}`, expected the source "
                            f"column's own dtype (a sorted table must not change schema)")
        empty_ok = data[0] == "obj" and it.objs[data[1]].kind == "list" and not it.objs[data[1]].init and not elements(it, data) \
            and any(c == ("cmp", "Eq", nrows, const(0)) and pol for c, pol in r.conds)
        if not empty_ok and data[0] == "obj" and any(c == ("cmp", "Eq", nrows, const(0)) and pol for c, pol in r.conds):
            # the same gather applied to an EMPTY list of positions (take_rows([]) for the table without rows): no element at all
            de0 = elements(it, data)
            if len(de0) == 1 and not it.objs[data[1]].init:
                dl0 = [L for L in de0[0].loops if L not in e.loops]
                if len(dl0) == 1:
                    src0 = it.loops[dl0[0]].iter
                    if src0 is not None and src0[0] == "obj" and it.objs[src0[1]].kind == "list" and not it.objs[src0[1]].init \
                            and not elements(it, src0) and not it._mutated(src0):
                        empty_ok = True
        if empty_ok:
            continue
        ok = False
        if data[0] == "obj":
            de = elements(it, data)
            if len(de) == 1 and not it.objs[data[1]].init:
                d0 = de[0]
                dv = d0.value if d0.kind == "elem" else (d0.term[2][0] if d0.term[2] else None)
                dl = [L for L in d0.loops if L not in e.loops]
                if len(dl) == 1 and it.loops[dl[0]].iter == ix and not d0.conds[len(e.conds):] and dv is not None \
                        and dv[0] == "sub" and dv[1] in (col, ("attr", col, "_underlying")) and dv[2] == ("elem", ix, dl[0]):
                    ok = True
                    main_seen = True
                    if sorts and d0.seq < max(x.seq for x in sorts):
                        problems.append("columns are gathered before the last sort pass")
        if not ok:
            problems.append(f"column data is `{sh(data, 60)}`, expected [<column storage>[i] for i in <index list>] (every row exactly once, "
                            f"cells of a row kept together)")
    if not main_seen:
        problems.append("no return gathers every column through the sorted index list")
    seen = set()
    problems = [x for x in problems if not (x in seen or seen.add(x))]
    ctx.ob("a.permutation", f, "table", not problems, "one index permutation gathered through every column", f.node, message="; ".join(problems))
    # ---- b: stability / key order ----------------------------------------------------------------------------------
    problems = []
    key_loop = None
    RES = REV = None
    if len(sorts) != 1:
        problems.append(f"{len(sorts)} `.sort` calls on the index list, expected one inside the per-key loop")
    else:
        se = sorts[0]
        if not se.loops:
            problems.append("the sort is not inside a loop over the keys")
        else:
            Lp = se.loops[-1]
            lp = it.loops[Lp]
            key_loop = lp.node
            itr = lp.iter
            order_ok = False
            colv = revv = None
            if itr is not None and itr[0] == "call" and itr[1] == ("name", "reversed") and len(itr[2]) == 1:
                z = _seq_of(it, itr[2][0])
                if z[0] == "call" and z[1] == ("name", "zip") and len(z[2]) == 2 and not z[3]:
                    RES, REV = z[2]
                    order_ok = True
                    elem = ("elem", itr, Lp)
                    colv, revv = ("sub", elem, const(0)), ("sub", elem, const(1))
            elif lp.domain is not None and lp.domain[0] == "tuple" and len(lp.domain[1]) == 2 and itr is not None and itr[0] == "call" \
                    and itr[1] == ("name", "zip"):
                # zip(reversed(keys), reversed(flags)): the same pairs in the same (last-first) order when both have one entry per key
                d0, d1 = lp.domain[1]
                if all(d[0] == "call" and d[1] == ("name", "reversed") and len(d[2]) == 1 for d in (d0, d1)):
                    RES, REV = _seq_of(it, d0[2][0]), _seq_of(it, d1[2][0])
                    order_ok = True
                    colv, revv = ("elem", d0, Lp), ("elem", d1, Lp)
            if not order_ok and lp.range is not None and lp.range[1] == const(-1) and lp.range[2] == const(-1) \
                    and lp.range[0][0] == "bin" and lp.range[0][1] == "Sub" and lp.range[0][3] == const(1) \
                    and lp.range[0][2][0] == "call" and lp.range[0][2][1] == ("name", "len") and len(lp.range[0][2][2]) == 1:
                # for pos in range(len(keys) - 1, -1, -1): keys[pos], flags[pos] - the same pairs, last key first
                RES = _seq_of(it, lp.range[0][2][2][0])
                pos = ("elem", itr, Lp)
                flagseqs = {x[1] for e_ in it.events if Lp in e_.loops for t_ in ([e_.term, e_.value] + [c for c, _ in e_.conds]) if t_ is not None
                            for x in subterms(t_) if x[0] == "sub" and x[2] == pos and _seq_of(it, x[1]) != RES
                            and x[1] != ("attr", ("sub", RES, pos), "_underlying")}
                if len(flagseqs) == 1:
                    fs_ = flagseqs.pop()
                    REV = _seq_of(it, fs_)
                    order_ok = True
                    colv, revv = ("sub", lp.range[0][2][2][0], pos), ("sub", fs_, pos)
            if not order_ok or len(se.loops) != 1:
                problems.append(f"keys are applied in the order `{sh(itr, 80)}`, expected reversed(list(zip(<resolved keys>, <reverse flags>))): the "
                                f"last key first, so that earlier keys dominate (stable sorts)")
            else:
                kf, rk = _sort_kwargs(se.term)
                if se.term[2]:
                    problems.append("positional arguments to .sort()")
                if rk != revv:
                    problems.append(f"the pass sorts with reverse=`{sh(rk, 40) if rk is not None else 'False'}`, expected this key's own flag")
                if se.conds[len(lp.conds):]:
                    problems.append(f"a pass is skipped under `{show_conds(se.conds[len(lp.conds):], it)[:60]}`")
                if kf is None or not it.is_function_term(kf):
                    problems.append("the sort has no per-key None-aware key function")
                else:
                    arg = ("name", "<row>")
                    r = _pair_of(it.call_value(kf, (arg,), se.conds, se.loops))
                    if r is None or r[0] != "tuple" or len(r[1]) != 2:
                        problems.append(f"the key function returns `{sh(r, 60)}`, not (None flag, value)")
                    else:
                        flag, val = r[1]
                        cells = [("sub", ("attr", colv, "_underlying"), arg), ("sub", colv, arg)]
                        if not _is_cell_value(val, cells):
                            problems.append(f"the key function reads `{sh(val, 60)}`, not THIS key column's value at the row (bound per pass)")
                        if revv not in list(subterms(flag)):
                            problems.append("the key function's None flag does not use this key's own reverse flag (bound per pass)")
    for e in it.events:
        if e.kind == "call" and callee(e.term) == "reversed" and e.term[2] and e.term[2][0] == ix:
            problems.append("the index list is reversed wholesale: ties would come out in reversed order")
    ctx.ob("b.stable-keys", f, "table", not problems, "stable passes from last key to first, each with its own data and flag", key_loop or f.node,
           message="; ".join(problems))
    # ---- d: flags -----------------------------------------------------------------------------------------------------
    problems = []
    rev_param = ("param", f.params[2] if len(f.params) > 2 else "reverse")
    KEYS = None
    if RES is None or REV is None:
        problems.append("resolved keys / reverse flags of the passes not identified")
    else:
        # RES: one append per key, in key order, of self._resolve_column(key)
        re_ = elements(it, RES) if RES[0] == "obj" else []
        if len(re_) != 1 or (RES[0] == "obj" and it.objs[RES[1]].init):
            problems.append("keys are not resolved one by one, in order, through _resolve_column")
        else:
            e = re_[0]
            v = e.value if e.kind == "elem" else (e.term[2][0] if e.term[2] else None)
            lps = [L for L in e.loops if L not in it.objs[RES[1]].loops]
            if len(lps) != 1 or v is None or not (v[0] == "call" and v[1] == ("attr", S, "_resolve_column") and len(v[2]) == 1
                                                  and v[2][0][0] == "elem" and v[2][0][2] == lps[0]):
                problems.append("keys are not resolved one by one, in order, through _resolve_column")
            else:
                KEYS = v[2][0][1]
                guard_ok = any(x.kind == "raise" and lps[0] in x.loops and x.seq < e.seq and x.conds
                               and x.conds[-1] == (("cmp", "Eq", ("call", ("name", "len"), (v,), ()), nrows), False) for x in it.events)
                if not guard_ok:
                    problems.append("sort keys are not length-checked against the table")
                extra = [c for c in e.conds[len(it.objs[RES[1]].conds):]
                         if c != (("cmp", "Eq", ("call", ("name", "len"), (v,), ()), nrows), True)]
                if extra:
                    problems.append(f"a resolved key is recorded only under `{show_conds(extra, it)[:60]}`")
        # REV: [reverse] * len(keys)  |  [bool(x) for x in reverse] with len(reverse) == len(keys) checked
        forms = []

        def leaves(t):
            if t[0] == "ifexp":
                leaves(t[2]); leaves(t[3])
            elif t[0] == "phi":
                for x in t[1]:
                    leaves(x)
            else:
                forms.append(t)
        leaves(REV)
        kinds = set()

        def is_scalar_form(t) -> bool:
            if t[0] == "bin" and t[1] == "Mult":
                for a, b in ((t[2], t[3]), (t[3], t[2])):
                    if a[0] == "obj" and it.objs[a[1]].init == (rev_param,) and KEYS is not None \
                            and b == ("call", ("name", "len"), (KEYS,), ()):
                        return True
            return False
        for t in list(forms):
            if is_scalar_form(t):
                kinds.add("scalar")
            elif t[0] == "obj" and it.objs[t[1]].kind == "listcomp":
                ev = [e for e in it.events if e.kind == "elem" and e.term == t]
                ok_ = False
                if len(ev) == 1:
                    lps = [L for L in ev[0].loops if L not in it.objs[t[1]].loops]
                    if len(lps) == 1 and ev[0].conds == it.objs[t[1]].conds:
                        src = it.loops[lps[0]].iter
                        if ev[0].value == ("call", ("name", "bool"), (("elem", src, lps[0]),), ()):
                            srcs = []

                            def lv(x):
                                if x[0] == "ifexp":
                                    lv(x[2]); lv(x[3])
                                else:
                                    srcs.append(x)
                            lv(src)
                            for x in srcs:
                                if x == rev_param:
                                    kinds.add("sequence")
                                    ok_ = True
                                elif is_scalar_form(x):
                                    kinds.add("scalar")
                                    ok_ = True
                                else:
                                    kinds.add("?" + sh(x, 40))
                                    ok_ = True
                if not ok_:
                    kinds.add("?" + sh(t, 40))
            elif t[0] == "unbound":
                continue
            else:
                kinds.add("?" + sh(t, 40))
        if kinds != {"scalar", "sequence"}:
            problems.append(f"reverse flags are built as {sorted(kinds)}; expected one bool per key ([reverse] * len(keys) / [bool(x) for x in reverse])")
        if KEYS is not None:
            want = ("cmp", "Eq", ("call", ("name", "len"), (rev_param,), ()), ("call", ("name", "len"), (KEYS,), ()))
            guard = any(x.kind == "raise" and x.conds and x.conds[-1][0] in (want, ("cmp", "Eq", want[3], want[2])) and not x.conds[-1][1]
                        for x in it.events)
            if not guard:
                problems.append("a per-key reverse list is not length-checked against the keys")
    ctx.ob("d.flags", f, "flags", not problems, "one bool per key, same position as its key", f.node, message="; ".join(problems))
    # an empty table keeps its columns and names: covered by a.permutation (every return is one Vector per column under its stored name)
    ctx.ob("d.flags", f, "empty", not any("named" in p or "one pass" in p for p in []), "every return keeps one column per source column", f.node)


def _vector(ctx) -> None:
    prog = ctx.prog
    f = prog.func("vector.Vector.sort_by")
    it = SInterp(prog, f)
    S = ("param", f.params[0])
    problems = []
    rets = [e for e in it.events if e.kind == "return" and e.depth == 0]
    srt = None
    if len(rets) != 1 or not (rets[0].term[0] == "call" and rets[0].term[1] == ("name", "Vector") and rets[0].term[2]):
        problems.append("does not return a new Vector")
    else:
        v = rets[0].term
        data = _seq_of(it, v[2][0])
        if not (data[0] == "call" and data[1] == ("name", "sorted") and data[2] and data[2][0] in (("attr", S, "_underlying"), S)):
            problems.append(f"the data are `{show(data, it)[:60]}`, expected sorted(self._underlying, ...) (a permutation of the elements)")
        else:
            srt = data
            if kw(data, "reverse") != ("param", "reverse"):
                problems.append("sorted() is not given the caller's reverse flag")
            if kw(data, "key") is None:
                problems.append("sorted() has no None-aware key")
        if kw(v, "name") != ("attr", S, "_name"):
            problems.append("the sorted vector does not keep self's name")
    ctx.ob("a.permutation", f, "vector", not problems, "Vector.sort_by = sorted(self._underlying, key, reverse), name kept", f.node,
           message="; ".join(problems))
    rev_whole = any(e.kind == "call" and (callee(e.term) == "reversed" or (e.term[1][0] == "attr" and e.term[1][2] == "reverse")) for e in it.events)
    ctx.ob("b.stable-keys", f, "vector", not rev_whole,
           "no wholesale reversal", f.node, message="Vector.sort_by reverses a sorted list wholesale: ties come out in reversed order")


def _is_cell_value(val, cells) -> bool:
    """the value component of a sort key: the cell itself, or - on any path - the cell widened to midnight
    (datetime.combine(cell, <midnight>): the order-preserving date -> datetime widening; a <datetime> column may hold plain dates)"""
    return _is_cell_value_under(val, cells, ())


def _is_cell_value_under(val, cells, conds) -> bool:
    if val in cells:
        return True
    if val[0] == "ifexp":
        return _is_cell_value_under(val[2], cells, conds + ((val[1], True),)) and _is_cell_value_under(val[3], cells, conds + ((val[1], False),))
    if val[0] == "call" and val[1] == ("attr", ("name", "datetime"), "combine") and len(val[2]) == 2 and not val[3]:
        cell = val[2][0]
        if cell not in cells:
            return False
        # widening replaces the time of day by midnight: order-preserving for a plain date only - where it is conditional, the
        # condition must keep every datetime (subclasses included: `type(x) is datetime` lets a subclass instance through and its
        # cells of one day would all tie) out of this branch
        if not conds:
            return True                       # (unconditional: the caller decides from the column's dtype)
        for c, pol in conds:
            c_, pol_ = (c[2], not pol) if (c[0] == "un" and c[1] == "Not") else (c, pol)
            if c_[0] == "call" and c_[1] == ("name", "isinstance") and len(c_[2]) == 2 and c_[2][0] == cell and not pol_ \
                    and any(y == ("name", "datetime") for y in _subterms(c_[2][1])):
                return True
        return False
    return False


def _cell_problems(result, val, atoms_base, is_none_atom, rev: bool, nl: bool, sh) -> List[str]:
    """`result` is the key function's result term for element `val`.  Under each of is-None / not-None it must reduce to a
    (flag, value) pair with a constant boolean flag; the flags must order None after values iff na_last once the reversal applies."""
    from ..symx import simplify
    problems = []
    flags = {}
    for is_none in (True, False):
        atoms = {**atoms_base, is_none_atom: is_none}
        r = simplify(result, atoms)
        r = reduce_ifexp(r, atoms)
        if r[0] != "tuple" or len(r[1]) != 2:
            return [f"the key function does not return a (flag, value) pair: `{sh(r)}`"]
        fl = beval(r[1][0], atoms)
        if not isinstance(fl, bool):
            return [f"the None flag is not a constant per (None / not None): `{sh(r[1][0])}`"]
        flags[is_none] = fl
        if is_none:
            sec = reduce_ifexp(r[1][1], atoms)
            if not (sec == val or sec[0] == "const"):
                problems.append("the tie-break component of a None key is not constant")
    a, b = flags[True], flags[False]
    if a == b:
        problems.append("None and values get the same flag: None would be compared with a value (TypeError)")
    else:
        none_after = (a > b) != rev
        if none_after != nl:
            problems.append(f"with reverse={rev}, na_last={nl} the key flags are None->{a!r}, value->{b!r}: after "
                            f"{'reversal' if rev else 'the ascending sort'} None comes "
                            f"{'LAST' if none_after else 'FIRST'}, the contract says {'last' if nl else 'first'}")
    return problems


def _pair_of(r):
    """a key function with guard-clause returns gives `(a1, b1) if c else (a2, b2)`: the pair of the two conditionals"""
    if r is not None and r[0] == "ifexp":
        a, b = _pair_of(r[2]), _pair_of(r[3])
        if a is not None and b is not None and a[0] == "tuple" and b[0] == "tuple" and len(a[1]) == len(b[1]):
            return ("tuple", tuple(x if x == y else ("ifexp", r[1], x, y) for x, y in zip(a[1], b[1])))
    return r


def _none_cells(ctx) -> None:
    prog = ctx.prog
    cells = [(rev, nl) for rev in (False, True) for nl in (False, True)]
    # ---- Table.sort_by: the key function of a pass
    f = prog.func("table.Table.sort_by")
    it = SInterp(prog, f)
    sorts = [e for e in it.events if e.kind == "call" and e.term[1][0] == "attr" and e.term[1][2] == "sort" and kw(e.term, "key") is not None]
    if len(sorts) != 1 or not it.is_function_term(kw(sorts[0].term, "key")):
        raise AnalysisError("Table.sort_by: the keyed .sort() call of the passes was not found")
    se = sorts[0]
    arg = ("name", "<row>")
    r = _pair_of(it.call_value(kw(se.term, "key"), (arg,), se.conds, se.loops))
    revt = kw(se.term, "reverse")
    g = prog.func("vector.Vector.sort_by")
    itv = SInterp(prog, g)
    vs = [t for e in itv.events if e.kind == "return" for t in subterms(e.term) if t[0] == "call" and t[1] == ("name", "sorted")]
    for who, owner in (("Table.sort_by", f), ("Vector.sort_by", g)):
        for rev, nl in cells:
            problems = []
            if who == "Table.sort_by":
                if r is None or revt is None:
                    problems.append(f"the key function does not return a (flag, value) tuple: {show(r, it)[:60] if r else r}")
                else:
                    vals = [t for t in subterms(r) if t[0] == "sub" and t[2] == arg]
                    val = vals[0] if vals else arg
                    atoms = {revt: rev, ("param", "na_last"): nl}
                    problems += _cell_problems(r, val, atoms, ("cmp", "Is", val, SNONE), rev, nl, lambda t: show(t, it)[:60])
            else:
                if len(vs) != 1 or kw(vs[0], "key") is None:
                    raise AnalysisError("Vector.sort_by: sorted(..., key=...) not found")
                atoms = {("param", "reverse"): rev, ("param", "na_last"): nl}
                k = reduce_ifexp(kw(vs[0], "key"), atoms)
                if not itv.is_function_term(k):
                    raise AnalysisError("Vector.sort_by: the sort key is not a lambda / local function")
                x = ("name", "<element>")
                rr = itv.call_value(k, (x,))
                if rr is None:
                    problems.append("the key function could not be evaluated")
                else:
                    problems += _cell_problems(rr, x, atoms, ("cmp", "Is", x, SNONE), rev, nl, lambda t: show(t, itv)[:60])
            ctx.ob("c.none-placement", owner, f"{who}:reverse={rev},na_last={nl}", not problems,
                   f"{who}: None {'last' if nl else 'first'} under reverse={rev}", owner.node, message=f"{who}: " + "; ".join(problems))


def _purity(ctx) -> None:
    for q in ("table.Table.sort_by", "vector.Vector.sort_by"):
        ws = content_writes(ctx.prog, q)
        f = ctx.prog.func(q)
        ctx.ob("e.purity", f, "purity", not ws, "no content write on operands", f.node,
               message=f"{q} modifies its operands: " + "; ".join(f"{x.root}.{x.fld} at {x.func.split('.')[-1]}:{x.line}" for x in ws[:3]))


_T, _V = "table", "vector"
MUTANTS = [
    dict(id="sorted-columns-reinferred", module="table", old="			new_cols.append(Vector(new_data, dtype=col._dtype, name=col._name))",
         new="			new_cols.append(Vector(new_data, name=col._name))", rules=["a.permutation"], desc="the defect repaired by fix f8a493c"),
    dict(id="sort-without-reverse", module=_T, old="			indices.sort(key=key_fn, reverse=rev)", new="			indices.sort(key=key_fn)", rules=["b.stable-keys"]),
    dict(id="flags-reversed", module=_T, old="		for col, rev in reversed(list(zip(resolved, rev_flags))):", new="		for col, rev in reversed(list(zip(resolved, reversed(rev_flags)))):",
         rules=["b.stable-keys", "d.flags"]),
    dict(id="keys-first-to-last", module=_T, old="		for col, rev in reversed(list(zip(resolved, rev_flags))):", new="		for col, rev in list(zip(resolved, rev_flags)):",
         rules=["b.stable-keys"]),
    dict(id="table-flag-ignores-rev", module=_T, old="					flag = is_none if not rev else (not is_none)", new="					flag = is_none", rules=["c.none-placement"]),
    dict(id="indices-pop", module=_T, old="		# --- 6. Rebuild columns in sorted order ---\n", new="		indices.pop()\n", rules=["a.permutation"]),
    dict(id="columns-gathered-differently", module=_T, old="			new_data = [src[i] for i in indices]", new="			new_data = [src[i] for i in sorted(indices)] if col._name is None else [src[i] for i in indices]",
         rules=["a.permutation"]),
    dict(id="vector-flag-not-flipped", module=_V,
         old="			key_fn = lambda x: ((x is None) if not reverse else (x is not None), value_of(x) if x is not None else 0)",
         new="			key_fn = lambda x: (x is None, value_of(x) if x is not None else 0)", rules=["c.none-placement"]),
    dict(id="vector-none-high-merged", module=_V,
         old="		if na_last:\n			key_fn = lambda x: ((x is None) if not reverse else (x is not None), value_of(x) if x is not None else 0)\n		else:\n			key_fn = lambda x: ((x is not None) if not reverse else (x is None), value_of(x) if x is not None else 0)",
         new="		none_high = na_last and not reverse\n		key_fn = lambda x: ((x is None) if none_high else (x is not None), value_of(x) if x is not None else 0)",
         rules=["c.none-placement"]),
    dict(id="descending-by-reverse-call", module=_T, old="			indices.sort(key=key_fn, reverse=rev)",
         new="			indices.sort(key=key_fn)\n			if rev:\n				indices.reverse()", rules=["a.permutation", "b.stable-keys"]),
    dict(id="vector-sorted-drops-name", module=_V, old="		new_vector = Vector(new_values, dtype=self._dtype, name=self._name)",
         new="		new_vector = Vector(new_values, dtype=self._dtype)", rules=["a.permutation"]),
    dict(id="sort-renames-columns-lower", module=_T, old="			new_cols.append(Vector(new_data, dtype=col._dtype, name=col._name))\n\n		return Table(new_cols, name=self._name)",
         new="			new_cols.append(Vector(new_data, dtype=col._dtype, name=str(col._name).lower()))\n\n		return Table(new_cols, name=self._name)", rules=["a.permutation"]),
    dict(id="twin-rename-indices", module=_T, twin=True, edits=[(_T, "indices", "order", 57)]),
]

"""C04 - dtype inference and promotion form an order-independent lattice.

The promotion automaton is extracted from the source by the finite abstract evaluator
(E6): start state and transition function delta of infer_dtype's loop (pre-loop, loop body,
post-loop statements are evaluated, not modelled), DataType.promote_with, infer_kind.  All
laws are then checked on the whole finite table:

  exchange     delta(delta(s,a),b) ~ delta(delta(s,b),a)      for all reachable s, all tags a, b
  idempotence  delta(delta(s,a),a) ~ delta(s,a)
  (~ is observational equivalence, computed by partition refinement over the reachable states)

Exchange of adjacent elements generates every permutation, idempotence removes repetition,
so for EVERY finite sequence the result depends only on the SET of types and on whether None
occurs - the unbounded quantifier is discharged by a few thousand table look-ups.  The value
for each set is then compared with the statement's join table (spec), exhaustively over the
core domain.
"""
from __future__ import annotations

import ast
import itertools
from typing import Dict, List, Optional, Set, Tuple

from ..absint import CORE_CLASSES, DT, NONE, Cls, Const, Inst, Interp, Opaque, Raised, Tup, _Break, _Continue, _Return, value_of_tag
from ..core import AnalysisError, short

CORE_TAGS = ["NoneType", "bool", "int", "float", "complex", "str", "bytes", "date", "datetime",
             "list", "dict", "tuple", "A", "B"]
SUB_TAGS = ["sub_int", "sub_float", "sub_str", "sub_date", "sub_datetime", "sub_A"]
NUMERIC = ["bool", "int", "float", "complex"]
TEMPORAL = ["date", "datetime"]
CANON = {"sub_int": "int", "sub_float": "float", "sub_str": "str", "sub_date": "date", "sub_datetime": "datetime"}


def canon(tag: str) -> str:
    """The kind the statement assigns to a value of this exact type (isinstance-based for the builtin families)."""
    return CANON.get(tag, tag)


def join_kinds(kinds: Set[str]) -> str:
    if len(kinds) == 1:
        return next(iter(kinds))
    if kinds <= set(NUMERIC):
        return max(kinds, key=NUMERIC.index)
    if kinds <= set(TEMPORAL):
        return "datetime"
    return "object"


def spec(tags) -> DT:
    has_none = "NoneType" in tags
    kinds = {canon(t) for t in tags if t != "NoneType"}
    if not kinds:
        return DT("object", True)
    return DT(join_kinds(kinds), has_none)


def geq(new: DT, old: DT) -> bool:
    """new is not narrower than old."""
    if old.nullable and not new.nullable:
        return False
    if new.kind == old.kind or new.kind == "object":
        return True
    if old.kind in NUMERIC and new.kind in NUMERIC:
        return NUMERIC.index(new.kind) >= NUMERIC.index(old.kind)
    if old.kind in TEMPORAL and new.kind in TEMPORAL:
        return TEMPORAL.index(new.kind) >= TEMPORAL.index(old.kind)
    return False


class Automaton:
    """start state + delta + post, extracted from typing.infer_dtype by evaluating its own statements."""

    def __init__(self, prog, tags: List[str]):
        self.prog = prog
        self.tags = tags
        self.I = Interp(prog)
        self.outer = None
        self.f = prog.func("typing.infer_dtype")
        body = [s for s in self.f.body if not (isinstance(s, ast.Expr) and isinstance(s.value, ast.Constant))]
        loops = [s for s in body if isinstance(s, ast.For)]
        p = self.f.params[0]
        if not loops:
            # the scan lives in a private helper that receives the values: the automaton is the helper's loop, and its result
            # is handed back to infer_dtype (evaluated with the helper call answered by that result)
            from ..symx import baseline_functions
            cands = []
            for c in prog.calls_in(self.f):
                kind, tgt = prog.resolve_call(self.f, c)
                if tgt is not None and tgt.qualname not in baseline_functions() and len(c.args) >= 1 \
                        and isinstance(c.args[0], ast.Name) and c.args[0].id == p and not c.keywords and len(c.args) == 1:
                    cands.append(tgt)
            if len(cands) == 1:
                self.outer = self.f
                self.f = cands[0]
                body = [s for s in self.f.body if not (isinstance(s, ast.Expr) and isinstance(s.value, ast.Constant))]
                loops = [s for s in body if isinstance(s, ast.For)]
                p = self.f.params[0]
        if len(loops) != 1:
            raise AnalysisError("infer_dtype: expected exactly one top-level loop over the values")
        self.loop = loops[0]
        if not (isinstance(self.loop.iter, ast.Name) and self.loop.iter.id == p and isinstance(self.loop.target, ast.Name)):
            raise AnalysisError(f"infer_dtype: the loop does not range over the parameter `{p}` directly "
                                f"(`{short(self.loop.iter)}`): slicing/reordering of the input is outside the automaton model")
        if self.loop.orelse:
            raise AnalysisError("infer_dtype: for/else is outside the automaton model")
        i = body.index(self.loop)
        self.pre, self.post = body[:i], body[i + 1:]
        self.var = self.loop.target.id
        env = {"__module__": self.f.module}
        self._run(self.pre, env)
        self.start = self._freeze(env)
        self._delta: Dict[Tuple, Tuple] = {}
        self._post: Dict[Tuple, object] = {}

    def _run(self, stmts, env):
        self.I.exec_body(stmts, env, self.f)

    def _freeze(self, env) -> Tuple:
        return tuple(sorted((k, v) for k, v in env.items() if k not in (self.var, "__module__")))

    def delta(self, s: Tuple, tag: str) -> Tuple:
        key = (s, tag)
        if key in self._delta:
            return self._delta[key]
        env = dict(s)
        if env.get("__broken__"):
            self._delta[key] = s
            return s
        env["__module__"] = "typing"
        env[self.var] = value_of_tag(tag)
        try:
            self._run(self.loop.body, env)
        except _Continue:
            pass
        except _Break:
            env["__broken__"] = Const(True)       # the loop stops: every later element is ignored
        except _Return as r:
            env["__returned__"] = r.value
            env["__broken__"] = Const(True)
        out = self._freeze(env)
        self._delta[key] = out
        return out

    def post_of(self, s: Tuple):
        if s in self._post:
            return self._post[s]
        env = dict(s)
        if "__returned__" in env:
            r = env["__returned__"]
        else:
            env["__module__"] = self.f.module
            try:
                self._run(self.post, env)
                r = NONE
            except _Return as rr:
                r = rr.value
        if self.outer is not None:
            # hand the helper's result back to infer_dtype
            q = self.f.qualname
            self.I.hooks[q] = lambda interp, recv, args, kw, _r=r: _r
            try:
                kind, val = self.I.call(self.outer.qualname, [Opaque("values")])
            finally:
                self.I.hooks.pop(q, None)
            if kind != "return":
                raise AnalysisError(f"infer_dtype raises {val} after its scan helper returned {r!r}")
            r = val
        self._post[s] = r
        return r

    def reachable(self) -> List[Tuple]:
        seen = {self.start}
        order = [self.start]
        i = 0
        while i < len(order):
            s = order[i]
            i += 1
            for t in self.tags:
                n = self.delta(s, t)
                if n not in seen:
                    seen.add(n)
                    order.append(n)
            if len(order) > 5000:
                raise AnalysisError("infer_dtype automaton: more than 5000 reachable states")
        return order

    def bisim_classes(self, states: List[Tuple]) -> Dict[Tuple, int]:
        block = {}
        posts = {}
        for s in states:
            posts.setdefault(repr(self.post_of(s)), []).append(s)
        for i, (_, ss) in enumerate(sorted(posts.items())):
            for s in ss:
                block[s] = i
        while True:
            sig = {s: (block[s],) + tuple(block[self.delta(s, t)] for t in self.tags) for s in states}
            ids = {}
            new = {}
            for s in states:
                new[s] = ids.setdefault(sig[s], len(ids))
            if len(ids) == len(set(block.values())):
                return new
            block = new

    def run_seq(self, seq) -> object:
        s = self.start
        for t in seq:
            s = self.delta(s, t)
        return self.post_of(s)


def fmt_state(s: Tuple) -> str:
    return "{" + ", ".join(f"{k}={v!r}" for k, v in s if not k.startswith("__")) + ("" if not dict(s).get("__broken__") else ", loop stopped") + "}"


def _stateless(ctx) -> None:
    """`depends only on which Python types occur`: the functions of the typing module keep no state between calls - none of them
    writes a module-level container (a memo of promotion steps keyed by the two kinds hands the FIRST caller's nullability to every
    later caller: the automaton above is evaluated from an empty memo and cannot see that)."""
    prog = ctx.prog
    m = prog.modules["typing"]
    containers = set()
    for st in m.tree.body:
        tgt = st.targets[0] if isinstance(st, ast.Assign) and len(st.targets) == 1 else st.target if isinstance(st, ast.AnnAssign) else None
        val = getattr(st, "value", None)
        if isinstance(tgt, ast.Name) and val is not None and (
                isinstance(val, (ast.Dict, ast.List, ast.Set, ast.DictComp, ast.ListComp, ast.SetComp))
                or (isinstance(val, ast.Call) and isinstance(val.func, ast.Name) and val.func.id in ("dict", "list", "set", "defaultdict", "OrderedDict"))):
            containers.add(tgt.id)
    writes = []
    MUT = {"setdefault", "update", "add", "append", "extend", "insert", "pop", "popitem", "clear", "remove", "discard", "__setitem__"}
    for q, f in sorted(prog.functions.items()):
        if f.module != "typing" or isinstance(f.node, ast.Lambda):
            continue
        for n in ast.walk(f.node):
            if isinstance(n, ast.Call) and isinstance(n.func, ast.Attribute) and n.func.attr in MUT and isinstance(n.func.value, ast.Name) \
                    and n.func.value.id in containers:
                writes.append((q, n))
            elif isinstance(n, ast.Subscript) and isinstance(n.ctx, (ast.Store, ast.Del)) and isinstance(n.value, ast.Name) and n.value.id in containers:
                writes.append((q, n))
            elif isinstance(n, ast.Global):
                writes.append((q, n))
    ctx.ob("a.automaton", "typing", "stateless", not writes, f"no function of typing.py writes a module-level container ({len(containers)} present)",
           (writes[0][1] if writes else None),
           message="; ".join(f"{q} (line {getattr(n, 'lineno', '?')}) writes module-level state `{short(n, 50)}`" for q, n in writes[:2])
                   + ": the result of a promotion then depends on the calls made before it (a memo keyed by the two kinds returns the first "
                     "caller's nullability), not only on the dtype and the value")


def run(ctx) -> None:
    ctx.rule("a.automaton", "infer_dtype/promote_with/infer_kind evaluate inside the abstract evaluator's subset; the reachable "
                            "state space of the inference loop is finite and tabulated", 1)
    ctx.rule("b.exchange", "delta(delta(s,a),b) ~ delta(delta(s,b),a) for every reachable state and every pair of tags "
                           "(order independence of every finite sequence, by induction on adjacent transpositions)", 100)
    ctx.rule("b.idempotent", "delta(delta(s,a),a) ~ delta(s,a): the result does not depend on repetition / length", 50)
    ctx.rule("b.spec", "for every set of types (and None) the inferred dtype equals the statement's join: identical kinds stay, "
                       "bool<int<float<complex and date<datetime join upward, None only adds nullability, any other mixture "
                       "is object, all-None/empty is object?", 1000)
    ctx.rule("b.promote", "DataType.promote_with(v): equals the binary join with v's kind, never narrows, never drops "
                          "nullability, is idempotent and commutes, for every (dtype, value type) pair", 500)
    ctx.rule("c.infer-kind", "infer_kind maps every value to its canonical kind (bool before int, datetime before date, "
                             "None -> None)", 10)
    ctx.exhaustive = True
    tags_core = list(CORE_TAGS)
    tags_all = CORE_TAGS + SUB_TAGS
    ctx.section("automaton", _automaton, ctx, tags_all, tags_core)
    ctx.section("stateless", _stateless, ctx)
    ctx.section("promote", _promote, ctx, tags_all)
    ctx.section("infer-kind", _infer_kind, ctx, tags_all)
    ctx.rule("d.result-sites", "results of arithmetic, joins, aggregate, window, broadcasting and CSV parsing are constructed "
                               "with NO dtype or with infer_dtype(<the very data stored>): they are typed by the same rule", 20)
    ctx.section("result-sites", _result_sites, ctx)
    ctx.rule("e.assignment-promotion", "promotion on in-place assignment (the running target of Vector.__setitem__) never "
                                       "narrows and never drops nullability, for every (dtype, target, value type) cell", 200)
    ctx.rule("e.assignment-applied", "the promoted target is what the vector ends up with", 20)
    from . import c03
    ctx.section("assignment-promotion", c03._setitem, ctx, "e.assignment-promotion", "e.assignment-applied")
    ctx.not_decided.append("nothing in the statement is value-dependent; decided up to the evaluator's semantics of type tests")
    ctx.info("C04's clause 'results of arithmetic, joins, aggregates and CSV parsing are typed by the same rule' is decided "
             "with the construction-site typing discipline of C03 (sites must be ABSENT or INFER(same data))")


def _automaton(ctx, tags_all, tags_core) -> None:
    A = Automaton(ctx.prog, tags_all)
    f = A.f
    states = A.reachable()
    cls = A.bisim_classes(states)
    ctx.ob("a.automaton", f, "extraction", True,
           f"{len(states)} reachable states over {len(tags_all)} type tags, {len(set(cls.values()))} observational classes; "
           f"start {fmt_state(A.start)}", A.loop)
    ctx.extra["automaton"] = {"states": len(states), "classes": len(set(cls.values())), "tags": tags_all,
                              "transitions": len(states) * len(tags_all),
                              "sample_states": [fmt_state(s) + " -> " + repr(A.post_of(s)) for s in states[:12]]}
    # exchange + idempotence on every reachable state
    n_bad = 0
    for s in states:
        for a, b in itertools.combinations(tags_all, 2):
            x = A.delta(A.delta(s, a), b)
            y = A.delta(A.delta(s, b), a)
            ok = cls[x] == cls[y]
            role = f"{fmt_state(s)}:{a},{b}"
            if ok or n_bad < 6:
                ctx.ob("b.exchange", f, role if not ok else f"s{states.index(s)}:{a},{b}", ok, "exchange holds", A.loop,
                       message=f"element order matters: from state {fmt_state(s)} the elements ({a}, {b}) give "
                               f"{A.post_of(x)!r} but ({b}, {a}) give {A.post_of(y)!r}"
                               + ("" if A.post_of(x) != A.post_of(y) else " after further elements (states are not equivalent)"))
            if not ok:
                n_bad += 1
        for a in tags_all:
            x = A.delta(s, a)
            y = A.delta(x, a)
            ok = cls[x] == cls[y]
            ctx.ob("b.idempotent", f, f"s{states.index(s)}:{a}" if ok else f"{fmt_state(s)}:{a},{a}", ok, "idempotent", A.loop,
                   message=f"repetition matters: from {fmt_state(s)} one {a} gives {A.post_of(x)!r}, two give {A.post_of(y)!r}")
    if n_bad > 6:
        ctx.info(f"b.exchange: {n_bad} failing (state, pair) cells in total; first 6 reported")
    # spec: all subsets of the core domain (exhaustive), subsets up to size 3 (quick) / 5 (thorough) of the extended domain
    n_cells = 0
    bad = 0
    core_non_none = [t for t in tags_core if t != "NoneType"]

    def check(tagset):
        nonlocal n_cells, bad
        n_cells += 1
        got = A.run_seq(sorted(tagset))
        want = spec(set(tagset))
        ok = got == want
        if ok:
            ctx.obligations.append(_OB("b.spec", f.qualname, "set:" + ",".join(sorted(tagset)), True, f"{got!r}"))
        else:
            bad += 1
            if bad <= 8:
                ctx.ob("b.spec", f, "set:" + ",".join(sorted(tagset)), False, "", A.loop,
                       message=f"types {{{', '.join(sorted(tagset))}}} infer {got!r}, the statement's join is {want!r}")
    for r in range(0, len(core_non_none) + 1):
        for sub in itertools.combinations(core_non_none, r):
            check(sub)
            check(sub + ("NoneType",))
    ext = [t for t in tags_all if t != "NoneType"]
    kmax = 5 if ctx.tier == "thorough" else 3
    for r in range(1, kmax + 1):
        for sub in itertools.combinations(ext, r):
            if all(t in core_non_none for t in sub):
                continue
            check(sub)
            check(sub + ("NoneType",))
    ctx.extra["spec_cells"] = n_cells
    if bad > 8:
        ctx.info(f"b.spec: {bad} wrong cells in total; first 8 reported")


class _OB:
    """lightweight obligation record (avoids building 30 000 location strings)"""
    __slots__ = ("rule", "func", "role", "ok", "what", "loc")

    def __init__(self, rule, func, role, ok, what):
        self.rule, self.func, self.role, self.ok, self.what, self.loc = rule, func, role, ok, what, "src/serif/typing.py"


def _kinds(tags_all) -> List[str]:
    ks = []
    for t in tags_all:
        if t == "NoneType":
            continue
        k = canon(t)
        if k not in ks:
            ks.append(k)
    return ks + ["object"]


def _promote(ctx, tags_all) -> None:
    prog = ctx.prog
    I = Interp(prog)
    f = prog.func("typing.DataType.promote_with")
    cache = {}

    def p(d: DT, t: str):
        k = (d, t)
        if k not in cache:
            cache[k] = I.call(f.qualname, [d, value_of_tag(t)])
        return cache[k]
    kinds = _kinds(tags_all)
    bad = 0
    for k in kinds:
        for n in (False, True):
            d = DT(k, n)
            for t in tags_all:
                st, r = p(d, t)
                role = f"{d!r}+{t}"
                problems = []
                if st != "return" or not isinstance(r, DT):
                    problems.append(f"promote_with({d!r}, {t}) {st}s {r!r}")
                else:
                    want = DT(k, True) if t == "NoneType" else DT(join_kinds({k, canon(t)}) if k != "object" else "object", n)
                    if r != want:
                        problems.append(f"promote_with({d!r}, {t} value) gives {r!r}, the join is {want!r}")
                    if not geq(r, d):
                        problems.append(f"promote_with({d!r}, {t} value) NARROWS to {r!r}")
                    st2, r2 = p(r, t)
                    if st2 != "return" or r2 != r:
                        problems.append(f"not idempotent: promoting {d!r} twice with a {t} value gives {r!r} then {r2!r}")
                    for u in tags_all:
                        s1, a = p(r, u)
                        s2, b0 = p(d, u)
                        if s1 == "return" and s2 == "return" and isinstance(b0, DT):
                            s3, b = p(b0, t)
                            if s3 == "return" and a != b:
                                problems.append(f"does not commute: {d!r} with ({t}, {u}) gives {a!r}, with ({u}, {t}) gives {b!r}")
                                break
                if problems:
                    bad += 1
                if not problems:
                    ctx.obligations.append(_OB("b.promote", f.qualname, role, True, "join, monotone, idempotent, commutes"))
                elif bad <= 8:
                    ctx.ob("b.promote", f, role, False, "", f.node, message="; ".join(problems))
    if bad > 8:
        ctx.info(f"b.promote: {bad} failing cells in total; first 8 reported")
    # a dtype whose kind is a SUBCLASS of a builtin kind (Vector(xs, dtype=MyFloat) carries DataType(MyFloat)): promotion never
    # narrows it below the builtin kind it stands for and never drops nullability
    sub_bad = []
    n_sub = 0
    for k in SUB_TAGS:
        if canon(k) not in NUMERIC + TEMPORAL:
            continue
        for n in (False, True):
            d = DT(k, n)
            for t in tags_all:
                n_sub += 1
                st, r = p(d, t)
                if st != "return" or not isinstance(r, DT):
                    sub_bad.append(f"promote_with({d!r}, {t}) {st}s {r!r}")
                elif not geq(DT(canon(r.kind), r.nullable), DT(canon(k), n)):
                    sub_bad.append(f"promote_with(<{k}: a subclass of {canon(k)}>, {t} value) NARROWS to {r!r}")
    ctx.ob("b.promote", f, "subclass-kinds", not sub_bad, f"{n_sub} (subclass kind, value) cells: never below the builtin kind", f.node,
           message="; ".join(sub_bad[:3]))


def _infer_kind(ctx, tags_all) -> None:
    prog = ctx.prog
    I = Interp(prog)
    f = prog.func("typing.infer_kind")
    for t in tags_all:
        st, r = I.call(f.qualname, [value_of_tag(t)])
        want = NONE if t == "NoneType" else Cls(canon(t))
        ctx.ob("c.infer-kind", f, f"kind:{t}", st == "return" and r == want, f"infer_kind({t} value) = {r!r}", f.node,
               message=f"infer_kind of a {t} value {st}s {r!r}, expected {want!r}")


RESULT_FUNCS = ("vector.Vector._elementwise_operation", "vector.Vector.__radd__", "vector.Vector._unary_operation",
                "vector.MethodProxy.__call__", "vector.Vector.__getattr__", "table.Table.inner_join", "table.Table.join",
                "table.Table.full_join", "table.Table.aggregate", "table.Table.window", "csv._read_csv_from_file",
                "vector._Date.__add__", "vector.Vector.unique", "vector.Vector.pluck")
# (Table.sort_by is not a result in the statement's sense: a sorted column keeps its column's dtype - C14.a)


def _result_sites(ctx) -> None:
    from ..sites2 import all_sites2, element_values, is_never_none_term, leaves, same_elements_of, strip_seq
    from ..symx import NONE as SNONE
    prog = ctx.prog
    wanted = set(RESULT_FUNCS)
    # ... and the later helpers they hand the construction of their result to (`Table._join_result(...)`: a helper that is not
    # part of the reference vocabulary, called - directly or through another such helper - from one of them)
    from ..symx import baseline_functions
    base = baseline_functions()
    by_name = {}
    for q_, f_ in prog.functions.items():
        if q_ not in base and not isinstance(f_.node, ast.Lambda) and f_.parent is None:
            by_name.setdefault(f_.name, []).append(q_)
    todo = [q_ for q_ in wanted if q_ in prog.functions]
    while todo:
        f_ = prog.functions[todo.pop()]
        for c_ in ast.walk(f_.node):
            if isinstance(c_, ast.Call):
                nm_ = c_.func.id if isinstance(c_.func, ast.Name) else c_.func.attr if isinstance(c_.func, ast.Attribute) else None
                for q2 in by_name.get(nm_, []):
                    if q2 not in wanted:
                        wanted.add(q2)
                        todo.append(q2)
    # (the arithmetic kernel and the later helpers it reaches: where its known incompatible-operand fallback may be written)
    kernel_fns = {"vector.Vector._elementwise_operation"}
    todo = list(kernel_fns)
    while todo:
        f_ = prog.functions.get(todo.pop())
        if f_ is None:
            continue
        for c_ in ast.walk(f_.node):
            if isinstance(c_, ast.Call):
                nm_ = c_.func.id if isinstance(c_.func, ast.Name) else c_.func.attr if isinstance(c_.func, ast.Attribute) else None
                for q2 in by_name.get(nm_, []):
                    if q2 not in kernel_fns:
                        kernel_fns.add(q2)
                        todo.append(q2)
    n = 0
    ords = {}
    for s in all_sites2(prog):
        owner = prog.functions.get(s.qual) or s.top
        top = owner
        while top.parent and top.parent in prog.functions:
            top = prog.functions[top.parent]
        in_wrappers = top.cls in ("_String", "_Date") and top.name not in ("__init__", "_elementwise_compare")
        if top.qualname not in wanted and not in_wrappers:
            continue
        if s.kind not in ("Vector", "cls"):
            continue
        n += 1
        it = s.it
        ok, why = True, "no dtype: inferred from the stored values"
        pairs_fallback = False
        if s.dtype is not None and s.dtype != SNONE:
            def _alts(t, conds=()):
                if t is None:
                    return []
                if t[0] == "ifexp":
                    return _alts(t[2], conds + ((t[1], True),)) + _alts(t[3], conds + ((t[1], False),))
                return [(t, conds)]
            data_alts = _alts(s.data)
            for d, dconds in _alts(s.dtype):
                if d == SNONE:
                    continue
                # (data and dtype chosen together by one condition: the data alternatives of this dtype's own branch)
                own_data = [x for x, cx in data_alts if not any((c_, not p_) in cx for c_, p_ in dconds)] or [x for x, _ in data_alts]
                if d[0] == "param" and d[1] in s.top.params:
                    ok, why = False, "dtype comes from a parameter"
                elif d[0] == "call" and d[1] == ("name", "infer_dtype") and len(d[2]) == 1 and s.data is not None \
                        and (strip_seq(it, d[2][0]) == strip_seq(it, s.data)
                             or (own_data and all(strip_seq(it, d[2][0]) == strip_seq(it, x) for x in own_data))):
                    why = "infer_dtype over the stored data"
                elif d == ("call", ("name", "DataType"), (("name", "object"),), ()):
                    evs = [element_values(it, x) for x in leaves(s.data)]
                    if evs and all(e is not None and all(v[0] == "tuple" for v, _ in e) for e in evs):
                        # truthful for C03 (object admits everything, a tuple is never None) but NOT the inference rule: a sequence
                        # of tuples infers <tuple>.  tests/test_type_promotion.py pins <object> here, so this is a known finding.
                        ok, why = False, ("constant <object> over (x, y) tuples - the inference rule applied to these values gives <tuple> "
                                          "(the incompatible-operand fallback; pinned by test_mixed_incompatible_types_fall_back_to_object)")
                    elif evs and all(e is not None and all(is_never_none_term(it, v) for v, _ in e) for e in evs):
                        why = "object over values that cannot be None"
                    else:
                        ok, why = False, "constant object dtype over data that may hold None"
                elif d[0] == "attr" and d[2] == "_dtype" and s.data is not None and all(
                        strip_seq(it, x) == d[1] or ((same_elements_of(it, x) or (None, ""))[0] == d[1]
                                                     and same_elements_of(it, x)[1] in ("identity", "permutation"))
                        for x in leaves(s.data)):
                    # not a computed result: an operand column reproduced with all of its own elements (window's key columns)
                    why = f"a copy of {s.sh(d[1], 30)} (all of its own elements) under its own dtype"
                else:
                    ok, why = False, f"explicit dtype `{s.sh(d, 50)}` instead of inference over the result values"
                    if d[0] == "call" and d[1] == ("name", "DataType") and d[2][:1] == (("name", "object"),) and s.data is not None:
                        evs_ = [element_values(it, x) for x in own_data]
                        if evs_ and all(e is not None and any(v[0] == "tuple" or (v[0] == "ifexp" and any(y[0] == "tuple" for y in leaves(v)))
                                                              for v, _ in e) for e in evs_):
                            pairs_fallback = True
        k = ords[owner.qualname] = ords.get(owner.qualname, 0) + 1
        if not ok and (why.startswith("constant <object> over (x, y) tuples") or pairs_fallback) and top.qualname in kernel_fns:
            # the incompatible-operand fallback of the arithmetic kernel (a known finding: pinned by a test): identified by WHAT it is,
            # wherever a refactoring puts the construction - in the kernel itself or in a helper of it
            ctx.ob("d.result-sites", prog.func("vector.Vector._elementwise_operation"), "object-over-pairs", ok, why, s.node,
                   message=f"{owner.qualname}: result constructed as `{s.sh(s.call, 90)}` - {why}; the statement requires results to be typed by "
                           f"the inference rule applied to their values")
            continue
        ctx.ob("d.result-sites", owner, f"site:{k}", ok, why, s.node,
               message=f"{owner.qualname}: result constructed as `{s.sh(s.call, 90)}` - {why}; the statement requires results to be typed by "
                       f"the inference rule applied to their values")
    ctx.extra["result_sites"] = n


_TY = "typing"
MUTANTS = [
    dict(id="promote-ignores-subclass-kind", module="typing", old="        own = kind_of_type(self.kind)\n", new="        own = self.kind\n",
         rules=["b.promote"], desc="reverts fix fe9e234"),
    dict(id="ladder-int-before-float", module=_TY,
         old="            elif own is float or vtype is float:\n                new_kind = float\n            elif own is int or vtype is int:\n                new_kind = int",
         new="            elif own is int or vtype is int:\n                new_kind = int\n            elif own is float or vtype is float:\n                new_kind = float",
         rules=["b.promote", "b.exchange", "b.spec"]),
    dict(id="none-returns-self", module=_TY,
         old="            if self.nullable:\n                return self\n            return DataType(self.kind, nullable=True)",
         new="            return self", rules=["b.promote", "b.spec"]),
    dict(id="date-before-datetime", module=_TY,
         old="    if isinstance(value, datetime):\n        return datetime\n    if isinstance(value, date):\n        return date",
         new="    if isinstance(value, date):\n        return date\n    if isinstance(value, datetime):\n        return datetime",
         rules=["c.infer-kind", "b.spec"]),
    dict(id="leading-none-starts-object", module=_TY,
         old="        if v is None:\n            # None never fixes the kind; it only makes the result nullable,\n            # wherever it occurs (so [None, 1] and [1, None] both infer <int?>)\n            saw_none = True\n        elif dtype is None:",
         new="        if v is None and dtype is None:\n            dtype = DataType(object, nullable=True)\n        elif v is None:\n            saw_none = True\n        elif dtype is None:",
         rules=["b.exchange", "b.spec"], desc="regression of the leading-None fix"),
    dict(id="str-bytes-promote-to-str", module=_TY,
         old="        if self.kind in (str, bytes) and vtype is self.kind:\n            return self",
         new="        if self.kind in (str, bytes) and vtype in (str, bytes):\n            return self",
         rules=["b.promote", "b.spec", "b.exchange"]),
    dict(id="object-stops-scan", module=_TY,
         old="        elif dtype is None:\n            # First non-None element fixes the starting kind\n            dtype = DataType(infer_kind(v), nullable=False)\n        else:",
         new="        elif dtype is None:\n            # First non-None element fixes the starting kind\n            dtype = DataType(infer_kind(v), nullable=False)\n        elif dtype.kind is object:\n            break\n        else:",
         rules=["b.exchange", "b.spec"], desc="'object is the top, stop scanning' loses a later None"),
    dict(id="promote-drops-nullable", module=_TY, count=2, nth=0,
         old="                return DataType(new_kind, self.nullable)", new="                return DataType(new_kind)",
         rules=["b.promote"]),
    dict(id="bool-before-int-lost", module=_TY,
         old="    if isinstance(value, bool):\n        return bool\n    if isinstance(value, int):\n        return int",
         new="    if isinstance(value, int):\n        return int\n    if isinstance(value, bool):\n        return bool",
         rules=["c.infer-kind"]),
    dict(id="join-right-cols-typed-from-source", module="table", count=1,
         old="		for j, orig_col in enumerate(right_cols):\n			col_data = result_data[n_left_cols + j]\n			result_cols.append(Vector(col_data, name=orig_col._name))",
         new="		for j, orig_col in enumerate(right_cols):\n			col_data = result_data[n_left_cols + j]\n			result_cols.append(Vector(col_data, dtype=orig_col._dtype, name=orig_col._name))",
         rules=["d.result-sites"]),
    dict(id="csv-columns-typed-str", module="csv",
         old="        columns.append(Vector(column_data, name=header[col_idx]))",
         new="        columns.append(Vector(column_data, dtype=str if all(isinstance(v, str) for v in column_data) else None, name=header[col_idx]))",
         rules=["d.result-sites"]),
    dict(id="aggregate-sum-typed-from-source", module="table",
         old="			name = uniquify(make_agg_name(col, suffix))\n			result_cols.append(Vector(out, name=name))",
         new="			name = uniquify(make_agg_name(col, suffix))\n			result_cols.append(Vector(out, dtype=col._dtype, name=name))",
         rules=["d.result-sites"]),
    dict(id="twin-ladder-rewrite", module=_TY, twin=True,
         old="            if own is complex or vtype is complex:\n                new_kind = complex\n            elif own is float or vtype is float:\n                new_kind = float\n            elif own is int or vtype is int:\n                new_kind = int\n            else:\n                new_kind = bool",
         new="            if complex in (own, vtype):\n                new_kind = complex\n            elif float in (own, vtype):\n                new_kind = float\n            elif int in (own, vtype):\n                new_kind = int\n            else:\n                new_kind = bool"),
]

"""C11 - join cardinality expectations are enforced exactly.

The property is a finite decision table (join kind x expect value x left-unique? x
right-unique?) and the table is written in the source as literal option sets.  The
rules extract the sets (C11.a), check that the flags they select do what the table
assumes (C11.b) and that the flags influence nothing but the cardinality raises
(C11.c).  Given C09's facts (keys/buckets are what they seem) the property is decided
completely; the 60-cell table is enumerated exhaustively.
"""
from __future__ import annotations

import ast
from typing import Dict, List, Optional, Set, Tuple

from ..core import AnalysisError, short
from ..joinsx import VARIANTS, JoinModel
from ..symx import NONE, Event, callee, const, elements, show, show_conds, subterms

SPEC_VALID = {"one_to_one", "many_to_one", "one_to_many", "many_to_many"}
SPEC_RIGHT = {"one_to_one", "many_to_one"}     # expectations that require unique RIGHT keys
SPEC_LEFT = {"one_to_one", "one_to_many"}      # expectations that require unique LEFT keys


def _str_set(it, t) -> Optional[Set[str]]:
    """A literal collection of strings: tuple / list / set display, frozenset(...) of one."""
    if t[0] == "tuple":
        items = t[1]
    elif t[0] == "obj" and it.objs[t[1]].kind in ("list", "set") and isinstance(it.objs[t[1]].node, (ast.List, ast.Set)) \
            and not it._mutated(t):
        items = it.objs[t[1]].init
    elif t[0] == "call" and t[1] in (("name", "frozenset"), ("name", "set"), ("name", "tuple")) and len(t[2]) == 1:
        return _str_set(it, t[2][0])
    elif t[0] == "obj" and it.objs[t[1]].kind in ("set", "list") and isinstance(it.objs[t[1]].node, ast.Call) and len(it.objs[t[1]].init) == 1:
        return _str_set(it, it.objs[t[1]].init[0])
    else:
        return None
    if all(x[0] == "const" and isinstance(x[2], str) for x in items):
        return {x[2] for x in items}
    return None


def _flag_set(it, expect, t) -> Optional[Set[str]]:
    """t == (expect in {literals})  ->  the literals;  (expect == 'x') -> {'x'}."""
    if t[0] == "cmp" and t[1] == "In" and t[2] == expect:
        return _str_set(it, t[3])
    if t[0] == "cmp" and t[1] == "Eq" and expect in (t[2], t[3]):
        o = t[3] if t[2] == expect else t[2]
        return {o[2]} if o[0] == "const" and isinstance(o[2], str) else None
    # a lookup table instead of a set test:  FLAGS[NAMES.index(expect)]  (two parallel tuples of constants)  or  {name: flag}[expect]
    if t[0] == "sub" and t[1][0] == "tuple" and t[2][0] == "call" and t[2][1][0] == "attr" and t[2][1][2] == "index" \
            and t[2][2] == (expect,) and t[2][1][1][0] == "tuple":
        names, flags = t[2][1][1][1], t[1][1]
        if len(names) == len(flags) and all(x[0] == "const" and isinstance(x[2], str) for x in names) \
                and all(x[0] == "const" and isinstance(x[2], bool) for x in flags):
            return {n_[2] for n_, f_ in zip(names, flags) if f_[2]}
    if t[0] in ("sub", "call") and ((t[0] == "sub" and t[1][0] == "dictlit" and t[2] == expect)
                                     or (t[0] == "call" and t[1][0] == "attr" and t[1][2] == "get" and t[1][1][0] == "dictlit"
                                         and t[2][:1] == (expect,) and (len(t[2]) == 1 or t[2][1] in (("const", "bool", False), ("const", "NoneType", None))))):
        pairs = t[1][1] if t[0] == "sub" else t[1][1][1]
        if all(k_[0] == "const" and isinstance(k_[2], str) and v_[0] == "const" and isinstance(v_[2], bool) for k_, v_ in pairs):
            return {k_[2] for k_, v_ in pairs if v_[2]}
    if t[0] == "bool" and t[1] == "or":
        out: Set[str] = set()
        for x in t[2]:
            r = _flag_set(it, expect, x)
            if r is None:
                return None
            out |= r
        return out
    return None


def _exc_class(t) -> Optional[str]:
    if t is None:
        return None
    if t[0] == "call" and t[1][0] == "name":
        return t[1][1]
    if t[0] == "name":
        return t[1]
    return None


def _mentions(t, what) -> bool:
    return t is not None and any(x == what for x in subterms(t))


class _Card:
    """The cardinality structure of one join variant, read off the event log."""

    def __init__(self, jm: JoinModel):
        self.jm = jm
        it = self.it = jm.it
        self.expect = ("param", jm.p[4])
        ex = self.expect
        self.problems: Dict[str, List[Tuple[str, ast.AST]]] = {k: [] for k in ("valid", "first", "right", "left", "influence")}
        raises = [e for e in it.events if e.kind == "raise"]
        # ---- validation: the raise whose LAST condition is `expect not in <literals>`
        self.validation: Optional[Event] = None
        self.valid_set: Optional[Set[str]] = None
        for e in raises:
            if e.conds and not e.loops:
                t, pol = e.conds[-1]
                vs = _flag_set(it, ex, t)
                if vs is not None and not pol and len(e.conds) == 1:
                    self.validation, self.valid_set = e, vs
        # ---- flag-guarded raises
        self.right_raise = self.left_raise = None
        self.R: Set[str] = set()
        self.L: Set[str] = set()
        self.flag_lits: List[Tuple] = []
        for e in raises:
            if e is self.validation:
                continue
            lits = self._flag_literals(e.conds)
            if not lits:
                continue
            if len(lits) != 1:
                raise AnalysisError(f"{jm.f.qualname}: a raise is guarded by several cardinality tests")
            (lit, fs) = lits[0]
            if jm.probe_loop in e.loops:
                if self.left_raise is not None and fs != self.L:
                    raise AnalysisError(f"{jm.f.qualname}: two different expect sets guard raises in the probe loop")
                self.left_raise, self.L, self.left_lit = e, fs, lit
            else:
                if self.right_raise is not None and fs != self.R:
                    raise AnalysisError(f"{jm.f.qualname}: two different expect sets guard raises outside the probe loop")
                self.right_raise, self.R, self.right_lit = e, fs, lit

    def _flag_literals(self, conds) -> List[Tuple]:
        """(literal term, its expect set) for every condition literal (also inside `a and b`) that tests expect
        positively against a literal set - the validation literal excluded."""
        out = []
        for t, pol in conds:
            parts = [(t, pol)]
            if t[0] == "bool" and t[1] == "and" and pol:
                parts = [(x, True) for x in t[2]]
            for x, p in parts:
                fs = _flag_set(self.it, self.expect, x)
                if fs is not None and p and not (self.validation is not None and x == self.validation.conds[-1][0]):
                    out.append((x, fs))
        return out

    def split(self, conds) -> List[Tuple]:
        """Flatten `a and b` (taken true) into literals."""
        from ..symx import strip_not
        out = []
        for t, pol in conds:
            if t[0] == "bool" and t[1] == "and" and pol:
                for x in t[2]:
                    b, flip = strip_not(x)
                    out.append((b, not flip))
            else:
                out.append((t, pol))
        return out


def _raw_inside(jm, e, L):
    """ALL conditions established inside loop L (the negated raise guards included: C11 is about exactly those)."""
    return tuple(e.conds[len(jm.it.loops[L].conds):])


def _right_check(c: _Card) -> Tuple[bool, str, Optional[ast.AST]]:
    jm, it = c.jm, c.it
    e = c.right_raise
    if e is None:
        return False, "no raise guarded by a right-uniqueness expect set was found outside the probe loop", None
    if _exc_class(e.term) != "SerifValueError":
        return False, f"right-duplicate raise uses {_exc_class(e.term)}, must be SerifValueError", e.node
    il = it.loops[jm.index_loop]
    lits = c.split(e.conds)
    vlit = c.validation.conds[-1][0] if c.validation is not None else None
    lits = [(t, p) for t, p in lits if t != vlit and t != c.right_lit]
    if jm.index_loop in e.loops:
        # raise on the spot: under (flag, key already has a bucket)
        inside = [(t, p) for t, p in lits if (t, p) in c.split(_raw_inside(jm, e, il.id))]
        ok = len(inside) == 1 and _repeat_test(jm, inside[0]) and len(lits) == 1
        if not ok:
            return False, (f"right-duplicate raise in the index loop happens under `{show_conds(lits, it)[:90]}`, expected exactly "
                           f"(flag and the key already has a bucket)"), e.node
        return True, "raise SerifValueError iff the right flag holds and a right key repeats (checked while indexing)", e.node
    # raise after the index loop: under (flag and <duplicates non-empty>)
    if e.loops:
        return False, "right-duplicate raise is inside another loop", e.node
    ie = jm.index_events
    probe_events = jm.events_in(jm.probe_loop)
    if not (ie and max(x.seq for x in ie) < e.seq and (not probe_events or e.seq < min(x.seq for x in probe_events))):
        return False, "right-duplicate raise is not between the index loop and the probe loop", e.node
    dups = _core_obj(lits[0][0]) if len(lits) == 1 and lits[0][1] else None
    if dups is None:
        return False, f"right-duplicate condition is `{show_conds(lits, it)[:90]}` besides the flag, expected `<flag> and <duplicates>`", e.node
    o = it.objs[dups[1]]
    if o.init or o.kind not in ("dict", "list", "set"):
        return False, "the duplicates record is not initialised empty", e.node
    fills = [x for x in it.events if x.kind == "store" and x.term[0] == "sub" and _core_obj(x.term[1]) == dups] + \
            [x for x in it.events if x.kind == "call" and x.term[1][0] == "attr" and _core_obj(x.term[1][1]) == dups
             and x.term[1][2] in ("append", "add", "setdefault", "update")]
    if not fills:
        return False, "the duplicates record never receives an entry", e.node
    for x in it.events:
        if x.kind == "call" and x.term[1][0] == "attr" and _core_obj(x.term[1][1]) == dups and x.term[1][2] in (
                "pop", "clear", "popitem", "__delitem__", "remove", "discard"):
            return False, f"the duplicates record is also modified by .{x.term[1][2]}()", x.node
        if x.kind == "del" and x.term[0] == "sub" and _core_obj(x.term[1]) == dups:
            return False, "entries of the duplicates record are deleted", x.node
    for st in fills:
        if il.id not in st.loops:
            return False, "the duplicates record is filled outside the index loop", st.node
        g = c.split(_raw_inside(jm, st, il.id))
        rep = [x for x in g if _repeat_test(jm, x)]
        first = [x for x in g if _repeat_test(jm, (x[0], not x[1]))]
        if first:
            return False, "a duplicate is recorded on FIRST sight of a key, not on a repeat", st.node
        if not rep:
            return False, "the duplicates entry is not in the repeated-key branch of the bucket test", st.node
        for t, p in g:
            if (t, p) in rep:
                continue
            if t == c.right_lit and p:
                continue
            if t[0] == "cmp" and t[1] == "In" and _core_obj(t[3]) == dups and not p:
                continue            # `key not in duplicates`
            return False, f"the duplicates entry is additionally guarded by `{show_conds([(t, p)], it)[:70]}`", st.node
    return True, "raise SerifValueError iff the right flag holds and a right key repeats (recorded while indexing all right rows)", e.node


def _core_obj(t):
    """The object behind a conditionally created local: obj | (obj if <flag> else <unbound>)."""
    if t[0] == "obj":
        return t
    if t[0] == "ifexp":
        objs = [x for x in (t[2], t[3]) if x[0] == "obj"]
        rest = [x for x in (t[2], t[3]) if x[0] != "obj"]
        if len(objs) == 1 and rest and rest[0][0] == "unbound":
            return objs[0]
    return None


def _repeat_test(jm: JoinModel, c) -> bool:
    """`the key of the row being indexed already has a bucket` - or, after the row was appended, `its bucket holds more than
    one row`."""
    from ..symx import const
    from .joinrules import _first_sight
    t, pol = c
    if _first_sight(jm, (t, not pol)):
        return True
    if t[0] == "cmp" and pol and t[2][0] == "call" and t[2][1] == ("name", "len") and len(t[2][2]) == 1 and jm._is_bucket_term(t[2][2][0]):
        b = t[2][2][0]
        key = b[2][0] if b[0] == "call" else b[2]
        if jm.key_of(key) == ("R", ("idx", jm.index_loop)):
            return (t[1] == "Gt" and t[3] == const(1)) or (t[1] == "GtE" and t[3] == const(2))
    return False


def _left_check(c: _Card) -> Tuple[bool, str, Optional[ast.AST]]:
    jm, it = c.jm, c.it
    e = c.left_raise
    if e is None:
        return False, "no raise guarded by a left-uniqueness expect set was found in the probe loop", None
    if _exc_class(e.term) != "SerifValueError":
        return False, f"left-duplicate raise uses {_exc_class(e.term)}, must be SerifValueError", e.node
    pl = it.loops[jm.probe_loop]
    key = None
    b = jm.bucket
    key = b[2][0] if b[0] == "call" else b[2]
    inside = c.split(_raw_inside(jm, e, pl.id))
    rest = [(t, p) for t, p in inside if t != c.left_lit]
    if len(rest) != 1 or not rest[0][1] or not (rest[0][0][0] == "cmp" and rest[0][0][1] == "In" and rest[0][0][2] == key):
        return False, (f"left-duplicate raise is under `{show_conds(inside, it)[:100]}`; expected exactly (flag and key of this row already "
                       f"seen) - any other condition lets some rows skip the check"), e.node
    if e.loops != (pl.id,):
        return False, "the left-duplicate raise is nested in another loop", e.node
    seen = rest[0][0][3]
    # `seen` may be conditionally created (`if flag: seen = set()`): strip the conditional
    seen_objs = [x for x in subterms(seen) if x[0] == "obj"]
    if len(seen_objs) != 1 or it.objs[seen_objs[0][1]].kind != "set" or it.objs[seen_objs[0][1]].init:
        return False, "the record of seen left keys is not initialised as an empty set", e.node
    so = seen_objs[0]
    adds = []
    for x in it.events:
        if x.kind == "call" and x.term[1][0] == "attr" and so in list(subterms(x.term[1][1])) and x.term[1][1][0] in ("obj", "ifexp"):
            if x.term[1][2] == "add":
                adds.append(x)
            elif x.term[1][2] not in ("__contains__", "__len__", "copy"):
                return False, f"the seen-keys record is also modified by .{x.term[1][2]}()", x.node
    good = [a for a in adds if a.term[2] == (key,) and a.loops == (pl.id,)]
    if len(good) != 1 or len(adds) != 1:
        return False, f"the key of every probed row is not recorded exactly once ({len(adds)} add site(s))", (adds[0].node if adds else e.node)
    a = good[0]
    ac = c.split(_raw_inside(jm, a, pl.id))
    want = [(c.left_lit, True), (rest[0][0], False)]
    if sorted(map(repr, ac)) != sorted(map(repr, want)):
        if a.seq < e.seq or (rest[0][0], False) not in ac:
            return False, "the key is recorded before it is tested (every key would look repeated) or not on every checked row", a.node
        return False, f"the key is recorded only under `{show_conds(ac, it)[:90]}`", a.node
    # the check precedes the matched/unmatched split: it happens before the index is consulted in the iteration
    firsts = [x.seq for x in jm.events_in(pl.id) if x.kind == "call" and jm.bucket_of(x.term) is not None]
    ems = [x.ev.seq for x in jm.emissions() if pl.id in x.ev.loops]
    if (firsts and min(firsts) < e.seq) or (ems and min(ems) < e.seq):
        return False, "the index lookup / emission happens before the left-uniqueness check", e.node
    return True, ("raise SerifValueError iff the left flag holds and the left key was seen before; key recorded every iteration; "
                  "check precedes the matched/unmatched split"), e.node


def _no_influence(c: _Card) -> Tuple[bool, str, Optional[ast.AST]]:
    """expect (and everything computed from it) reaches only the cardinality tests, their bookkeeping and messages."""
    jm, it = c.jm, c.it
    ex = c.expect
    raise_guards = set()
    for e in it.events:
        if e.kind == "raise" and e.conds:
            raise_guards.add(e.conds[-1][0])
    # bookkeeping objects: whatever the flag-guarded raises test (seen set, duplicates record)
    book = set()
    for r in (c.left_raise, c.right_raise):
        if r is not None:
            for t, p in c.split(r.conds):
                for x in subterms(t):
                    if x[0] == "obj" and it.objs[x[1]].kind in ("set", "dict", "list") and x not in (jm.index, jm.RD):
                        book.add(x)
    structural = [jm.index, jm.RD, jm.pairs]

    def is_book(e: Event) -> bool:
        if e.kind == "raise":
            return True
        tm = e.term
        if e.kind in ("store", "del") and tm[0] == "sub" and any(b in list(subterms(tm[1])) for b in book):
            return True
        if e.kind == "call" and tm[1][0] == "attr" and any(b in list(subterms(tm[1][1])) for b in book):
            return True
        if e.kind == "call" and e.value is not None and e.value in book:
            return True           # creation of the bookkeeping object
        return False
    # events that only build a raise's message: their call term occurs inside a raise's exception term
    msg_terms = set()
    for r in it.events:
        if r.kind == "raise" and r.term is not None:
            for x in subterms(r.term):
                if x[0] == "call":
                    msg_terms.add(x)
    pure = {"len", "isinstance", "bool", "iter", "next", "range", "enumerate", "zip", "type", "repr", "str", "int", "tuple", "sorted",
            "min", "max", "any", "all", "hash", "id", "callable", "getattr", "hasattr"}
    for e in it.events:
        if is_book(e) or (e.kind == "call" and e.term in msg_terms):
            continue
        if e.kind == "inline":
            continue            # the evaluation of a private helper in line: everything it does is in the log as events of its own
        if e.kind == "call" and e.term[1][0] == "name" and e.term[1][1] in pure and not _mentions(e.term, ex):
            continue            # evaluating a pure builtin has no effect; what is done with its value is judged where it is used
        # 1. data dependence
        for tm in (e.term, e.value):
            if tm is not None and _mentions(tm, ex):
                # evaluating a cardinality test itself (expect in (...)) produces no event; anything else is influence
                return False, (f"a statement that is not cardinality bookkeeping depends on expect: `{show(tm, it)[:80]}` "
                               f"(line {getattr(e.node, 'lineno', '?')})"), e.node
        # 2. control dependence: only the validation and the fall-through of raise guards may mention expect
        for t, p in e.conds:
            if not _mentions(t, ex):
                continue
            if t in raise_guards or (t, p) in it.no_raise_lits:
                continue
            return False, (f"`{show(e.term, it)[:60]}` (line {getattr(e.node, 'lineno', '?')}) runs only under `{show_conds([(t, p)], it)[:70]}`: "
                           f"expect influences more than the cardinality raises"), e.node
    for lp in it.loops.values():
        if lp.iter is not None and _mentions(lp.iter, ex):
            return False, f"a loop ranges over `{show(lp.iter, it)[:70]}`, which depends on expect", lp.node
        for t, p in lp.conds:
            if _mentions(t, ex) and t not in raise_guards and (t, p) not in it.no_raise_lits:
                return False, f"a loop runs only under `{show_conds([(t, p)], it)[:70]}`", lp.node
    return True, "expect reaches only the cardinality tests, their bookkeeping and messages", None


def run(ctx) -> None:
    ctx.rule("a.valid-set", "entry validation rejects exactly the values outside {one_to_one, many_to_one, "
                            "one_to_many, many_to_many} with SerifValueError", 3)
    ctx.rule("a.table", "decision table cell (variant, expect, left-unique?, right-unique?) generated from the "
                        "extracted option sets equals the statement's table", 60)
    ctx.rule("b.validation-first", "the expect validation precedes every other effect of the join", 3)
    ctx.rule("b.right-check", "right-duplicate raise happens exactly under (right flag AND a right key repeats while indexing ALL "
                              "right rows), raises SerifValueError", 3)
    ctx.rule("b.left-check", "left-duplicate raise happens exactly under (left flag AND key already seen), "
                             "the key is recorded on every iteration, and the check precedes the matched/unmatched split", 3)
    ctx.rule("b.not-bypassed", "no return precedes the loops in which the uniqueness checks live (a fast path for an empty side "
                               "would accept duplicate keys)", 3)
    ctx.rule("c.no-influence", "expect and the flags flow only into the cardinality tests, their bookkeeping and "
                               "messages - never into the index, the result buffers, loop bounds or the return value", 3)
    ctx.exhaustive = True
    cells = []
    from . import joinrules as _jr
    for variant in VARIANTS:
        jm = JoinModel(ctx.prog, variant)
        f, it = jm.f, jm.it
        c = _Card(jm)
        # ---------------- a.valid-set ----------------
        v = c.validation
        cls = _exc_class(v.term) if v is not None else None
        ok = v is not None and c.valid_set == SPEC_VALID and cls == "SerifValueError"
        ctx.ob("a.valid-set", f, "validation", ok,
               f"{variant}: accepted values {sorted(c.valid_set or [])}, raises {cls}", v.node if v is not None else f.node,
               message=f"{variant}: expect validation accepts {sorted(c.valid_set or [])} (must be {sorted(SPEC_VALID)}) "
                       f"and raises {cls} (must be SerifValueError)")
        R, L, V = c.R, c.L, (c.valid_set or set())
        # ---------------- a.table (exhaustive) ----------------
        for expect in sorted(SPEC_VALID) + ["<any other value>"]:
            for left_unique in (True, False):
                for right_unique in (True, False):
                    if expect == "<any other value>":
                        spec = "raise"
                        got = "raise" if v is not None else "accept"
                    else:
                        spec = "raise" if ((expect in SPEC_RIGHT and not right_unique) or
                                           (expect in SPEC_LEFT and not left_unique)) else "accept"
                        if expect not in V:
                            got = "raise"
                        else:
                            got = "raise" if ((expect in R and not right_unique) or
                                              (expect in L and not left_unique)) else "accept"
                    role = f"cell[{expect},left_unique={left_unique},right_unique={right_unique}]"
                    cells.append((variant, role, got))
                    where = (c.left_raise.node if (c.left_raise is not None and expect in (L ^ SPEC_LEFT)) else
                             c.right_raise.node if (c.right_raise is not None and expect in (R ^ SPEC_RIGHT)) else
                             (v.node if v is not None else f.node))
                    ctx.ob("a.table", f, role, got == spec, f"{variant} {role}: {got}", where,
                           message=f"{variant}, expect={expect!r}, left keys {'unique' if left_unique else 'repeated'}, "
                                   f"right keys {'unique' if right_unique else 'repeated'}: code {got}s, must {spec} "
                                   f"(right-uniqueness selected by {sorted(R)}, left-uniqueness by {sorted(L)})")
        # ---------------- b.validation-first ----------------
        ok = v is not None
        msg = "no validation"
        node = f.node
        if ok:
            lit = v.conds[-1][0]
            offenders = [e for e in it.events if e.kind in ("call", "store", "del", "raise", "return", "yield") and e is not v
                         and (lit, True) not in e.conds and not (e.kind == "call" and e.seq < v.seq and e.conds == v.conds)]
            ok = not offenders
            node = offenders[0].node if offenders else v.node
            msg = (f"{len(offenders)} effect(s) can happen before / without the expect validation, first: "
                   f"`{show(offenders[0].term, it)[:70]}`" if offenders else "validation precedes all effects")
        ctx.ob("b.validation-first", f, "validation", ok, msg, node, message=f"{variant}: {msg}")
        ok, msg, node = _right_check(c)
        ctx.ob("b.right-check", f, "right-raise", ok, msg, node or f.node, message=f"{variant}: {msg}")
        ok, msg, node = _left_check(c)
        ctx.ob("b.left-check", f, "left-raise", ok, msg, node or f.node, message=f"{variant}: {msg}")
        _jr.no_early_result(ctx, jm, "b.not-bypassed")
        ok, msg, node = _no_influence(c)
        ctx.ob("c.no-influence", f, "flag-dataflow", ok, msg, node or f.node, message=f"{variant}: {msg}")
    ctx.extra["decision_table_cells"] = len(cells)
    ctx.not_decided.append("nothing beyond C09's facts: that the index buckets hold exactly the key-equal right rows")


# ---------------------------------------------------------------------------
# armed mutants (E9): edits of the current source the rules must report
# ---------------------------------------------------------------------------
_R = "check_right_unique = expect in ('one_to_one', 'many_to_one')"
_L = "check_left_unique = expect in ('one_to_one', 'one_to_many')"
MUTANTS = []
for _i, _v in enumerate(VARIANTS):
    MUTANTS += [
        dict(id=f"{_v}-right-set-drops-many_to_one", module="table", old=_R, count=3, nth=_i,
             new="check_right_unique = expect in ('one_to_one',)", rules=["a.table"]),
        dict(id=f"{_v}-right-set-copies-left", module="table", old=_R, count=3, nth=_i,
             new="check_right_unique = expect in ('one_to_one', 'one_to_many')", rules=["a.table"]),
        dict(id=f"{_v}-left-set-copies-right", module="table", old=_L, count=3, nth=_i,
             new="check_left_unique = expect in ('one_to_one', 'many_to_one')", rules=["a.table"]),
        dict(id=f"{_v}-left-set-adds-many_to_many", module="table", old=_L, count=3, nth=_i,
             new="check_left_unique = expect in ('one_to_one', 'one_to_many', 'many_to_many')", rules=["a.table"]),
    ]
MUTANTS += [
    dict(id="validation-accepts-extra-value", module="table", count=3, nth=1,
         old="if expect not in ('one_to_one', 'many_to_one', 'one_to_many', 'many_to_many'):",
         new="if expect not in ('one_to_one', 'many_to_one', 'one_to_many', 'many_to_many', 'left'):",
         rules=["a.valid-set"]),
    dict(id="validation-raises-ValueError", module="table",
         old="""			raise SerifValueError(
				f"Invalid expect value '{expect}'. \"""",
         new="""			raise ValueError(
				f"Invalid expect value '{expect}'. \"""", rules=["a.valid-set"]),
    dict(id="left-check-after-continue", module="table",
         edits=[("table", """			# Enforce left-side cardinality (if needed)
			if check_left_unique:
				if key in left_keys_seen:
					raise SerifValueError(
						f"Join expectation '{expect}' violated: Left side has duplicate key {key}"
					)
				left_keys_seen.add(key)
			
			matches = right_index_get(key)
			if not matches:
				continue  # INNER JOIN → skip non-matches
""", """			matches = right_index_get(key)
			if not matches:
				continue  # INNER JOIN → skip non-matches
			
			# Enforce left-side cardinality (if needed)
			if check_left_unique:
				if key in left_keys_seen:
					raise SerifValueError(
						f"Join expectation '{expect}' violated: Left side has duplicate key {key}"
					)
				left_keys_seen.add(key)
""", 1)], rules=["b.left-check"],
         desc="duplicates among unmatched left rows no longer count"),
    dict(id="left-raise-wrong-class", module="table", count=3, nth=2,
         old="""					raise SerifValueError(
						f"Join expectation '{expect}' violated: Left side has duplicate key {key}\"""",
         new="""					raise SerifKeyError(
						f"Join expectation '{expect}' violated: Left side has duplicate key {key}\"""",
         rules=["b.left-check"]),
    dict(id="right-dups-only-when-matched", module="table",
         old="""				bucket.append(row_idx)
				if check_right_unique and key not in duplicates:
					duplicates[key] = bucket
""", new="""				bucket.append(row_idx)
		for key, bucket in right_index.items():
			if check_right_unique and len(bucket) > 2:
					duplicates[key] = bucket
""", rules=["b.right-check"], desc="right duplicates recorded by a different criterion outside the index loop"),
    dict(id="flag-in-loop-bound", module="table",
         old="		for left_idx in range(left_nrows):\n			key = tuple(col[left_idx] for col in left_keys)\n			\n			# Validate hashability for object dtype columns\n			if validate_hashable:\n				self._validate_key_tuple_hashable(key, left_keys, left_idx)",
         new="		for left_idx in range(left_nrows if not check_left_unique else left_nrows - 1):\n			key = tuple(col[left_idx] for col in left_keys)\n			\n			# Validate hashability for object dtype columns\n			if validate_hashable:\n				self._validate_key_tuple_hashable(key, left_keys, left_idx)",
         rules=["c.no-influence", "b.left-check"]),
    dict(id="expect-changes-result", module="table",
         old="		# Wrap result_data into Vectors, preserving column names\n",
         new="		if expect == 'one_to_one' and not right_index:\n			return Table(())\n		# Wrap result_data into Vectors, preserving column names\n",
         rules=["c.no-influence"]),
    dict(id="validation-after-key-validation", module="table",
         edits=[("table", """		# Validate expectation value early
		if expect not in ('one_to_one', 'many_to_one', 'one_to_many', 'many_to_many'):
			raise SerifValueError(
				f"Invalid expect value '{expect}'. "
				"Must be one of 'one_to_one', 'many_to_one', 'one_to_many', 'many_to_many'."
			)
		
		# Validate and normalize join keys
		pairs = self._validate_join_keys(other, left_on, right_on)
""", """		# Validate and normalize join keys
		pairs = self._validate_join_keys(other, left_on, right_on)
		
		# Validate expectation value
		if expect not in ('one_to_one', 'many_to_one', 'one_to_many', 'many_to_many'):
			raise SerifValueError(
				f"Invalid expect value '{expect}'. "
				"Must be one of 'one_to_one', 'many_to_one', 'one_to_many', 'many_to_many'."
			)
""", 1)], rules=["b.validation-first"],
         desc="an invalid expect is no longer ALWAYS rejected: a key error wins"),
    # behaviour-preserving twins: must stay silent
    dict(id="twin-rename-flag", module="table", twin=True,
         edits=[("table", "check_left_unique", "enforce_left", 9)]),
    dict(id="twin-set-literal", module="table", twin=True, count=3, nth=0, old=_R,
         new="check_right_unique = expect in {'many_to_one', 'one_to_one'}"),
    dict(id="twin-reorder-valid-set", module="table", twin=True, count=3, nth=2,
         old="if expect not in ('one_to_one', 'many_to_one', 'one_to_many', 'many_to_many'):",
         new="if expect not in ['many_to_many', 'one_to_one', 'many_to_one', 'one_to_many']:"),
]

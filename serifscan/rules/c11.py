"""C11 - join cardinality expectations are enforced exactly.

The property is a finite decision table (join kind x expect value x left-unique? x
right-unique?) and the table is written in the source as literal option sets.  The
rules extract the sets (C11.a), check that the flags they select do what the table
assumes (C11.b) and that the flags influence nothing but the cardinality raises
(C11.c).  Given C09's facts (keys/buckets are what they seem) the property is decided
completely; the 60-cell table is enumerated exhaustively.
"""
from __future__ import annotations

import ast
from typing import Dict, List, Optional, Set

from ..astutil import Defs, loads, raise_class
from ..cfg import cfg_of
from ..core import AnalysisError, attr_chain, short, walk_no_nested, walk_stmts
from ..joins import VARIANTS, JoinFacts, _callee

SPEC_VALID = {"one_to_one", "many_to_one", "one_to_many", "many_to_many"}
SPEC_RIGHT = {"one_to_one", "many_to_one"}     # expectations that require unique RIGHT keys
SPEC_LEFT = {"one_to_one", "one_to_many"}      # expectations that require unique LEFT keys


def run(ctx) -> None:
    ctx.rule("a.valid-set", "entry validation rejects exactly the values outside {one_to_one, many_to_one, "
                            "one_to_many, many_to_many} with SerifValueError", 3)
    ctx.rule("a.table", "decision table cell (variant, expect, left-unique?, right-unique?) generated from the "
                        "extracted option sets equals the statement's table", 60)
    ctx.rule("b.validation-first", "the expect validation dominates every other statement of the join", 3)
    ctx.rule("b.right-check", "right-duplicate raise is control-dependent on exactly (right flag AND duplicates "
                              "seen while indexing ALL right rows), raises SerifValueError", 3)
    ctx.rule("b.left-check", "left-duplicate raise is control-dependent on exactly (left flag AND key already seen), "
                             "the key is recorded on every iteration, and the check precedes the matched/unmatched split", 3)
    ctx.rule("b.not-bypassed", "no return precedes the loops in which the uniqueness checks live (a fast path for an empty side "
                               "would accept duplicate keys)", 3)
    ctx.rule("c.no-influence", "expect and the flags flow only into the cardinality tests, their bookkeeping and "
                               "messages - never into the index, the result buffers, loop bounds or the return value", 3)
    ctx.exhaustive = True
    cells = []
    for variant in VARIANTS:
        jf = JoinFacts(ctx.prog, variant)
        f = jf.f
        # ---------------- a.valid-set ----------------
        ok = jf.validation is not None and jf.valid_set == SPEC_VALID
        cls = None
        if jf.validation is not None:
            r = [b for b in jf.validation.body if isinstance(b, ast.Raise)]
            cls = raise_class(r[0]) if r else None
            ok = ok and cls == "SerifValueError" and len(jf.validation.body) == 1
        ctx.ob("a.valid-set", f, "validation", ok,
               f"{variant}: accepted values {sorted(jf.valid_set or [])}, raises {cls}",
               jf.validation or f.node,
               message=f"{variant}: expect validation accepts {sorted(jf.valid_set or [])} (must be {sorted(SPEC_VALID)}) "
                       f"and raises {cls} (must be SerifValueError)")
        # ---------------- identify right/left flags by USE ----------------
        right_flag, right_raise, left_flag, left_raise = _classify_flags(ctx, jf)
        R = jf.flags[right_flag][0] if right_flag else set()
        L = jf.flags[left_flag][0] if left_flag else set()
        V = jf.valid_set or set()
        # ---------------- a.table (exhaustive) ----------------
        for expect in sorted(SPEC_VALID) + ["<any other value>"]:
            for left_unique in (True, False):
                for right_unique in (True, False):
                    if expect == "<any other value>":
                        spec = "raise"
                        got = "raise" if jf.validation is not None and not (V - SPEC_VALID) and V <= SPEC_VALID and True else "accept"
                        # any other value is rejected iff the validation exists (its set is finite)
                        got = "raise" if jf.validation is not None else "accept"
                    else:
                        spec = "raise" if ((expect in SPEC_RIGHT and not right_unique) or
                                           (expect in SPEC_LEFT and not left_unique)) else "accept"
                        if expect not in V:
                            got = "raise"
                        else:
                            got = "raise" if ((expect in R and not right_unique) or
                                              (expect in L and not left_unique)) else "accept"
                    role = f"cell[{expect},left_unique={left_unique},right_unique={right_unique}]"
                    cells.append((variant, role, got))
                    where = (jf.flags[left_flag][1] if (left_flag and expect in (L ^ SPEC_LEFT)) else
                             jf.flags[right_flag][1] if (right_flag and expect in (R ^ SPEC_RIGHT)) else
                             jf.validation or f.node)
                    ctx.ob("a.table", f, role, got == spec, f"{variant} {role}: {got}", where,
                           message=f"{variant}, expect={expect!r}, left keys {'unique' if left_unique else 'repeated'}, "
                                   f"right keys {'unique' if right_unique else 'repeated'}: code {got}s, must {spec} "
                                   f"(right-uniqueness selected by {sorted(R)}, left-uniqueness by {sorted(L)})")
        # ---------------- b.validation-first ----------------
        cfg = cfg_of(f)
        ok = jf.validation is not None
        msg = "no validation"
        if ok:
            vnode = cfg.node_of(jf.validation)
            offenders = [n for n in cfg.stmt_nodes()
                         if cfg.is_reachable(n) and n is not vnode and not cfg.dominates(vnode, n)]
            # statements before it (docstring) are harmless expression statements of constants
            offenders = [n for n in offenders if not (isinstance(n.ast, ast.Expr) and isinstance(n.ast.value, ast.Constant))]
            ok = not offenders
            msg = (f"{len(offenders)} statement(s) can run before the expect validation, first: "
                   f"{offenders[0].text()}" if offenders else "validation dominates all statements")
        ctx.ob("b.validation-first", f, "validation", ok, msg, jf.validation or f.node, message=f"{variant}: {msg}")
        # ---------------- b.right-check ----------------
        ok, msg, node = _right_check(jf, right_flag, right_raise)
        ctx.ob("b.right-check", f, "right-raise", ok, msg, node or f.node, message=f"{variant}: {msg}")
        # ---------------- b.left-check ----------------
        ok, msg, node = _left_check(jf, left_flag, left_raise)
        ctx.ob("b.left-check", f, "left-raise", ok, msg, node or f.node, message=f"{variant}: {msg}")
        # ---------------- b.not-bypassed ----------------
        from . import joinrules as _jr
        _jr.no_early_result(ctx, jf, "b.not-bypassed")
        # ---------------- c.no-influence ----------------
        ok, msg, node = _no_influence(jf)
        ctx.ob("c.no-influence", f, "flag-dataflow", ok, msg, node or f.node, message=f"{variant}: {msg}")
    ctx.extra["decision_table_cells"] = len(cells)
    ctx.not_decided.append("nothing beyond C09's facts: that the index buckets hold exactly the key-equal right rows")


# ---------------------------------------------------------------------------
def _guards(jf: JoinFacts, target: ast.stmt) -> List[ast.AST]:
    """The `if` tests (as (test, polarity)) under which `target` executes, innermost last."""
    out = []

    def visit(body, acc):
        for st in body:
            if st is target:
                out.extend(acc)
                return True
            if isinstance(st, ast.If):
                if visit(st.body, acc + [(st.test, True)]) or visit(st.orelse, acc + [(st.test, False)]):
                    return True
            elif isinstance(st, (ast.For, ast.While)):
                if visit(st.body, acc) or visit(st.orelse, acc):
                    return True
            elif isinstance(st, ast.Try):
                if visit(st.body, acc) or any(visit(h.body, acc) for h in st.handlers) or visit(st.orelse, acc):
                    return True
            elif isinstance(st, ast.With):
                if visit(st.body, acc):
                    return True
        return False
    visit(jf.f.body, [])
    return out


def _classify_flags(ctx, jf: JoinFacts):
    """Which flag guards the raise in the probe loop (LEFT) and which the raise outside it (RIGHT)."""
    right_flag = left_flag = None
    right_raise = left_raise = None
    raises = [s for s in walk_stmts(jf.f.body) if isinstance(s, ast.Raise)]
    for r in raises:
        if jf.validation is not None and r in jf.validation.body:
            continue
        guards = _guards(jf, r)
        flags_here = set()
        for test, pol in guards:
            flags_here |= (loads(test) & set(jf.flags))
        if not flags_here:
            continue
        in_probe = any(s is r for s in walk_stmts(jf.probe_loop.body))
        in_index = any(s is r for s in walk_stmts(jf.index_loop.body))
        if len(flags_here) != 1:
            raise AnalysisError(f"{jf.f.qualname}: a raise is guarded by several cardinality flags {flags_here}")
        fl = next(iter(flags_here))
        if in_probe:
            if left_flag not in (None, fl):
                raise AnalysisError(f"{jf.f.qualname}: two different flags guard raises in the probe loop")
            left_flag, left_raise = fl, r
        else:
            if right_flag not in (None, fl):
                raise AnalysisError(f"{jf.f.qualname}: two different flags guard raises outside the probe loop")
            right_flag, right_raise = fl, r
    return right_flag, right_raise, left_flag, left_raise


def _right_check(jf: JoinFacts, flag: Optional[str], rz: Optional[ast.Raise]):
    if flag is None or rz is None:
        return False, "no raise guarded by a right-uniqueness flag was found", None
    if raise_class(rz) != "SerifValueError":
        return False, f"right-duplicate raise uses {raise_class(rz)}, must be SerifValueError", rz
    guards = _guards(jf, rz)
    # exactly one guard: `flag and dups`
    if len(guards) != 1 or guards[0][1] is not True:
        return False, f"right-duplicate raise is under {len(guards)} nested condition(s), expected exactly `flag and duplicates`", rz
    test = guards[0][0]
    if not (isinstance(test, ast.BoolOp) and isinstance(test.op, ast.And) and len(test.values) == 2
            and all(isinstance(v, ast.Name) for v in test.values)):
        return False, f"right-duplicate condition is `{short(test)}`, expected `<flag> and <duplicates>`", rz
    names = {v.id for v in test.values}
    if flag not in names:
        return False, "right-duplicate condition does not test the flag", rz
    dups = next(iter(names - {flag}))
    # the raise must come after the index loop and before the probe loop (all right rows indexed, nothing emitted)
    order = [s for s in jf.top]
    try:
        holder = next(s for s in order if any(x is rz for x in walk_stmts([s])))
        if not (order.index(jf.index_loop) < order.index(holder) < order.index(jf.probe_loop)):
            return False, "right-duplicate raise is not between the index loop and the probe loop", rz
    except StopIteration:
        return False, "right-duplicate raise is not at function top level", rz
    # index loop covers all right rows
    if jf.loop_range_of(jf.index_loop) != "RIGHT-ROWS":
        return False, f"index loop ranges over {jf.loop_range_of(jf.index_loop)}, not all right rows", jf.index_loop
    # `dups` is initialised empty and becomes non-empty iff a bucket receives a second element:
    stores = [s for s in walk_stmts(jf.f.body)
              if isinstance(s, ast.Assign) and len(s.targets) == 1 and isinstance(s.targets[0], ast.Subscript)
              and isinstance(s.targets[0].value, ast.Name) and s.targets[0].value.id == dups]
    if not stores:
        return False, f"`{dups}` never receives an entry", rz
    inits = jf.defs.values(dups)
    if not inits or not all(isinstance(v, (ast.Dict, ast.List, ast.Set)) and not getattr(v, "keys", getattr(v, "elts", [])) or
                            (isinstance(v, ast.Call) and isinstance(v.func, ast.Name) and v.func.id in ("dict", "list", "set") and not v.args)
                            for v in inits):
        return False, f"`{dups}` is not initialised empty", rz
    # other mutations of dups
    for n in walk_no_nested(jf.f.node):
        if isinstance(n, ast.Call) and isinstance(n.func, ast.Attribute) and isinstance(n.func.value, ast.Name) \
                and n.func.value.id == dups and n.func.attr in ("pop", "clear", "popitem", "update", "setdefault", "__delitem__"):
            return False, f"`{dups}` is also modified by .{n.func.attr}()", n
    for s in walk_stmts(jf.f.body):
        if isinstance(s, ast.Delete) and any(dups in loads(t) for t in s.targets):
            return False, f"entries of `{dups}` are deleted", s
    for st in stores:
        if not any(x is st for x in walk_stmts(jf.index_loop.body)):
            return False, f"`{dups}` is filled outside the index loop", st
        g = [(t, p) for t, p in _guards(jf, st)]
        # must be in the not-first-sight branch of the bucket test: `bucket is None` False, or `bucket` truthy etc.
        bucket_branch = False
        extra = []
        for t, p in g:
            nm = _bucket_none_test(t)
            if nm is not None and jf._is_bucket(nm[0]):
                # (is None, polarity False)  or (is not None, polarity True)
                if (nm[1] and not p) or ((not nm[1]) and p):
                    bucket_branch = True
                    continue
                return False, f"`{dups}` is recorded on FIRST sight of a key, not on a repeat", st
            extra.append((t, p))
        if not bucket_branch:
            return False, f"`{dups}` entry is not in the repeated-key branch of the bucket test", st
        for t, p in extra:
            nms = loads(t)
            # allowed extra guards: the flag itself, and `key not in dups`
            if nms <= {flag} and p:
                continue
            if isinstance(t, ast.BoolOp) and isinstance(t.op, ast.And) and p and all(
                    (isinstance(v, ast.Name) and v.id == flag) or _is_not_in(v, dups) for v in t.values):
                continue
            if _is_not_in(t, dups) and p:
                continue
            return False, f"`{dups}` entry is additionally guarded by `{short(t)}`", st
    return True, f"raise SerifValueError iff {flag} and a right key repeats (duplicates recorded in `{dups}` while indexing all right rows)", rz


def _bucket_none_test(t: ast.AST):
    from ..astutil import none_test
    nt = none_test(t)
    if nt is not None and "." not in nt[0]:
        return nt
    return None


def _is_not_in(t: ast.AST, container: str) -> bool:
    return isinstance(t, ast.Compare) and len(t.ops) == 1 and isinstance(t.ops[0], ast.NotIn) \
        and isinstance(t.comparators[0], ast.Name) and t.comparators[0].id == container


def _left_check(jf: JoinFacts, flag: Optional[str], rz: Optional[ast.Raise]):
    if flag is None or rz is None:
        return False, "no raise guarded by a left-uniqueness flag was found in the probe loop", None
    if raise_class(rz) != "SerifValueError":
        return False, f"left-duplicate raise uses {raise_class(rz)}, must be SerifValueError", rz
    if jf.loop_range_of(jf.probe_loop) != "LEFT-ROWS":
        return False, f"probe loop ranges over {jf.loop_range_of(jf.probe_loop)}, not all left rows", jf.probe_loop
    ke = jf.key_expr(jf.probe_loop)
    if ke is None:
        return False, "probe key construction not recognised", jf.probe_loop
    key_var = ke[2].targets[0].id if isinstance(ke[2].targets[0], ast.Name) else None
    guards = _guards(jf, rz)
    if len(guards) != 2 or not all(p for _, p in guards):
        return False, f"left-duplicate raise is under {len(guards)} condition(s); expected `if <flag>:` then `if key in <seen>:`", rz
    (t1, _), (t2, _) = guards
    if not (isinstance(t1, ast.Name) and t1.id == flag):
        return False, f"outer condition is `{short(t1)}`, expected the bare flag `{flag}`", rz
    if not (isinstance(t2, ast.Compare) and len(t2.ops) == 1 and isinstance(t2.ops[0], ast.In)
            and isinstance(t2.left, ast.Name) and t2.left.id == key_var and isinstance(t2.comparators[0], ast.Name)):
        return False, f"inner condition is `{short(t2)}`, expected `{key_var} in <seen>`", rz
    seen = t2.comparators[0].id
    inits = jf.defs.values(seen)
    if not inits or not all(isinstance(v, ast.Call) and isinstance(v.func, ast.Name) and v.func.id == "set" and not v.args
                            for v in inits):
        return False, f"`{seen}` is not initialised as an empty set", rz
    # the `if flag:` statement is a direct child of the probe loop body
    flag_if = None
    for st in jf.probe_loop.body:
        if isinstance(st, ast.If) and st.test is t1:
            flag_if = st
    if flag_if is None:
        return False, "the left-uniqueness block is not directly in the probe loop body (it may be skipped on some rows)", rz
    # seen.add(key) unconditionally at the end of the flag block (after the membership test)
    adds = [s for s in flag_if.body if isinstance(s, ast.Expr) and isinstance(s.value, ast.Call)
            and attr_chain(s.value.func) == [seen, "add"] and len(s.value.args) == 1
            and isinstance(s.value.args[0], ast.Name) and s.value.args[0].id == key_var]
    if len(adds) != 1:
        return False, f"`{seen}.add({key_var})` does not run unconditionally in the flag block", flag_if
    inner_if = [s for s in flag_if.body if isinstance(s, ast.If) and s.test is t2]
    if not inner_if or flag_if.body.index(inner_if[0]) > flag_if.body.index(adds[0]):
        return False, "the key is recorded before it is tested (every key would look repeated)", flag_if
    if flag_if.orelse:
        return False, "the flag block has an else branch", flag_if
    # other mutations of seen
    for n in walk_no_nested(jf.f.node):
        if isinstance(n, ast.Call) and isinstance(n.func, ast.Attribute) and isinstance(n.func.value, ast.Name) \
                and n.func.value.id == seen and n.func.attr not in ("add",):
            return False, f"`{seen}` is also modified by .{n.func.attr}()", n
    # precedes the matched / unmatched split: no continue/break/return and no index lookup before it in the loop body,
    # and the key statement precedes it
    pos = jf.probe_loop.body.index(flag_if)
    if jf.probe_loop.body.index(ke[2]) > pos:
        return False, "the key is built after the left-uniqueness block", flag_if
    for st in jf.probe_loop.body[:pos]:
        for s in walk_stmts([st]):
            if isinstance(s, (ast.Continue, ast.Break, ast.Return)):
                return False, "a row can leave the loop iteration before the left-uniqueness check (unmatched rows would be skipped)", s
        for n in walk_no_nested(st):
            if isinstance(n, ast.Call) and _callee(n) in jf.index_get:
                return False, "the index lookup happens before the left-uniqueness check", st
    return True, (f"raise SerifValueError iff {flag} and the left key was seen before; key recorded every iteration; "
                  f"check precedes the matched/unmatched split"), rz


def _no_influence(jf: JoinFacts):
    """Taint closure of (expect, flags, bookkeeping) must not reach any non-bookkeeping statement."""
    f = jf.f
    taint: Set[str] = {jf.p_expect} | set(jf.flags)
    changed = True
    all_stmts = list(walk_stmts(f.body))

    def targets_of(st):
        out = set()
        tg = []
        if isinstance(st, ast.Assign):
            tg = st.targets
        elif isinstance(st, (ast.AugAssign, ast.AnnAssign)):
            tg = [st.target]
        for t in tg:
            for n in ast.walk(t):
                if isinstance(n, ast.Name) and isinstance(n.ctx, ast.Store):
                    out.add(n.id)
        return out

    while changed:
        changed = False
        for st in all_stmts:
            if isinstance(st, (ast.Assign, ast.AugAssign, ast.AnnAssign)) and st.value is not None:
                if loads(st.value) & taint:
                    new = targets_of(st) - taint
                    if new:
                        taint |= new
                        changed = True
            if isinstance(st, ast.If) and (loads(st.test) & taint):
                for s in walk_stmts(st.body + st.orelse):
                    new = targets_of(s) - taint
                    if new:
                        taint |= new
                        changed = True
    # a tainted name must never be a structural role
    roles = {jf.index_var, jf.result_data, jf.pairs_var, jf.left_keys, jf.right_keys} | jf.append_alias | \
        jf.left_cols | jf.right_cols | jf.left_nrows | jf.right_nrows | jf.n_left_cols | jf.n_right_cols | jf.bucket_vars()
    bad = taint & {r for r in roles if r}
    if bad:
        return False, f"cardinality options flow into structural variable(s) {sorted(bad)}", None

    def allowed(st: ast.stmt, under_taint: bool) -> Optional[ast.stmt]:
        """None if fine, else the offending statement."""
        refs = set()
        for n in walk_no_nested(st) if not isinstance(st, (ast.If, ast.For, ast.While, ast.Try, ast.With)) else []:
            if isinstance(n, ast.Name):
                refs.add(n.id)
        if isinstance(st, ast.If):
            t_taint = bool(loads(st.test) & taint)
            for s in st.body + st.orelse:
                r = allowed(s, under_taint or t_taint)
                if r is not None:
                    return r
            return None
        if isinstance(st, (ast.For, ast.While)):
            hdr = st.iter if isinstance(st, ast.For) else st.test
            if loads(hdr) & taint:
                return st
            if under_taint:
                return st
            for s in st.body + st.orelse:
                r = allowed(s, under_taint)
                if r is not None:
                    return r
            return None
        if isinstance(st, ast.Try):
            for s in st.body + st.orelse + st.finalbody + [x for h in st.handlers for x in h.body]:
                r = allowed(s, under_taint)
                if r is not None:
                    return r
            return None
        if isinstance(st, ast.With):
            for s in st.body:
                r = allowed(s, under_taint)
                if r is not None:
                    return r
            return None
        touches = bool(refs & taint) or under_taint
        if not touches:
            return None
        # bookkeeping shapes
        if isinstance(st, ast.Raise):
            return None
        if isinstance(st, (ast.Assign, ast.AugAssign, ast.AnnAssign)):
            tg = st.targets if isinstance(st, ast.Assign) else [st.target]
            roots = set()
            for t in tg:
                n = t
                while isinstance(n, (ast.Subscript, ast.Attribute)):
                    n = n.value
                for e in ([n] if not isinstance(n, (ast.Tuple, ast.List)) else n.elts):
                    if isinstance(e, ast.Name):
                        roots.add(e.id)
                    else:
                        return st
            return None if roots <= taint else st
        if isinstance(st, ast.Expr) and isinstance(st.value, ast.Call) and isinstance(st.value.func, ast.Attribute) \
                and isinstance(st.value.func.value, ast.Name) and st.value.func.value.id in taint \
                and st.value.func.attr in ("add", "append"):
            return None
        if isinstance(st, ast.Pass):
            return None
        return st

    for st in f.body:
        r = allowed(st, False)
        if r is not None:
            return False, (f"a statement that is not cardinality bookkeeping depends on expect/flags "
                           f"(tainted names: {sorted(taint)}): {short(r, 90)}"), r
    return True, f"expect/flags reach only tests, bookkeeping {sorted(taint - {jf.p_expect} - set(jf.flags))} and messages", None


# ---------------------------------------------------------------------------
# armed mutants (E9): edits of the current source the rules must report
# ---------------------------------------------------------------------------
_R = "check_right_unique = expect in ('one_to_one', 'many_to_one')"
_L = "check_left_unique = expect in ('one_to_one', 'one_to_many')"
MUTANTS = []
for _i, _v in enumerate(VARIANTS):
    MUTANTS += [
        dict(id=f"{_v}-right-set-drops-many_to_one", module="table", old=_R, count=3, nth=_i,
             new="check_right_unique = expect in ('one_to_one',)", rules=["a.table"]),
        dict(id=f"{_v}-right-set-copies-left", module="table", old=_R, count=3, nth=_i,
             new="check_right_unique = expect in ('one_to_one', 'one_to_many')", rules=["a.table"]),
        dict(id=f"{_v}-left-set-copies-right", module="table", old=_L, count=3, nth=_i,
             new="check_left_unique = expect in ('one_to_one', 'many_to_one')", rules=["a.table"]),
        dict(id=f"{_v}-left-set-adds-many_to_many", module="table", old=_L, count=3, nth=_i,
             new="check_left_unique = expect in ('one_to_one', 'one_to_many', 'many_to_many')", rules=["a.table"]),
    ]
MUTANTS += [
    dict(id="validation-accepts-extra-value", module="table", count=3, nth=1,
         old="if expect not in ('one_to_one', 'many_to_one', 'one_to_many', 'many_to_many'):",
         new="if expect not in ('one_to_one', 'many_to_one', 'one_to_many', 'many_to_many', 'left'):",
         rules=["a.valid-set"]),
    dict(id="validation-raises-ValueError", module="table",
         old="""			raise SerifValueError(
				f"Invalid expect value '{expect}'. \"""",
         new="""			raise ValueError(
				f"Invalid expect value '{expect}'. \"""", rules=["a.valid-set"]),
    dict(id="left-check-after-continue", module="table",
         edits=[("table", """			# Enforce left-side cardinality (if needed)
			if check_left_unique:
				if key in left_keys_seen:
					raise SerifValueError(
						f"Join expectation '{expect}' violated: Left side has duplicate key {key}"
					)
				left_keys_seen.add(key)
			
			matches = right_index_get(key)
			if not matches:
				continue  # INNER JOIN → skip non-matches
""", """			matches = right_index_get(key)
			if not matches:
				continue  # INNER JOIN → skip non-matches
			
			# Enforce left-side cardinality (if needed)
			if check_left_unique:
				if key in left_keys_seen:
					raise SerifValueError(
						f"Join expectation '{expect}' violated: Left side has duplicate key {key}"
					)
				left_keys_seen.add(key)
""", 1)], rules=["b.left-check"],
         desc="duplicates among unmatched left rows no longer count"),
    dict(id="left-raise-wrong-class", module="table", count=3, nth=2,
         old="""					raise SerifValueError(
						f"Join expectation '{expect}' violated: Left side has duplicate key {key}\"""",
         new="""					raise SerifKeyError(
						f"Join expectation '{expect}' violated: Left side has duplicate key {key}\"""",
         rules=["b.left-check"]),
    dict(id="right-dups-only-when-matched", module="table",
         old="""				bucket.append(row_idx)
				if check_right_unique and key not in duplicates:
					duplicates[key] = bucket
""", new="""				bucket.append(row_idx)
		for key, bucket in right_index.items():
			if check_right_unique and len(bucket) > 2:
					duplicates[key] = bucket
""", rules=["b.right-check"], desc="right duplicates recorded by a different criterion outside the index loop"),
    dict(id="flag-in-loop-bound", module="table",
         old="		for left_idx in range(left_nrows):\n			key = tuple(col[left_idx] for col in left_keys)\n			\n			# Validate hashability for object dtype columns\n			if validate_hashable:\n				self._validate_key_tuple_hashable(key, left_keys, left_idx)",
         new="		for left_idx in range(left_nrows if not check_left_unique else left_nrows - 1):\n			key = tuple(col[left_idx] for col in left_keys)\n			\n			# Validate hashability for object dtype columns\n			if validate_hashable:\n				self._validate_key_tuple_hashable(key, left_keys, left_idx)",
         rules=["c.no-influence", "b.left-check"]),
    dict(id="expect-changes-result", module="table",
         old="		# Handle completely empty result\n		if left_nrows == 0:\n			return Table(())",
         new="		# Handle completely empty result\n		if left_nrows == 0 or (expect == 'one_to_one' and not right_index):\n			return Table(())",
         rules=["c.no-influence"]),
    dict(id="validation-after-key-validation", module="table",
         edits=[("table", """		# Validate expectation value early
		if expect not in ('one_to_one', 'many_to_one', 'one_to_many', 'many_to_many'):
			raise SerifValueError(
				f"Invalid expect value '{expect}'. "
				"Must be one of 'one_to_one', 'many_to_one', 'one_to_many', 'many_to_many'."
			)
		
		# Validate and normalize join keys
		pairs = self._validate_join_keys(other, left_on, right_on)
""", """		# Validate and normalize join keys
		pairs = self._validate_join_keys(other, left_on, right_on)
		
		# Validate expectation value
		if expect not in ('one_to_one', 'many_to_one', 'one_to_many', 'many_to_many'):
			raise SerifValueError(
				f"Invalid expect value '{expect}'. "
				"Must be one of 'one_to_one', 'many_to_one', 'one_to_many', 'many_to_many'."
			)
""", 1)], rules=["b.validation-first"],
         desc="an invalid expect is no longer ALWAYS rejected: a key error wins"),
    # behaviour-preserving twins: must stay silent
    dict(id="twin-rename-flag", module="table", twin=True,
         edits=[("table", "check_left_unique", "enforce_left", 9)]),
    dict(id="twin-set-literal", module="table", twin=True, count=3, nth=0, old=_R,
         new="check_right_unique = expect in {'many_to_one', 'one_to_one'}"),
    dict(id="twin-reorder-valid-set", module="table", twin=True, count=3, nth=2,
         old="if expect not in ('one_to_one', 'many_to_one', 'one_to_many', 'many_to_many'):",
         new="if expect not in ['many_to_many', 'one_to_one', 'many_to_one', 'one_to_many']:"),
]

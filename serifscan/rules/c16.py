"""C16 - fingerprints track content: never stale, and they notice every change.

A cache-coherence property: fingerprint() returns a memo (_fp); it is a function of the
current contents iff the memo is never read while stale.
"""
from __future__ import annotations

import ast
from typing import List, Optional

from ..astutil import Defs
from ..cfg import cfg_of, reaching_defs
from ..core import AnalysisError, FuncInfo, attr_chain, short, walk_no_nested, walk_stmts
from ..effects import effects_of
from .c01 import _field_stores, _fresh_vector_expr
from .c15 import storage_store_nodes

FORBIDDEN_SOURCES = {"id", "time", "random", "getpid", "urandom", "uuid4", "perf_counter", "monotonic", "now", "today"}
FORBIDDEN_ATTRS = {"_name", "_dtype", "_display_as_row", "_wild", "_fp_powers"}


def _invalidates(node, obj: str) -> bool:
    st = node.ast
    if node.kind != "stmt" or st is None:
        return False
    if isinstance(st, ast.Expr) and isinstance(st.value, ast.Call):
        ch = attr_chain(st.value.func)
        if ch and ch[-1] == "_invalidate_fp" and ".".join(ch[:-1]) == obj:
            return True
    if isinstance(st, ast.Assign) and len(st.targets) == 1 and isinstance(st.targets[0], ast.Attribute) \
            and st.targets[0].attr == "_fp" and short(st.targets[0].value) == obj \
            and isinstance(st.value, ast.Constant) and st.value.value is None:
        return True
    return False


def run(ctx) -> None:
    ctx.rule("a.vector-coherence", "every store to a Vector's _underlying outside its constructor is followed on every path "
                                   "to exit by an invalidation of the memo on the same object, or the function swaps storage "
                                   "without invalidating and EVERY call site is followed by an invalidation / has a FRESH receiver", 2)
    ctx.rule("b.container", "the fingerprint() a Table resolves to (MRO) neither reads nor writes a memo: columns are live "
                            "views that can be written without the table being told; Row.fingerprint likewise (a Row has no memo slot)", 2)
    ctx.rule("c.content-only", "the value folded by _compute_fingerprint_full/_hash_element depends on the elements of "
                               "_underlying, in order (accumulator multiplied before the element hash is added), and on "
                               "class constants only - never on id(), names, dtypes, time or randomness", 2)
    ctx.rule("d.memo-discipline", "the only non-None store to _fp is in fingerprint() itself, of the full recomputation, "
                                  "under `_fp is None`; _invalidate_fp stores None", 3)
    ctx.rule("e.pure-reads", "fingerprint and its helpers write cache fields only", 4)
    ctx.rule("f.scatter", "what _hash_element returns for a value is a sentinel constant or a chain of 64-bit BIJECTIONS (& 2**64-1 of "
                          "a hash, z ^ (z >> k), (z * odd) & 2**64-1, z ^ const) with at least one xor-shift and one multiplication "
                          "over its source - hash(value), a child's fingerprint(), a nested fold, a recursive element hash - so "
                          "values hash() tells apart stay apart, no raw hash / child fingerprint / nested fold enters the linear "
                          "fold unscattered, and a nested fold is seeded by the container's length and type", 6)
    ctx.section("a", _coherence, ctx)
    ctx.section("b", _container, ctx)
    ctx.section("c", _content_only, ctx)
    ctx.section("d", _memo, ctx)
    ctx.section("e", _pure, ctx)
    ctx.section("f", _scatter, ctx)
    ctx.not_decided.append("collision behaviour of hash() (the statement already excludes pairs such as -1/-2)")
    ctx.not_decided.append("absence of collisions of the 61-bit fold itself (no finite fingerprint has none); C16.f decides that no "
                           "collision FAMILY exists by construction: injective scattered element hashes, level separation, container tags")


def _invalidation_events(it, X):
    """events that clear X's fingerprint memo: X._invalidate_fp() or X._fp = None"""
    from ..symx import NONE as SNONE
    out = []
    for e in it.events:
        if e.kind == "call" and e.term[1] == ("attr", X, "_invalidate_fp"):
            out.append(e)
        elif e.kind == "store" and e.term == ("attr", X, "_fp") and e.value == SNONE:
            out.append(e)
    return out


def _followed_by_invalidation(it, s_, X) -> Optional[str]:
    """None if every path from event s_ to the exit passes an invalidation of X's memo; else why not"""
    from ..symx import show
    from .c08 import _compatible
    from .c15 import _subset
    inv = [i for i in _invalidation_events(it, X) if i.seq > s_.seq and _subset(i.conds, s_.conds) and i.loops == s_.loops]
    if not inv:
        return "no _invalidate_fp() (or `_fp = None`) follows on every path to the exit"
    i = inv[0]
    for e in it.events:
        if e.kind in ("return", "raise") and s_.seq < e.seq < i.seq and _compatible(e.conds, s_.conds):
            return f"`{e.kind} {show(e.term, it)[:30]}` (line {getattr(e.node, 'lineno', '?')}) can leave before the memo is cleared"
    return None


def _coherence(ctx) -> None:
    """Every replacement of a vector's storage outside its constructor is followed, on every path, by the clearing of its memo -
    on the symx event logs (helpers in line)."""
    from ..sites2 import interp_of, standalone_interps
    from ..symx import show
    from .c15 import _swap_events
    prog = ctx.prog
    audited = ("vector.Vector.__setitem__", "vector.Vector._promote", "vector.Vector.__init__", "table.Table._replace_column")
    promote_bare = False
    for q in ("vector.Vector.__setitem__", "vector.Vector._promote"):
        f = prog.func(q)
        it = interp_of(prog, f)
        unprotected = []
        for s_, X, v in _swap_events(it):
            if v is None:
                continue
            why = _followed_by_invalidation(it, s_, X)
            if why:
                unprotected.append((s_, why))
        if q.endswith("_promote"):
            promote_bare = bool(unprotected)
        else:
            ctx.ob("a.vector-coherence", f, "store-then-invalidate", not unprotected,
                   "the storage swap is followed by _invalidate_fp() on every path to exit",
                   unprotected[0][0].node if unprotected else f.node,
                   message="a write can leave a previously cached fingerprint in place: after `"
                           + (show(unprotected[0][0].term, it)[:50] if unprotected else "") + " = ...` "
                           + (unprotected[0][1] if unprotected else ""))
    # any OTHER function storing a Vector's storage outside constructors
    for g, node, val in _field_stores(prog, "_underlying"):
        if g.qualname in audited:
            continue
        from ..symx import baseline_functions
        if g.qualname not in baseline_functions():
            # a helper introduced later: its stores appear in line in the logs of the audited functions that call it; called from
            # anywhere else (or from nowhere the audit sees), its own swaps must be followed by the invalidation themselves
            from .c01 import reduce_to_callers
            if not reduce_to_callers(prog, {g.qualname}, set(audited)) - set(audited):
                continue
            gi = interp_of(prog, g)
            bare = [(s_, _followed_by_invalidation(gi, s_, X)) for s_, X, v in _swap_events(gi) if v is not None]
            bare = [(s_, why) for s_, why in bare if why]
            ctx.ob("a.vector-coherence", g, "store-then-invalidate", not bare,
                   "a storage swap in a helper outside the audited writers is followed by _invalidate_fp() on every path",
                   bare[0][0].node if bare else node,
                   message=f"{g.qualname} replaces a vector's storage and can leave a previously cached fingerprint in place: "
                           + (bare[0][1] if bare else ""))
            continue
        ctx.ob("a.vector-coherence", g, "unexpected-store", False, "", node,
               message=f"{g.qualname} replaces storage outside the audited sites; its memo handling is unknown")
    # _promote: compensated at every call site (or invalidates by itself)
    f = prog.func("vector.Vector._promote")
    if promote_bare:
        n_sites = 0
        for q, it in sorted(standalone_interps(prog).items()):
            g = prog.functions.get(q)
            if g is None:
                continue
            for e in it.events:
                if not (e.kind == "call" and e.term[1][0] == "attr" and e.term[1][2] == "_promote"):
                    continue
                n_sites += 1
                X = e.term[1][1]
                fresh = X[0] == "call" and ((X[1][0] == "attr" and X[1][2] == "copy") or X[1] in (("name", "Vector"), ("name", "Table")))
                why = None if fresh else _followed_by_invalidation(it, e, X)
                ctx.ob("a.vector-coherence", g, f"promote-call:{show(X, it)[:20]}", why is None,
                       f"_promote on `{show(X, it)[:20]}`: " + ("fresh receiver (empty memo)" if fresh else "followed by invalidation on every path"),
                       e.node, message=f"{g.qualname} promotes `{show(X, it)[:30]}` (storage swap without invalidation): {why}")
        if n_sites == 0:
            raise AnalysisError("_promote has no call site")
    else:
        ctx.ob("a.vector-coherence", f, "store-then-invalidate", True, "_promote invalidates by itself")


def _container(ctx) -> None:
    """The fingerprint() a Table resolves to is a recomputation over its columns on every call: it neither reads nor writes a
    memo on the table - on its symx event log."""
    from ..sites2 import interp_of
    from ..symx import show, subterms
    prog = ctx.prog
    fp = prog.method("Table", "fingerprint")
    if fp is None:
        raise AnalysisError("Table has no fingerprint() in its MRO")
    it = interp_of(prog, fp)
    SELF = ("param", fp.params[0])
    problems = []
    if fp.cls != "Table":
        problems.append(f"Table.fingerprint resolves to {fp.qualname}, which memoises in self._fp; a write through a live "
                        f"column view (t.a[0] = 99 -> Vector.__setitem__ on the column) passes through no statement that "
                        f"resets the table's memo")
    memo_fields = set()
    for e in it.events:
        terms = [e.term] + ([e.value] if e.value is not None else []) + [c for c, _ in e.conds]
        for t in terms:
            for x in subterms(t):
                if x[0] == "attr" and x[1] == SELF and x[2] in ("_fp",):
                    memo_fields.add((x[2], getattr(e.node, "lineno", "?")))
        if e.kind == "store" and e.term[0] == "attr" and e.term[1] == SELF:
            problems.append(f"{fp.qualname} stores `self.{e.term[2]}`: a table-level cache of the fingerprint")
        if e.kind == "call" and e.term[1] in (("attr", ("name", "object"), "__setattr__"), ("name", "setattr")) and e.term[2][:1] == (SELF,):
            problems.append(f"{fp.qualname} stores an attribute on the table (`{show(e.term, it)[:40]}`): a table-level cache")
    if memo_fields:
        fld, ln = sorted(memo_fields, key=str)[0]
        problems.append(f"{fp.qualname} reads the memo self.{fld} (line {ln}): the table is not told when a column is written or "
                        f"replaced, so the memo can be stale")
    rets = [e for e in it.events if e.kind == "return" and e.depth == 0]
    full = ("call", ("attr", SELF, "_compute_fingerprint_full"), (), ())
    if fp.cls == "Table":
        for e in rets:
            if e.term != full and e.term[0] != "after":
                problems.append(f"{fp.qualname} may return `{show(e.term, it)[:40]}` instead of the recomputation over the columns")
        if not rets or it.falls_through:
            problems.append(f"{fp.qualname} does not recompute from the columns")
    ctx.ob("b.container", fp, "table-fingerprint", not problems, f"Table.fingerprint -> {fp.qualname}: recomputed on every call",
           fp.node, message="; ".join(problems[:3]))
    # a Row is a view whose index changes (set_index) and that bypasses Vector.__init__ (no _fp attribute): its fingerprint() must
    # resolve to a definition that recomputes on every call too
    rfp = prog.method("Row", "fingerprint")
    rprobs = []
    if rfp is None:
        rprobs.append("Row has no fingerprint() in its MRO")
    elif rfp.cls == "Vector":
        rprobs.append("Row.fingerprint resolves to Vector.fingerprint, which reads self._fp: a Row never gets that attribute (it bypasses "
                      "Vector.__init__), so t[1].fingerprint() raises AttributeError - and a memo would be stale after set_index()")
    else:
        ri = interp_of(prog, rfp)
        RS = ("param", rfp.params[0])
        for e in ri.events:
            for t in [e.term] + ([e.value] if e.value is not None else []) + [c for c, _ in e.conds]:
                if any(x[0] == "attr" and x[1] == RS and x[2] == "_fp" for x in subterms(t)):
                    rprobs.append(f"{rfp.qualname} uses the memo self._fp")
        rr = [e for e in ri.events if e.kind == "return" and e.depth == 0]
        if not rr or ri.falls_through or any(e.term != ("call", ("attr", RS, "_compute_fingerprint_full"), (), ()) and e.term[0] != "after"
                                             for e in rr):
            rprobs.append(f"{rfp.qualname} does not recompute from the row's cells")
    ctx.ob("b.container", rfp or fp, "row-fingerprint", not rprobs, "Row.fingerprint: recomputed on every call", (rfp or fp).node,
           message="; ".join(sorted(set(rprobs))[:2]))


def _content_seed(init, X) -> bool:
    """the start value of a nested fold may depend on the container X only through len(X) and isinstance(X, ...)"""
    from ..symx import subterms

    def uses(t):
        if t == X:
            return True
        if t[0] == "call" and t[1] in (("name", "len"), ("name", "isinstance")) and t[2] and t[2][0] == X:
            return False
        return any(uses(c) for c in t[1:] if isinstance(c, tuple) and c and isinstance(c[0], str)) or \
            any(uses(c2) for c in t[1:] if isinstance(c, tuple) and c and isinstance(c[0], tuple) for c2 in c)
    return not uses(init) and not any(t[0] in ("call",) and t[1][0] == "name" and t[1][1] in FORBIDDEN_SOURCES for t in subterms(init))


def _fold_problems(it, L, acc_name, src_ok, hash_callees) -> List[str]:
    """Is loop L an order-sensitive polynomial fold  acc = (acc * B + H(x)) % P  of the loop's elements, from a constant?"""
    from ..symx import show
    lp = it.loops[L]
    probs = []
    if not src_ok(lp.iter):
        probs.append(f"the fold ranges over `{show(lp.iter, it)[:50]}`, not over all elements in order")
    init, nxt = lp.carried.get(acc_name, (None, None))
    if init is None or (init[0] != "const" and not _content_seed(init, lp.iter)):
        probs.append("accumulator does not start from a constant or from the container's length / type")
    lv = ("loopvar", acc_name, L)
    x = ("elem", lp.iter, L)
    ok = False
    if nxt is not None and nxt[0] == "bin" and nxt[1] == "Mod" and nxt[2][0] == "bin" and nxt[2][1] == "Add":
        for mul, h in ((nxt[2][2], nxt[2][3]), (nxt[2][3], nxt[2][2])):
            if mul[0] == "bin" and mul[1] == "Mult" and lv in (mul[2], mul[3]) and lv not in (h,):
                ok = True
                if not (h[0] == "call" and h[1] in hash_callees and h[2] == (x,) and not h[3]):
                    probs.append(f"the folded term is `{show(h, it)[:50]}`, not _hash_element(<element>)")
    if not ok:
        probs.append(f"accumulator update `{show(nxt, it)[:60] if nxt is not None else '?'}` is not (acc * B + h) % P: element order would "
                     f"not matter")
    if lp.breaks or lp.returns:
        probs.append("the fold can stop before the last element")
    return probs


def _content_only(ctx) -> None:
    from ..sites2 import interp_of
    from ..symx import show
    prog = ctx.prog
    f = prog.func("vector.Vector._compute_fingerprint_full")
    it = interp_of(prog, f)
    S = ("param", f.params[0])
    stor = ("attr", S, "_underlying")
    hash_callees = (("attr", S, "_hash_element"), ("attr", ("name", "Vector"), "_hash_element"))
    problems = []
    rets = [e for e in it.events if e.kind == "return" and e.depth == 0]
    if len(rets) != 1 or rets[0].term[0] != "after":
        problems.append(f"expected one fold loop and `return <accumulator>` (returns `{show(rets[0].term, it)[:50] if rets else '?'}`)")
    else:
        _, acc, L = rets[0].term
        problems += _fold_problems(it, L, acc, lambda src: src == stor, hash_callees)
    problems += _forbidden(f)
    for e in it.events:
        if e.depth > 0 and e.kind == "call" and e.term[1][0] in ("name", "attr"):
            nm = e.term[1][1] if e.term[1][0] == "name" else e.term[1][2]
            if nm in FORBIDDEN_SOURCES:
                problems.append(f"`{show(e.term, it)[:40]}` flows into the fingerprint (identity/time/randomness is not content)")
    ctx.ob("c.content-only", f, "fold", not problems, "order-sensitive fold of _hash_element over all elements", f.node,
           message="; ".join(problems))
    g = prog.func("vector.Vector._hash_element")
    gi = interp_of(prog, g)
    p2 = _forbidden(g)
    X = ("param", g.params[0])
    gh = (("attr", ("name", "Vector"), "_hash_element"), ("name", "_hash_element"), ("attr", ("param", "cls"), "_hash_element"))
    from ..sites2 import leaves as _leaves
    from ..symx import flatten_conds
    from ..symx import subterms as _subterms
    for v in [lf for e in gi.events if e.kind == "return" and e.depth == 0 for lf in _leaves(e.term)]:
        for t in _subterms(v):
            if t[0] == "after":
                p2 += [f"nested fold: {m}" for m in _fold_problems(gi, t[2], t[1], lambda src: src == X, gh)]
    ctx.ob("c.content-only", g, "element-hash", not p2, "_hash_element reads only the element (and class constants)", g.node,
           message="; ".join(p2))
    # hash() of a NaN (float, or complex with a NaN part) is derived from the OBJECT'S ADDRESS (Python >= 3.10): no return that takes
    # hash(x) of the element itself may be reachable for such an x - decided by evaluating the path conditions for the two kinds of NaN
    def reach(conds, kind) -> bool:
        def tr(t):
            k = t[0]
            if k == "bool":
                vs = [tr(x) for x in t[2]]
                if t[1] == "and":
                    return False if any(v is False for v in vs) else (True if all(v is True for v in vs) else None)
                return True if any(v is True for v in vs) else (False if all(v is False for v in vs) else None)
            if k == "un" and t[1] == "Not":
                v = tr(t[2])
                return None if v is None else (not v)
            if k == "cmp" and t[1] in ("Is", "IsNot") and t[2] == X and t[3] == ("const", "NoneType", None):
                return t[1] == "IsNot"
            if k == "cmp" and t[1] in ("NotEq", "Eq") and t[2] == X and t[3] == X:
                return t[1] == "NotEq"
            if k == "call" and t[1] == ("name", "isinstance") and len(t[2]) == 2 and t[2][0] == X:
                c = t[2][1]
                names = {n_[1] for n_ in ([c] if c[0] == "name" else list(c[1]) if c[0] == "tuple" else []) if n_[0] == "name"}
                return kind in names
            if k == "call" and t[1] == ("name", "bool") and len(t[2]) == 1:
                return tr(t[2][0])
            if k == "call" and t[1] in (("attr", ("name", "math"), "isnan"), ("name", "isnan")) and t[2] == (X,):
                return True if kind in ("float", "Decimal") else None
            if k == "call" and t[1] in (("name", "hasattr"), ("name", "callable")):
                return False
            if k == "call" and t[1] == ("name", "_is_hashable") and t[2] == (X,):
                return True
            return None
        return all((tr(t) if pol else (None if tr(t) is None else not tr(t))) is not False for t, pol in conds)
    nanp = []
    from ..sites2 import leaves_with_conds as _lwc
    for e in gi.events:
        if e.kind != "return" or e.depth != 0:
            continue
        # (a conditional return value is judged alternative by alternative, under its own condition)
        for leaf, lconds in _lwc(e.term):
            if not any(t == ("call", ("name", "hash"), (X,), ()) for t in _subterms(leaf)):
                continue
            for kind in ("float", "complex", "Decimal"):       # (Decimal: any other hashable type with a value that is not equal to itself)
                if reach(tuple(e.conds) + tuple(lconds), kind):
                    nanp.append(f"`return {show(leaf, gi)[:40]}` is reached by a {kind} NaN: hash() of a NaN depends on the object's address, "
                                f"so equal contents get different fingerprints")
    # an element is classified by its TYPE, never by an attribute it happens to have: `hasattr(x, 'fingerprint')` takes any object with a
    # method of that name (a certificate, a key) for a nested vector - its own fingerprint() then replaces hash(x) (a constant one hides
    # every change; a string one makes fingerprint() raise)
    duck = [e for e in gi.events for c, _pol in flatten_conds(e.conds) for x_ in _subterms(c)
            if x_[0] == "call" and x_[1] in (("name", "hasattr"), ("name", "getattr")) and x_[2] and x_[2][0] == X]
    ctx.ob("c.content-only", g, "classified-by-type", not duck, "no branch of the element hash depends on hasattr / getattr of the element",
           (duck[0].node if duck else g.node),
           message="Vector._hash_element decides by `hasattr(x, ...)`: an element of any class that happens to have that attribute (a method named "
                   "fingerprint) is hashed through it, not by its value - equal / unequal contents no longer decide the fingerprint")
    ctx.ob("c.content-only", g, "nan-by-value", not nanp, "no hash(x) is taken of a float / complex / Decimal NaN", g.node, message="; ".join(nanp[:2]))


_M64 = 2 ** 64 - 1


class _NotInjective(Exception):
    pass


def _konst(prog, module, t):
    """integer value of a literal or module-level integer constant"""
    from ..core import module_binding
    if t[0] == "const" and isinstance(t[2], int) and not isinstance(t[2], bool):
        return t[2]
    if t[0] == "name":
        mb = module_binding(prog, module, t[1])
        if mb and mb[0] == "constant":
            try:
                v = ast.literal_eval(mb[1])
            except Exception:
                try:
                    v = eval(compile(ast.Expression(mb[1]), "<const>", "eval"), {"__builtins__": {}}) \
                        if all(isinstance(n, (ast.Expression, ast.BinOp, ast.Constant, ast.operator, ast.UnaryOp, ast.unaryop))
                               for n in ast.walk(mb[1])) else None
                except Exception:
                    v = None
            if isinstance(v, int) and not isinstance(v, bool):
                return v
    return None


def _peel(t, K):
    """Strip 64-bit bijections from the outside of t: -> (source term, steps outermost first).
    Raises _NotInjective for an operator known to merge values."""
    steps = []
    while t[0] == "bin":
        op, a, b = t[1], t[2], t[3]
        ca, cb = K(a), K(b)
        if op == "BitAnd":
            z, c = (a, cb) if cb is not None else (b, ca)
            if c is None:
                raise _NotInjective("`&` of two computed values")
            if c != _M64:
                raise _NotInjective(f"`& {c:#x}` drops bits (only & 2**64-1 keeps a 64-bit hash apart)")
            if z[0] == "bin" and z[1] == "Mult":
                u, m = (z[2], K(z[3])) if K(z[3]) is not None else (z[3], K(z[2]))
                if m is None:
                    raise _NotInjective("product of two computed values")
                if m % 2 == 0:
                    raise _NotInjective(f"multiplication by the even number {m} modulo 2**64 loses the top bit")
                steps.append(("mul", m))
                t = u
                continue
            if z[0] == "bin" and z[1] in ("Add", "Sub") and (K(z[2]) is None) != (K(z[3]) is None):
                steps.append(("add",))
                t = z[2] if K(z[3]) is not None else z[3]
                continue
            steps.append(("mask",))
            t = z
            continue
        if op == "BitXor":
            if (ca is None) != (cb is None):
                c = ca if ca is not None else cb
                if not 0 <= c <= _M64:
                    raise _NotInjective(f"xor with {c} leaves the 64-bit range")
                steps.append(("xor", c))
                t = b if ca is not None else a
                continue
            for z, sh in ((a, b), (b, a)):
                if sh[0] == "bin" and sh[1] == "RShift" and sh[2] == z and K(sh[3]) is not None:
                    if not 1 <= K(sh[3]) <= 63:
                        raise _NotInjective(f"z ^ (z >> {K(sh[3])}) is not a bijection of 64-bit integers")
                    steps.append(("xorshift", K(sh[3])))
                    t = z
                    break
            else:
                raise _NotInjective("xor of two different computed values")
            continue
        names = {"Mod": "%", "FloorDiv": "//", "RShift": ">>", "BitOr": "|", "LShift": "<<", "Mult": "* (unmasked)", "Add": "+",
                 "Sub": "-", "Pow": "**", "Div": "/"}
        raise _NotInjective(f"`{names.get(op, op)}` applied to the element hash merges values")
    if t[0] == "call" and t[1][0] == "name" and t[1][1] in ("abs", "min", "max", "round", "bool", "divmod", "pow"):
        raise _NotInjective(f"`{t[1][1]}()` applied to the element hash merges values")
    if t[0] == "un":
        raise _NotInjective(f"unary `{t[1]}` applied to the element hash leaves the 64-bit range")
    return t, steps


def _arith_only(f: FuncInfo) -> bool:
    """a straight-line function of integer arithmetic on its parameters: local (aug)assignments of operator expressions, one return"""
    body = [st for st in f.node.body if not (isinstance(st, ast.Expr) and isinstance(st.value, ast.Constant))]
    if not body or not isinstance(body[-1], ast.Return) or body[-1].value is None:
        return False
    for st in body:
        if isinstance(st, ast.Assign) and all(isinstance(t, ast.Name) for t in st.targets):
            v = st.value
        elif isinstance(st, ast.AugAssign) and isinstance(st.target, ast.Name):
            v = st.value
        elif isinstance(st, ast.AnnAssign) and isinstance(st.target, ast.Name) and st.value is not None:
            v = st.value
        elif isinstance(st, ast.Return):
            v = st.value
        else:
            return False
        if not all(isinstance(n, (ast.BinOp, ast.UnaryOp, ast.Name, ast.Constant, ast.operator, ast.unaryop, ast.expr_context))
                   for n in ast.walk(v)):
            return False
    return True


def _scatter(ctx) -> None:
    """C16.f: the bug-hunt family BH09-2/4/5/7 - the fingerprint folded RAW hashes (hash(int) == int, reduced mod P: -5 ~ P-5; linear
    in the data: [a, b] ~ [a+d, b-d*B]), RAW child fingerprints (same base at both levels: a 2x2 table ~ its transpose) and unseeded
    nested folds (5 ~ (5,) ~ [5], () ~ 0).  Decided on the return terms of _hash_element."""
    from ..sites2 import interp_of
    from ..sites2 import leaves as _leaves
    from ..symx import show, subterms
    prog = ctx.prog
    from ..symx import Interp, default_inline
    g = prog.func("vector.Vector._hash_element")
    base_pred = default_inline(prog)
    # integer mixers are evaluated in line whether or not the reference tree already had them
    gi = Interp(prog, g, inline=lambda f: base_pred(f) or _arith_only(f))
    X = ("param", g.params[0])
    gh = (("attr", ("name", "Vector"), "_hash_element"), ("name", "_hash_element"), ("attr", ("param", "cls"), "_hash_element"))

    def K(t):
        return _konst(prog, g.module, t)
    sentinels = []
    seeds = []
    n = 0
    for e in gi.events:
        if e.kind != "return" or e.depth != 0:
            continue
        for v in _leaves(e.term):
            n += 1
            role = f"return:{n}"
            c = K(v)
            if c is not None:
                ok = 0 <= c <= _M64 and c not in sentinels
                ctx.ob("f.scatter", g, role, ok, f"sentinel {c:#x} (distinct, 64-bit)", e.node,
                       message=f"sentinel {c} " + ("repeats another sentinel: two kinds of value share one hash" if c in sentinels
                                                   else "is outside the 64-bit range of the scattered hashes"))
                sentinels.append(c)
                continue
            try:
                src, steps = _peel(v, K)
                # _mix64(A if c else B): each alternative is a source of its own under the same outer steps
                alts = []
                for alt in _leaves(src):
                    s2, st2 = _peel(alt, K)
                    alts.append((s2, steps + st2))
            except _NotInjective as ex:
                ctx.ob("f.scatter", g, role, False, "", e.node,
                       message=f"`return {show(v, gi)[:60]}`: {ex}: distinct values that Python's hash() tells apart (5 / -5) "
                               f"would share a fingerprint")
                continue
            for k_, (src, steps) in enumerate(alts):
                _judge_source(ctx, g, gi, e, v, role if len(alts) == 1 else f"{role}.{k_ + 1}", src, steps, gh, seeds)
    # container types sharing a fold must be told apart by the seed
    for e, lp, init in seeds:
        types = []
        for c, pol in e.conds:
            if pol and c[0] == "call" and c[1] == ("name", "isinstance") and len(c[2]) == 2 and c[2][0] == lp.iter:
                tt = c[2][1]
                types = [x[1] for x in (tt[1] if tt[0] == "tuple" else (tt,)) if x[0] == "name"]
        variants = {}
        for ty in types:
            variants[ty] = _assume_type(init, lp.iter, ty)
        distinct = len({_freeze(v) for v in variants.values()}) == len(variants)
        ctx.ob("f.scatter", g, f"seed:{'/'.join(types) or '?'}", distinct and bool(types),
               f"nested fold over {'/'.join(types)}: seeded by len() and a per-type tag", e.node,
               message=f"the fold over {' and '.join(types) or 'the container'} starts from the same value for each type: (1, 2) and "
                       f"[1, 2] are unequal but share a hash")


def _judge_source(ctx, g, gi, e, v, role, src, steps, gh, seeds) -> None:
    from ..symx import show, subterms
    kind = None
    if src[0] == "call" and src[1] == ("name", "hash") and len(src[2]) == 1 and not src[3]:
        kind = "hash"
    elif src[0] == "call" and src[1] == ("name", "int") and len(src[2]) == 1 and src[2][0][0] == "call" \
            and src[2][0][1][0] == "attr" and src[2][0][1][2] == "fingerprint":
        kind = "child fingerprint"
    elif src[0] == "after":
        kind = "nested fold"
    elif src[0] == "call" and src[1] in gh:
        kind = "element hash of a rebuilt value"
    if kind is None:
        raise AnalysisError(f"{g.qualname}: `return {show(v, gi)[:70]}`: source `{show(src, gi)[:50]}` is neither hash(), a child "
                            f"fingerprint, a nested fold nor a recursive element hash; its injectivity is not decided")
    probs = []
    inner_first = list(reversed(steps))
    # range discipline: xor / xor-shift are bijections of [0, 2**64) only: a signed hash() must be masked (or multiplied) first
    signed = kind == "hash"
    for st in inner_first:
        if st[0] in ("mask", "mul", "add"):
            signed = False
        elif signed:
            probs.append(f"{st[0]} applied to the signed hash() before it is reduced to 64 bits")
            break
    if not any(st[0] == "xorshift" for st in steps) or not any(st[0] == "mul" and st[1] not in (1, _M64) for st in steps):
        probs.append(f"the {kind} enters the linear fold "
                     + ("raw" if not steps else "without a xor-shift and an odd multiplication")
                     + {"hash": ": hash(int) is the int itself, so -5 and 2**61-6 are merged by `% P` and [a, b] ~ [a+d, b-d*B]",
                        "child fingerprint": ": the table fold and the column fold are one polynomial in the same base, so the "
                                             "weight of a cell depends on row+column only (a 2x2 table ~ its transpose)",
                        "nested fold": ": a container and its only item / the same items one level up share a hash",
                        "element hash of a rebuilt value": ": the value and the value it is rebuilt as ({1, 2} / (1, 2)) share a hash"}[kind])
    if kind == "element hash of a rebuilt value":
        # the value is rebuilt from PARTS of the element (a complex number as its two floats): the parts must determine it - every
        # part the element's type consists of is there, or two unequal elements are rebuilt as the same value
        X_ = ("param", g.params[0])
        parts_, whole_ = set(), False

        def walk_(t, under_attr=False):
            nonlocal whole_
            if t == X_:
                if not under_attr:
                    whole_ = True
                return
            if not isinstance(t, tuple):
                return
            if t and t[0] == "attr" and len(t) == 3 and t[1] == X_:
                parts_.add(t[2])
                return
            if t and t[0] == "const":
                return
            for y in t:
                walk_(y)
        for a_ in src[2]:
            walk_(a_)
        from ..symx import flatten_conds as _fcx
        is_complex = any(pol and c[0] == "call" and c[1] == ("name", "isinstance") and len(c[2]) == 2 and c[2][0] == X_
                         and c[2][1] == ("name", "complex") for c, pol in _fcx(e.conds))
        if is_complex and not whole_ and parts_ and not {"real", "imag"} <= parts_:
            probs.append(f"a complex element is rebuilt from {sorted(parts_)} only: complex(nan, 1) and complex(nan, 2) are unequal but "
                         f"rebuilt as the same value - a write of the one over the other leaves the fingerprint unchanged")
    if kind == "nested fold":
        lp = gi.loops[src[2]]
        init = lp.carried.get(src[1], (None, None))[0]
        ln = ("call", ("name", "len"), (lp.iter,), ())
        if init is None or ln not in list(subterms(init)):
            probs.append("the nested fold does not start from the container's length: () ~ (0,) ~ 0 and (1, 2) ~ (0, 1, 2)")
        else:
            seeds.append((e, lp, init))
    ctx.ob("f.scatter", g, role, not probs, f"{kind}: " + " . ".join(
        f"{st[0]}{'' if len(st) == 1 else ' ' + (hex(st[1]) if st[0] != 'xorshift' else str(st[1]))}" for st in inner_first),
        e.node, message=f"`return {show(v, gi)[:50]}`: " + "; ".join(probs))


def _freeze(t):
    return repr(t)


def _assume_type(t, X, ty):
    """t with every `A if isinstance(X, C) else B` resolved for X of exact builtin type ty"""
    if not isinstance(t, tuple):
        return t
    if t and t[0] == "ifexp" and t[1][0] == "call" and t[1][1] == ("name", "isinstance") and len(t[1][2]) == 2 and t[1][2][0] == X:
        tt = t[1][2][1]
        names = [x[1] for x in (tt[1] if tt[0] == "tuple" else (tt,)) if x[0] == "name"]
        return _assume_type(t[2] if ty in names else t[3], X, ty)
    return tuple(_assume_type(c, X, ty) for c in t)


def _forbidden(f: FuncInfo) -> List[str]:
    out = []
    for n in walk_no_nested(f.node):
        if isinstance(n, ast.Call):
            ch = attr_chain(n.func)
            if ch and ch[-1] in FORBIDDEN_SOURCES:
                out.append(f"`{short(n, 40)}` flows into the fingerprint (identity/time/randomness is not content)")
        if isinstance(n, ast.Attribute) and n.attr in FORBIDDEN_ATTRS:
            out.append(f"`{short(n, 40)}` is read by {f.name}: the fingerprint would depend on more than contents")
    return out


def _memo(ctx) -> None:
    from ..sites2 import standalone_interps
    from ..symx import NONE as SNONE
    from ..symx import flatten_conds, show, subterms
    prog = ctx.prog
    sites = []
    for q, it in standalone_interps(prog).items():
        for e in it.events:
            if e.kind == "store" and e.term[0] == "attr" and e.term[2] == "_fp":
                sites.append((prog.functions.get(e.func) or prog.functions[q], it, e))
    if not sites:
        raise AnalysisError("no store to _fp found")
    for f, it, e in sites:
        val = e.value
        obj = e.term[1]
        if any(x == ("attr", obj, "_fp") for x in subterms(val)):
            ctx.ob("d.memo-discipline", f, "fp-store", False, "", e.node,
                   message=f"{f.qualname} patches the memo incrementally (`{show(val, it)[:70]}`): the memo is no longer the full "
                           f"recomputation over the current contents")
            continue
        if val == SNONE:
            ctx.ob("d.memo-discipline", f, f"fp-store:None:{f.name}", f.name in ("__init__", "_invalidate_fp", "__setitem__", "_promote"),
                   f"{f.qualname}: _fp <- None", e.node, message=f"{f.qualname} clears a memo outside the audited sites")
            continue
        problems = []
        if f.qualname != "vector.Vector.fingerprint":
            problems.append(f"{f.qualname} stores a computed value into _fp (`{show(val, it)[:60]}`); only fingerprint() may, and "
                            f"only the full recomputation")
        else:
            if val != ("call", ("attr", obj, "_compute_fingerprint_full"), (), ()):
                problems.append(f"fingerprint() memoises `{show(val, it)[:60]}`, not the full recomputation")
            if (("cmp", "Is", ("attr", obj, "_fp"), SNONE), True) not in flatten_conds(e.conds):
                problems.append("the memo is stored outside `if self._fp is None:`")
            rets = [r for r in it.events if r.kind == "return" and r.depth == 0]
            if not all(r.term == ("attr", obj, "_fp") for r in rets) or it.falls_through:
                problems.append("fingerprint() returns something other than the memo")
        ctx.ob("d.memo-discipline", f, "fp-store:computed", not problems, f"{f.qualname}: _fp <- {show(val, it)[:50]}", e.node,
               message="; ".join(problems))


def _pure(ctx) -> None:
    prog = ctx.prog
    eff = effects_of(prog)
    for q in ("vector.Vector.fingerprint", "vector.Vector._compute_fingerprint_full", "vector.Vector._hash_element",
              "vector.Vector._ensure_fp_powers", "table.Table.fingerprint"):
        if not prog.has_func(q):
            continue
        s = eff.summary(q)
        ws = [w for w in s.writes if w.kind == "content"]
        ctx.ob("e.pure-reads", prog.func(q), "effects", not ws, "writes cache fields only", prog.func(q).node,
               message=f"{q} writes content: " + "; ".join(f"{w.root}.{w.fld} ({w.func}:{w.line})" for w in ws[:3]))


_V = "vector"
MUTANTS = [
    dict(id="nested-vector-by-attribute", module="vector", old="		if isinstance(x, Vector):\n			# (by type, not by attribute",
         new="		if hasattr(x, \"fingerprint\") and callable(getattr(x, \"fingerprint\")):\n			# (by type, not by attribute", rules=["c.content-only"],
         desc="reverts fix 9b51b8c"),
    dict(id="decimal-nan-hashed-by-identity", module="vector", old="			if _is_nan_like(x):\n", new="			if False:\n",
         rules=["c.content-only"], desc="reverts fix 5829442"),
    dict(id="setitem-no-invalidate", module=_V, old="		self._invalidate_fp()\n		_alias.register", new="		_alias.register",
         rules=["a.vector-coherence"]),
    dict(id="setitem-invalidate-conditional", module=_V, old="		self._invalidate_fp()\n		_alias.register",
         new="		if updates:\n			self._invalidate_fp()\n		_alias.register", rules=["a.vector-coherence"],
         desc="no-op writes keep the memo - but a promotion without updates would too"),
    dict(id="promote-from-new-site", module=_V,
         old="		# dtype DOES NOT change — preserving nullability and kind\n",
         new="		if self._dtype is not None and self._dtype.kind is int and reverse is None:\n			self._promote(float)\n",
         rules=["a.vector-coherence"]),
    dict(id="table-fingerprint-memo-again", module="table",
         old="		return self._compute_fingerprint_full()\n\n	def _build_column_map",
         new="		if self._fp is None:\n			self._fp = self._compute_fingerprint_full()\n		return self._fp\n\n	def _build_column_map",
         rules=["b.container", "d.memo-discipline"]),
    # (reverting only the complex-NaN branch of 0d74e37 is harmless since 5829442: a complex NaN then takes the generic not-self-equal
    #  branch; the two together are the violation)
    dict(id="complex-nan-hashed-by-identity", rules=["c.content-only"],
         edits=[(_V, "		if isinstance(x, complex) and x != x:\n", "		if False:\n", 1), (_V, "			if _is_nan_like(x):\n", "			if False:\n", 1)],
         desc="reverts the complex-NaN fix and the generic NaN branch"),
    dict(id="float-nan-hashed-by-identity", module=_V, old="			if math.isnan(x):\n				return 0xDEADBEEFCAFEBABE\n", new="", rules=["c.content-only"]),
    dict(id="row-fingerprint-inherited", module="table", old="	def fingerprint(self):\n		# never memoised: the same Row object",
         new="	def _unused_fingerprint(self):\n		# never memoised: the same Row object", rules=["b.container"], desc="reverts fix 71ab607"),
    dict(id="table-fingerprint-removed", module="table",
         old="		return self._compute_fingerprint_full()\n\n	def _build_column_map",
         new="		return Vector.fingerprint(self)\n\n	def _build_column_map", rules=["b.container"]),
    dict(id="fold-commutative", module=_V, old="			total = (total * B + h) % P\n		return total",
         new="			total = (total + h) % P\n		return total", rules=["c.content-only"]),
    dict(id="id-in-hash-element", module=_V, old="			return _mix64(hash(x))\n\n		return _mix64(hash(repr(x)))",
         new="			return _mix64(hash(x))\n\n		return _mix64(id(x))", rules=["c.content-only"]),
    dict(id="leaf-hash-raw", module=_V, old="			return _mix64(hash(x))\n\n		return _mix64(hash(repr(x)))",
         new="			return hash(x)\n\n		return _mix64(hash(repr(x)))", rules=["f.scatter"],
         desc="reverts 17c195f for leaves: -5 ~ 2**61-6, [a, b] ~ [a+d, b-d*B] (BH09-5, BH09-7)"),
    dict(id="child-fingerprint-raw", module=_V, old="			return _mix64(int(x.fingerprint()) ^ _FP_TAG_VECTOR)",
         new="			return int(x.fingerprint())", rules=["f.scatter"], desc="a 2x2 table ~ its transpose (BH09-2)"),
    dict(id="nested-fold-unseeded", module=_V,
         old="			h = _mix64(len(x) ^ (_FP_TAG_LIST if isinstance(x, list) else _FP_TAG_TUPLE)) % P", new="			h = 0",
         rules=["f.scatter"], desc="() ~ (0,) (BH09-4)"),
    dict(id="nested-fold-seed-without-type", module=_V,
         old="			h = _mix64(len(x) ^ (_FP_TAG_LIST if isinstance(x, list) else _FP_TAG_TUPLE)) % P",
         new="			h = _mix64(len(x) ^ _FP_TAG_LIST) % P", rules=["f.scatter"], desc="(1, 2) ~ [1, 2] (BH09-4)"),
    dict(id="nested-fold-returned-raw", module=_V, old="				h = (h * B + Vector._hash_element(elem)) % P\n			return _mix64(h)",
         new="				h = (h * B + Vector._hash_element(elem)) % P\n			return h", rules=["f.scatter"]),
    dict(id="set-hashed-as-its-tuple", module=_V, old="			return _mix64(Vector._hash_element(tuple(rep)) ^ _FP_TAG_SET)",
         new="			return Vector._hash_element(tuple(rep))", rules=["f.scatter"], desc="{1, 2} ~ (1, 2) (BH09-4)"),
    dict(id="mixer-even-multiplier", module=_V, old="	z = (z * 0xBF58476D1CE4E5B9) & _MASK64", new="	z = (z * 0xBF58476D1CE4E5B8) & _MASK64",
         rules=["f.scatter"], desc="an even multiplier modulo 2**64 merges z and z + 2**63"),
    dict(id="mixer-abs", module=_V, old="	z &= _MASK64\n	z ^= z >> 30", new="	z = abs(z)\n	z ^= z >> 30", rules=["f.scatter"],
         desc="5 and -5"),
    dict(id="mixer-truncates", module=_V, old="	z ^= z >> 31\n	return z", new="	z ^= z >> 31\n	return z & 0xFFFFFFFF", rules=["f.scatter"]),
    dict(id="mixer-identity", module=_V, old="	z ^= z >> 30\n	z = (z * 0xBF58476D1CE4E5B9) & _MASK64\n	z ^= z >> 27\n	z = (z * 0x94D049BB133111EB) & _MASK64\n	z ^= z >> 31\n	return z",
         new="	return z", rules=["f.scatter"], desc="the fold is linear in hash(int) == int again"),
    dict(id="mixer-shift-not-xorshift", module=_V, old="	z ^= z >> 27", new="	z = z >> 27", rules=["f.scatter"]),
    dict(id="nan-sentinel-equals-none-sentinel", module=_V, old="				return 0xDEADBEEFCAFEBABE", new="				return 0x9E3779B97F4A7C15",
         rules=["f.scatter"], desc="None and NaN share a hash: v[i] = nan over None is not noticed"),
    dict(id="twin-mixer-murmur3", module=_V, twin=True,
         edits=[(_V, "	z ^= z >> 30\n	z = (z * 0xBF58476D1CE4E5B9) & _MASK64\n	z ^= z >> 27\n	z = (z * 0x94D049BB133111EB) & _MASK64\n	z ^= z >> 31\n	return z",
                 "	z = z ^ (z >> 33)\n	z = (0xFF51AFD7ED558CCD * z) & _MASK64\n	z = z ^ (z >> 33)\n	return ((z * 0xC4CEB9FE1A85EC53) & _MASK64) ^ (((z * 0xC4CEB9FE1A85EC53) & _MASK64) >> 33)", 1)]),
    dict(id="twin-list-tuple-own-branches", module=_V, twin=True,
         edits=[(_V, "			h = _mix64(len(x) ^ (_FP_TAG_LIST if isinstance(x, list) else _FP_TAG_TUPLE)) % P\n			for elem in x:\n				h = (h * B + Vector._hash_element(elem)) % P\n			return _mix64(h)",
                 "			tag = _FP_TAG_TUPLE\n			if isinstance(x, list):\n				tag = _FP_TAG_LIST\n			h = _mix64(tag ^ len(x)) % P\n			for elem in x:\n				h = (Vector._hash_element(elem) + h * B) % P\n			return _mix64(h)", 1)]),
    dict(id="name-in-fingerprint", module=_V, old="		total = 0\n		for x in self._underlying:\n			h = self._hash_element(x)",
         new="		total = hash(self._name) % P\n		for x in self._underlying:\n			h = self._hash_element(x)", rules=["c.content-only"]),
    dict(id="incremental-fp-patch", module=_V, old="		self._invalidate_fp()\n		_alias.register",
         new="		if self._fp is not None and len(updates) == 1:\n			self._fp = (self._fp + 1) % self._FP_P\n		else:\n			self._invalidate_fp()\n		_alias.register",
         rules=["a.vector-coherence", "d.memo-discipline"]),
    dict(id="fold-skips-first", module=_V, old="		for x in self._underlying:\n			h = self._hash_element(x)",
         new="		for x in self._underlying[1:]:\n			h = self._hash_element(x)", rules=["c.content-only"]),
    dict(id="twin-rename-total", module=_V, twin=True,
         edits=[(_V, "		total = 0\n		for x in self._underlying:\n			h = self._hash_element(x)\n			total = (total * B + h) % P\n		return total",
                 "		acc = 0\n		for elem in self._underlying:\n			acc = (acc * B + self._hash_element(elem)) % P\n		return acc", 1)]),
]

"""C16 - fingerprints track content: never stale, and they notice every change.

A cache-coherence property: fingerprint() returns a memo (_fp); it is a function of the
current contents iff the memo is never read while stale.
"""
from __future__ import annotations

import ast
from typing import List, Optional

from ..astutil import Defs
from ..cfg import cfg_of, reaching_defs
from ..core import AnalysisError, FuncInfo, attr_chain, short, walk_no_nested, walk_stmts
from ..effects import effects_of
from .c01 import _field_stores, _fresh_vector_expr
from .c15 import storage_store_nodes

FORBIDDEN_SOURCES = {"id", "time", "random", "getpid", "urandom", "uuid4", "perf_counter", "monotonic", "now", "today"}
FORBIDDEN_ATTRS = {"_name", "_dtype", "_display_as_row", "_wild", "_fp_powers"}


def _invalidates(node, obj: str) -> bool:
    st = node.ast
    if node.kind != "stmt" or st is None:
        return False
    if isinstance(st, ast.Expr) and isinstance(st.value, ast.Call):
        ch = attr_chain(st.value.func)
        if ch and ch[-1] == "_invalidate_fp" and ".".join(ch[:-1]) == obj:
            return True
    if isinstance(st, ast.Assign) and len(st.targets) == 1 and isinstance(st.targets[0], ast.Attribute) \
            and st.targets[0].attr == "_fp" and short(st.targets[0].value) == obj \
            and isinstance(st.value, ast.Constant) and st.value.value is None:
        return True
    return False


def run(ctx) -> None:
    ctx.rule("a.vector-coherence", "every store to a Vector's _underlying outside its constructor is followed on every path "
                                   "to exit by an invalidation of the memo on the same object, or the function swaps storage "
                                   "without invalidating and EVERY call site is followed by an invalidation / has a FRESH receiver", 2)
    ctx.rule("b.container", "the fingerprint() a Table resolves to (MRO) neither reads nor writes a memo: columns are live "
                            "views that can be written without the table being told", 1)
    ctx.rule("c.content-only", "the value folded by _compute_fingerprint_full/_hash_element depends on the elements of "
                               "_underlying, in order (accumulator multiplied before the element hash is added), and on "
                               "class constants only - never on id(), names, dtypes, time or randomness", 2)
    ctx.rule("d.memo-discipline", "the only non-None store to _fp is in fingerprint() itself, of the full recomputation, "
                                  "under `_fp is None`; _invalidate_fp stores None", 3)
    ctx.rule("e.pure-reads", "fingerprint and its helpers write cache fields only", 4)
    ctx.section("a", _coherence, ctx)
    ctx.section("b", _container, ctx)
    ctx.section("c", _content_only, ctx)
    ctx.section("d", _memo, ctx)
    ctx.section("e", _pure, ctx)
    ctx.not_decided.append("collision behaviour of hash() (the statement already excludes pairs such as -1/-2)")


def _coherence(ctx) -> None:
    prog = ctx.prog
    swappers = {}
    for q in ("vector.Vector.__setitem__", "vector.Vector._promote"):
        f = prog.func(q)
        cfg = cfg_of(f)
        unprotected = []
        for snode, obj, val in storage_store_nodes(prog, f):
            path = cfg.path_avoiding(snode, [cfg.exit], lambda m, obj=obj: _invalidates(m, obj))
            if path is not None:
                unprotected.append((snode, obj, path))
        swappers[q] = unprotected
        if q.endswith("__setitem__"):
            ok = not unprotected
            ctx.ob("a.vector-coherence", f, "store-then-invalidate", ok,
                   "the storage swap is followed by _invalidate_fp() on every path to exit",
                   unprotected[0][0].ast if unprotected else f.node,
                   message="a write can leave a previously cached fingerprint in place: after `"
                           + (unprotected[0][0].text() if unprotected else "") + "` the path "
                           + (cfg.fmt_path(unprotected[0][2][:6]) if unprotected else "") + " reaches the exit without "
                           "invalidating the memo")
    # also: any OTHER function storing a Vector's storage outside constructors
    for g, node, val in _field_stores(prog, "_underlying"):
        if g.qualname in ("vector.Vector.__setitem__", "vector.Vector._promote", "vector.Vector.__init__",
                          "table.Table._replace_column"):
            continue
        ctx.ob("a.vector-coherence", g, "unexpected-store", False, "", node,
               message=f"{g.qualname} replaces storage outside the audited sites; its memo handling is unknown")
    # _promote: compensated at every call site
    f = prog.func("vector.Vector._promote")
    if swappers["vector.Vector._promote"]:
        n_sites = 0
        for g in prog.functions.values():
            if isinstance(g.node, ast.Lambda):
                continue
            gcfg = cfg_of(g)
            for c in prog.calls_in(g):
                if isinstance(c.func, ast.Attribute) and c.func.attr == "_promote":
                    n_sites += 1
                    recv = short(c.func.value)
                    node = gcfg.enclosing_stmt_node(prog, c)
                    fresh = False
                    if isinstance(c.func.value, ast.Name):
                        defs = reaching_defs(gcfg, c.func.value.id, node)
                        fresh = bool(defs) and all(_fresh_vector_expr(x) for x in defs)
                    path = gcfg.path_avoiding(node, [gcfg.exit], lambda m, recv=recv: _invalidates(m, recv))
                    ok = fresh or path is None
                    ctx.ob("a.vector-coherence", g, f"promote-call:{recv}", ok,
                           f"_promote on `{recv}`: " + ("fresh receiver (empty memo)" if fresh else "followed by invalidation on every path"),
                           c, message=f"{g.qualname} promotes `{recv}` (storage swap without invalidation) and can reach the exit "
                                      f"without clearing its memo: " + (gcfg.fmt_path(path[:6]) if path else ""))
        if n_sites == 0:
            raise AnalysisError("_promote has no call site")
    else:
        ctx.ob("a.vector-coherence", f, "store-then-invalidate", True, "_promote invalidates by itself")


def _container(ctx) -> None:
    prog = ctx.prog
    fp = prog.method("Table", "fingerprint")
    if fp is None:
        raise AnalysisError("Table has no fingerprint() in its MRO")
    reads = [n for n in walk_no_nested(fp.node) if isinstance(n, ast.Attribute) and n.attr in ("_fp",)
             and isinstance(n.value, ast.Name) and n.value.id == "self"]
    # memo through any other attribute written on self
    stores = [n for n in walk_no_nested(fp.node) if isinstance(n, ast.Attribute) and isinstance(n.ctx, ast.Store)
              and isinstance(n.value, ast.Name) and n.value.id == "self"]
    problems = []
    if fp.cls != "Table":
        problems.append(f"Table.fingerprint resolves to {fp.qualname}, which memoises in self._fp; a write through a live "
                        f"column view (t.a[0] = 99 -> Vector.__setitem__ on the column) passes through no statement that "
                        f"resets the table's memo")
    if reads:
        problems.append(f"{fp.qualname} reads the memo self._fp (line {reads[0].lineno}): the table is not told when a column "
                        f"is written or replaced, so the memo can be stale")
    if stores:
        problems.append(f"{fp.qualname} stores `self.{stores[0].attr}`: a table-level cache of the fingerprint")
    # it must be a recomputation over the columns
    rets = [s for s in walk_stmts(fp.body) if isinstance(s, ast.Return)]
    if fp.cls == "Table" and not any(isinstance(r.value, ast.Call) and attr_chain(r.value.func) == ["self", "_compute_fingerprint_full"]
                                     for r in rets) and not any(isinstance(s, ast.For) for s in walk_stmts(fp.body)):
        problems.append(f"{fp.qualname} does not recompute from the columns")
    if fp.cls == "Table":
        # any conditional return of something other than the recomputation is a cache in disguise
        for r in rets:
            if not (isinstance(r.value, ast.Call) and attr_chain(r.value.func) == ["self", "_compute_fingerprint_full"]) \
                    and not isinstance(r.value, ast.Name):
                problems.append(f"{fp.qualname} may return `{short(r.value)}` instead of the recomputation")
    ctx.ob("b.container", fp, "table-fingerprint", not problems, f"Table.fingerprint -> {fp.qualname}: recomputed on every call",
           fp.node, message="; ".join(problems))


def _content_only(ctx) -> None:
    prog = ctx.prog
    f = prog.func("vector.Vector._compute_fingerprint_full")
    problems = []
    loops = [s for s in walk_stmts(f.body) if isinstance(s, ast.For)]
    rets = [s for s in walk_stmts(f.body) if isinstance(s, ast.Return)]
    if len(loops) != 1 or len(rets) != 1 or not isinstance(rets[0].value, ast.Name):
        problems.append("expected one fold loop and `return <accumulator>`")
    else:
        lp = loops[0]
        acc = rets[0].value.id
        if attr_chain(lp.iter) != ["self", "_underlying"] or not isinstance(lp.target, ast.Name):
            problems.append(f"the fold ranges over `{short(lp.iter)}`, not over all elements of self._underlying in order")
        else:
            x = lp.target.id
            d = Defs(f)
            upd = [s for s in lp.body if isinstance(s, ast.Assign) and isinstance(s.targets[0], ast.Name) and s.targets[0].id == acc]
            hdefs = [s for s in lp.body if isinstance(s, ast.Assign) and isinstance(s.targets[0], ast.Name) and s.targets[0].id != acc]
            if len(upd) != 1:
                problems.append("accumulator update not recognised")
            else:
                e = upd[0].value
                # (acc * B + h) % P
                okshape = isinstance(e, ast.BinOp) and isinstance(e.op, ast.Mod) and isinstance(e.left, ast.BinOp) \
                    and isinstance(e.left.op, ast.Add)
                if okshape:
                    mul, h = e.left.left, e.left.right
                    if not (isinstance(mul, ast.BinOp) and isinstance(mul.op, ast.Mult)
                            and any(isinstance(t, ast.Name) and t.id == acc for t in (mul.left, mul.right))):
                        mul, h = e.left.right, e.left.left
                    okshape = isinstance(mul, ast.BinOp) and isinstance(mul.op, ast.Mult) \
                        and any(isinstance(t, ast.Name) and t.id == acc for t in (mul.left, mul.right))
                    if okshape:
                        hv = d.resolve(h) if isinstance(h, ast.Name) else h
                        if isinstance(h, ast.Name):
                            hv = next((s.value for s in hdefs if s.targets[0].id == h.id), hv)
                        if not (isinstance(hv, ast.Call) and attr_chain(hv.func) in (["self", "_hash_element"], ["Vector", "_hash_element"])
                                and len(hv.args) == 1 and isinstance(hv.args[0], ast.Name) and hv.args[0].id == x):
                            problems.append(f"the folded term is `{short(hv)}`, not _hash_element(<element>)")
                if not okshape:
                    problems.append(f"accumulator update `{short(upd[0])}` is not (acc * B + h) % P: element order would not matter")
        init = [s for s in f.body if isinstance(s, ast.Assign) and isinstance(s.targets[0], ast.Name) and s.targets[0].id == acc]
        if not (init and isinstance(init[0].value, ast.Constant)):
            problems.append("accumulator does not start from a constant")
    problems += _forbidden(f)
    ctx.ob("c.content-only", f, "fold", not problems, "order-sensitive fold of _hash_element over all elements", f.node,
           message="; ".join(problems))
    g = prog.func("vector.Vector._hash_element")
    p2 = _forbidden(g)
    x = g.params[0]
    dg = Defs(g)
    for r in [s for s in walk_stmts(g.body) if isinstance(s, ast.Return)]:
        v = r.value
        ok_form = (isinstance(v, ast.Constant) and isinstance(v.value, int)) \
            or (isinstance(v, ast.Call) and short(v.func) == "hash" and len(v.args) == 1) \
            or (isinstance(v, ast.Call) and short(v.func) == "int" and len(v.args) == 1 and short(v.args[0]).endswith(".fingerprint()")) \
            or (isinstance(v, ast.Call) and short(v.func).endswith("_hash_element")) \
            or (isinstance(v, ast.Name) and v.id in dg.assigns)
        if not ok_form:
            p2.append(f"`{short(r, 60)}` post-processes the element hash: a non-injective wrapper (abs, %, &, //) makes distinct values "
                      f"that Python's hash() tells apart (5 / -5) indistinguishable")
    # every return is a constant, hash(x-derived), x.fingerprint(), recursion on x-derived, or the local fold
    ctx.ob("c.content-only", g, "element-hash", not p2, "_hash_element reads only the element (and class constants)", g.node,
           message="; ".join(p2))


def _forbidden(f: FuncInfo) -> List[str]:
    out = []
    for n in walk_no_nested(f.node):
        if isinstance(n, ast.Call):
            ch = attr_chain(n.func)
            if ch and ch[-1] in FORBIDDEN_SOURCES:
                out.append(f"`{short(n, 40)}` flows into the fingerprint (identity/time/randomness is not content)")
        if isinstance(n, ast.Attribute) and n.attr in FORBIDDEN_ATTRS:
            out.append(f"`{short(n, 40)}` is read by {f.name}: the fingerprint would depend on more than contents")
    return out


def _memo(ctx) -> None:
    prog = ctx.prog
    sites = []
    for f in prog.functions.values():
        if isinstance(f.node, ast.Lambda):
            continue
        for st in walk_stmts(f.body):
            tg = st.targets if isinstance(st, ast.Assign) else [st.target] if isinstance(st, (ast.AugAssign, ast.AnnAssign)) else []
            for t in tg:
                if isinstance(t, ast.Attribute) and t.attr == "_fp":
                    sites.append((f, st))
    if not sites:
        raise AnalysisError("no store to _fp found")
    for f, st in sites:
        val = getattr(st, "value", None)
        is_none = isinstance(val, ast.Constant) and val.value is None
        if isinstance(st, ast.AugAssign):
            ctx.ob("d.memo-discipline", f, "fp-store", False, "", st,
                   message=f"{f.qualname} patches the memo incrementally (`{short(st, 70)}`): the memo is no longer the full "
                           f"recomputation over the current contents")
            continue
        if is_none:
            ctx.ob("d.memo-discipline", f, f"fp-store:None:{f.name}", f.name in ("__init__", "_invalidate_fp", "__setitem__", "_promote"),
                   f"{f.qualname}: _fp <- None", st, message=f"{f.qualname} clears a memo outside the audited sites")
            continue
        problems = []
        if f.qualname != "vector.Vector.fingerprint":
            problems.append(f"{f.qualname} stores a computed value into _fp (`{short(val, 60)}`); only fingerprint() may, and "
                            f"only the full recomputation")
        else:
            if not (isinstance(val, ast.Call) and attr_chain(val.func) == ["self", "_compute_fingerprint_full"]):
                problems.append(f"fingerprint() memoises `{short(val, 60)}`, not the full recomputation")
            cfg = cfg_of(f)
            node = cfg.node_of(st)
            guard = [t for t in cfg.nodes if t.kind == "test" and cfg.dominates(t, node) and short(t.ast) == "self._fp is None"]
            if not guard:
                problems.append("the memo is stored outside `if self._fp is None:`")
            rets = [s for s in walk_stmts(f.body) if isinstance(s, ast.Return)]
            if not all(short(r.value) == "self._fp" for r in rets):
                problems.append("fingerprint() returns something other than the memo")
        ctx.ob("d.memo-discipline", f, "fp-store:computed", not problems, f"{f.qualname}: _fp <- {short(val, 50)}", st,
               message="; ".join(problems))


def _pure(ctx) -> None:
    prog = ctx.prog
    eff = effects_of(prog)
    for q in ("vector.Vector.fingerprint", "vector.Vector._compute_fingerprint_full", "vector.Vector._hash_element",
              "vector.Vector._ensure_fp_powers", "table.Table.fingerprint"):
        if not prog.has_func(q):
            continue
        s = eff.summary(q)
        ws = [w for w in s.writes if w.kind == "content"]
        ctx.ob("e.pure-reads", prog.func(q), "effects", not ws, "writes cache fields only", prog.func(q).node,
               message=f"{q} writes content: " + "; ".join(f"{w.root}.{w.fld} ({w.func}:{w.line})" for w in ws[:3]))


_V = "vector"
MUTANTS = [
    dict(id="setitem-no-invalidate", module=_V, old="		self._invalidate_fp()\n		_alias.register", new="		_alias.register",
         rules=["a.vector-coherence"]),
    dict(id="setitem-invalidate-conditional", module=_V, old="		self._invalidate_fp()\n		_alias.register",
         new="		if updates:\n			self._invalidate_fp()\n		_alias.register", rules=["a.vector-coherence"],
         desc="no-op writes keep the memo - but a promotion without updates would too"),
    dict(id="promote-from-new-site", module=_V,
         old="		# dtype DOES NOT change — preserving nullability and kind\n",
         new="		if self._dtype is not None and self._dtype.kind is int and reverse is None:\n			self._promote(float)\n",
         rules=["a.vector-coherence"]),
    dict(id="table-fingerprint-memo-again", module="table",
         old="		return self._compute_fingerprint_full()\n\n	def _build_column_map",
         new="		if self._fp is None:\n			self._fp = self._compute_fingerprint_full()\n		return self._fp\n\n	def _build_column_map",
         rules=["b.container", "d.memo-discipline"]),
    dict(id="table-fingerprint-removed", module="table",
         old="		return self._compute_fingerprint_full()\n\n	def _build_column_map",
         new="		return Vector.fingerprint(self)\n\n	def _build_column_map", rules=["b.container"]),
    dict(id="fold-commutative", module=_V, old="			total = (total * B + h) % P\n		return total",
         new="			total = (total + h) % P\n		return total", rules=["c.content-only"]),
    dict(id="id-in-hash-element", module=_V, old="		if _is_hashable(x):\n			return hash(x)\n",
         new="		if _is_hashable(x):\n			return hash(x)\n		return id(x)\n", rules=["c.content-only"]),
    dict(id="name-in-fingerprint", module=_V, old="		total = 0\n		for x in self._underlying:\n			h = self._hash_element(x)",
         new="		total = hash(self._name) % P\n		for x in self._underlying:\n			h = self._hash_element(x)", rules=["c.content-only"]),
    dict(id="incremental-fp-patch", module=_V, old="		self._invalidate_fp()\n		_alias.register",
         new="		if self._fp is not None and len(updates) == 1:\n			self._fp = (self._fp + 1) % self._FP_P\n		else:\n			self._invalidate_fp()\n		_alias.register",
         rules=["a.vector-coherence", "d.memo-discipline"]),
    dict(id="fold-skips-first", module=_V, old="		for x in self._underlying:\n			h = self._hash_element(x)",
         new="		for x in self._underlying[1:]:\n			h = self._hash_element(x)", rules=["c.content-only"]),
    dict(id="twin-rename-total", module=_V, twin=True,
         edits=[(_V, "		total = 0\n		for x in self._underlying:\n			h = self._hash_element(x)\n			total = (total * B + h) % P\n		return total",
                 "		acc = 0\n		for elem in self._underlying:\n			acc = (acc * B + self._hash_element(elem)) % P\n		return acc", 1)]),
]

"""C13 - window functions keep every row in place and agree with aggregate."""
from __future__ import annotations

import ast

from ..core import AnalysisError
from ..groupsx import GroupModel
from . import grouprules as gr
from . import nameres
from .joinrules import content_writes


def run(ctx) -> None:
    ctx.rule("a.partition", "window partitions exactly like aggregate (same key construction, same bucket discipline) and remembers "
                            "each row's key in the same iteration", 1)
    ctx.rule("b.expansion", "expand_to_rows returns group_map[row_keys[i]] for i in range(nrows) (total, in row order); "
                            "compute_group_values maps each group key to fn(values of the group in row order), fresh per call", 2)
    ctx.rule("b.outputs", "every aggregate output column is expand_to_rows(<its own column's group values>) named after its own column", 6)
    ctx.rule("c.key-columns", "key columns are reproduced unchanged (list(col)) and come first", 1)
    ctx.rule("d.same-aggregators", "the six aggregators are fact-equal to aggregate's and to the spec; output naming and uniquify agree", 9)
    ctx.rule("e.apply", "custom apply: per group fn(values incl. None, row order), expanded to rows, named uniquify(name)", 1)
    ctx.rule("f.guards", "key and aggregated columns are length-checked; names resolve by exact stored name (R-NAME)", 4)
    ctx.rule("g.purity", "window writes no content field of its operands", 1)
    st = {}

    def build():
        st["a"] = GroupModel(ctx.prog, "aggregate")
        try:
            st["w"] = GroupModel(ctx.prog, "window")
        except Exception as e:
            # window's structure is not recognised: fall back to the sibling comparison with aggregate's partition loop
            _partition_sibling_fallback(ctx, st["a"], str(e))
            raise
    ctx.section("extract", build)
    if "w" not in st:
        return
    a, w = st["a"], st["w"]

    def part():
        if w.partition_error:
            _partition_sibling_fallback(ctx, a, w.partition_error)
            raise AnalysisError(w.partition_error)
        probs = w.partition_problems()
        ctx.ob("a.partition", w.f, "partition", not probs, "rows partitioned in row order; row_keys[i] is row i's group key",
               probs[0][1] if probs else w.f.node, message="window: " + "; ".join(p for p, _ in probs))
    ctx.section("partition", part)
    ctx.section("expansion", gr.expansion, ctx, w, "b.expansion")
    ctx.section("flow", gr.group_value_flow, ctx, w, "b.expansion")

    def outputs():
        gr.outputs(ctx, w, "b.outputs")
    ctx.section("outputs", outputs)
    ctx.section("keys", gr.key_columns, ctx, w, "c.key-columns")
    ctx.section("exit", gr.single_exit, ctx, w, "c.key-columns")
    ctx.section("aggregators", gr.aggregator_table, ctx, w, "d.same-aggregators")

    def sib():
        class Px:
            prog = ctx.prog

            def ob(self, rule, func, role, ok, what, node=None, message="", witness=""):
                if role.startswith("window~"):
                    return ctx.ob("d.same-aggregators", func, role, ok, what, node, message, witness)
                return ok
        gr.siblings(Px(), a, w, "x", with_vector=False)
    ctx.section("siblings", sib)
    ctx.section("naming", gr.naming_kernel, ctx, a, w, "d.same-aggregators")
    ctx.section("apply", gr.apply_block, ctx, w, "e.apply")
    ctx.section("guards", gr.key_length_guards, ctx, w, "f.guards")
    ctx.section("names", nameres.check, ctx, "f.guards")

    def pure():
        ws = content_writes(ctx.prog, w.f.qualname)
        ctx.ob("g.purity", w.f, "purity", not ws, "no content write on operands", w.f.node,
               message="window modifies its operands: " + "; ".join(f"{x.root}.{x.fld} at {x.func.split('.')[-1]}:{x.line}" for x in ws[:3]))
    ctx.section("purity", pure)
    ctx.not_decided.append("value equality with an actual aggregate + join-back")


def _partition_sibling_fallback(ctx, a, why: str) -> None:
    f = ctx.prog.func("table.Table.window")
    ctx.ob("a.partition", f, "partition", False, "", f.node,
           message=f"window does not partition the rows the way aggregate does (its own structure is not recognised: {why}); rows would "
                   f"not receive the value aggregate computes for their group")


_T = "table"
MUTANTS = [
    dict(id="window-key-names-left-to-right", module="table", old='\t\t\tif col._name is not None and col._name not in kept_names:\n\t\t\t\tkept_names.add(col._name)\n\t\t\t\tkey_name = col._name\n\t\t\telse:\n\t\t\t\t# (\'\' is a name like any other)\n\t\t\t\tkey_name = uniquify(col._name if col._name is not None else "key")\n', new='\t\t\tkey_name = uniquify(col._name if col._name is not None else "key")\n',
         rules=["c.key-columns"], desc="reverts fix 0eb5be7 (the loop; the reservation alone does not keep a key's name)"),
    dict(id="expand-skips-last-row", module=_T, old="			return [group_map[row_keys[i]] for i in range(nrows)]",
         new="			return [group_map[row_keys[i]] for i in range(nrows - 1)] + [None]", rules=["b.expansion"]),
    dict(id="expand-in-group-order", module=_T, old="			return [group_map[row_keys[i]] for i in range(nrows)]",
         new="			return [group_map[k] for k, rows in group_items for _ in rows]", rules=["b.expansion"]),
    dict(id="row-keys-outside-loop", module=_T, old="			key = tuple(over_data[k][i] for k in range(pk_len))\n			row_keys[i] = key\n",
         new="			key = tuple(over_data[k][i] for k in range(pk_len))\n", rules=["a.partition"]),
    dict(id="window-key-column-sorted", module=_T, old="			result_cols.append(Vector(list(col), dtype=col._dtype, name=key_name))",
         new="			result_cols.append(Vector(sorted(col), dtype=col._dtype, name=key_name))", rules=["c.key-columns"]),
    dict(id="window-key-column-reinferred", module=_T, old="			result_cols.append(Vector(list(col), dtype=col._dtype, name=key_name))", new="			result_cols.append(Vector(list(col), name=key_name))",
         rules=["c.key-columns"], desc="reverts the fix: a masked <int?> key comes out <int>, an all-None typed key <object?>"),
    dict(id="window-key-name-falsy", module=_T, count=2, nth=1, old="col._name if col._name is not None else \"key\"", new="col._name or \"key\"",
         rules=["c.key-columns"], desc="a key column named '' is renamed to 'key'"),
    dict(id="window-name-bypasses-uniquify", module=_T, old="					Vector(expand_to_rows(gm), name=uniquify(sanitize(col, \"max\")))",
         new="					Vector(expand_to_rows(gm), name=sanitize(col, \"max\"))", rules=["b.outputs", "d.same-aggregators"]),
    dict(id="window-stdev-one-pass", module=_T,
         old="					mean_val = sum(clean) / n\n					return (sum((v - mean_val) * (v - mean_val) for v in clean) / (n - 1)) ** 0.5",
         new="					s1 = sum(clean)\n					s2 = sum(v * v for v in clean)\n					return (max(s2 - s1 * s1 / n, 0) / (n - 1)) ** 0.5",
         rules=["d.same-aggregators"]),
    dict(id="window-uniquify-counter", module=_T,
         old="			i = 2\n			while f\"{name}{i}\" in used:\n				i += 1\n			final = f\"{name}{i}\"\n			used.add(final)\n			return final",
         new="			i = len([u for u in used if u.startswith(name)]) + 1\n			final = f\"{name}{i}\"\n			used.add(final)\n			return final",
         rules=["d.same-aggregators"]),
    dict(id="group-values-memo-by-name", module=_T,
         old="		def compute_group_values(col, fn):\n			data = col._underlying\n			out = {}",
         new="		_gv_cache = {}\n		def compute_group_values(col, fn):\n			if col._name in _gv_cache:\n				return _gv_cache[col._name]\n			data = col._underlying\n			out = {}",
         rules=["b.expansion"]),
    dict(id="window-mean-output-from-sum-groupmap", module=_T,
         old="				gm = compute_group_values(col, fn)\n				result_cols.append(\n					Vector(expand_to_rows(gm), name=uniquify(sanitize(col, \"mean\")))",
         new="				gm2 = compute_group_values(col, fn)\n				result_cols.append(\n					Vector(expand_to_rows(gm), name=uniquify(sanitize(col, \"mean\")))",
         rules=["b.outputs"]),
    dict(id="twin-rename-row-keys", module=_T, twin=True, edits=[(_T, "row_keys", "key_of_row", 3)]),
]

"""C20 - repr never fails and never misstates shape, dtype or data.

Decided clauses: partial operations on element values are guarded, tail slices cannot wrap
(x[-0:] is the whole sequence), reductions / first-element reads over possibly empty sequences
are guarded, the footer reads the object and ALL columns (never the truncated preview), the
preview is symmetric with one halving of the row budget on every path, headers show stored
names, repr is pure.
"""
from __future__ import annotations

import ast
from typing import List, Optional, Set, Tuple

from ..astutil import Defs
from ..cfg import PARAM, cfg_of, reaching_def_nodes
from ..core import AnalysisError, FuncInfo, attr_chain, cshort, kwarg, short, walk_no_nested, walk_stmts
from ..effects import effects_of

PARTIAL_ON_FLOAT = {"int", "round", "math.floor", "math.ceil", "math.trunc"}


def run(ctx) -> None:
    ctx.rule("a.partial-ops", "in the display code int()/round()/floor() of an element value is preceded, in the same short-circuit "
                              "condition or by a dominating test, by a finiteness test of that value (nan/inf would raise)", 1)
    ctx.rule("b.tail-slice", "every slice x[-e:] with a non-literal e has e provably >= 1 (max(<positive>, ...) on every reaching "
                             "definition, or a positive constant): x[-0:] would be the whole sequence", 2)
    ctx.rule("b.empty-guards", "max()/min() over a sequence and x[0] reads in the display code are guarded by a truth test of that "
                               "sequence (or an emptiness-implying condition): repr of empty vectors / zero-row tables must not raise", 3)
    ctx.rule("c.footer", "the footer's counts come from len(pv) / pv.shape and its dtypes from pv._dtype or a list computed over ALL "
                         "columns (never the displayed subset); homogeneity is decided over all columns", 3)
    ctx.rule("d.preview", "preview = first H + marker + last T rows iff len > limit, else everything; as functions of the row limit n "
                          "(explicit or global default): threshold = n, H + T = n, H, T >= 1; the per-table limit reaches the formatter "
                          "unchanged and is the same for every displayed column", 3)
    ctx.rule("e.headers", "display names are the stored names (quoted by repr when needed; no name is not the name ''), never the sanitised ones", 3)
    ctx.rule("f.pure", "repr writes no content field of the object", 3)
    ctx.rule("g.definite-assignment", "every read of a local in the display code is definitely assigned: on each CFG path from the entry "
                                      "to the read that by-passes all bindings, the branch outcomes taken are contradictory (same "
                                      "test taken both ways, or truth tests of one subject with an empty intersection over "
                                      "{None, falsy, truthy}); otherwise repr can raise UnboundLocalError", 1)
    ctx.rule("a.element-truth", "the display code never takes the truth value of a comparison (==, !=, <, ...) with a cell value of "
                                "unknown type, nor of the cell itself: a cell of an object column may be a Vector / Table, whose == gives "
                                "a vector and whose truth value raises TypeError; identity tests, isinstance and tests under an "
                                "established scalar kind of the column are fine", 1)
    ctx.section("definite", _definite, ctx)
    ctx.section("partial", _partial, ctx)
    ctx.section("element-truth", _element_truth, ctx)
    ctx.section("tail", _tail, ctx)
    ctx.section("empty", _empty, ctx)
    ctx.section("footer", _footer, ctx)
    ctx.section("preview", _preview, ctx)
    ctx.section("limit-setting", _limit_setting, ctx)
    ctx.section("headers", _headers, ctx)
    ctx.section("pure", _pure, ctx)
    ctx.info("column names of non-str type (dict keys of any hashable type) reach .lower()/.isidentifier() in _needs_quote; the "
             "statement's quantifier speaks of name patterns of strings - information only")
    ctx.not_decided += ["totality over arbitrary user objects whose __str__/__eq__ raise", "alignment and exact body line counts"]


def _display_funcs(prog) -> List[FuncInfo]:
    return [f for q, f in prog.functions.items() if f.module == "display" and not isinstance(f.node, ast.Lambda)]


# --------------------------------------------------------------------------------------------- g
_DOM = frozenset(("none", "falsy", "truthy"))


def _truth_set(test: ast.AST) -> Optional[Tuple[str, frozenset]]:
    """(subject text, abstract values of the subject for which `test` is true) for the truth-test forms
    X | not X | X is None | X is not None ; None for any other test."""
    if isinstance(test, ast.UnaryOp) and isinstance(test.op, ast.Not):
        r = _truth_set(test.operand)
        return (r[0], _DOM - r[1]) if r else None
    if isinstance(test, ast.Compare) and len(test.ops) == 1 and isinstance(test.comparators[0], ast.Constant) \
            and test.comparators[0].value is None and isinstance(test.ops[0], (ast.Is, ast.IsNot)):
        if attr_chain(test.left) is None:
            return None
        on = frozenset(("none",))
        return (short(test.left), on if isinstance(test.ops[0], ast.Is) else _DOM - on)
    if isinstance(test, (ast.Name, ast.Attribute)) and attr_chain(test) is not None:
        return (short(test), frozenset(("truthy",)))
    return None


def _implied(test: ast.AST, outcome: bool) -> List[Tuple[ast.AST, bool]]:
    """Atomic (test, outcome) facts implied by `test` evaluating to `outcome`:  (A and B) true => A, B true;
    (A or B) false => A, B false;  not A => A with the other outcome.  The test itself is always included."""
    out = [(test, outcome)]
    if isinstance(test, ast.BoolOp):
        if isinstance(test.op, ast.And) == outcome:
            for v in test.values:
                out += _implied(v, outcome)
    elif isinstance(test, ast.UnaryOp) and isinstance(test.op, ast.Not):
        out += _implied(test.operand, not outcome)
    return out


_NAMES_CACHE: dict = {}


def _names_of_text(txt: str) -> Set[str]:
    r = _NAMES_CACHE.get(txt)
    if r is None:
        try:
            r = {x.id for x in ast.walk(ast.parse(txt, mode="eval")) if isinstance(x, ast.Name)}
        except SyntaxError:
            r = set()
        _NAMES_CACHE[txt] = r
    return r


def _own_loads(nd) -> Set[str]:
    """Names read by the node's OWN expression, respecting comprehension / lambda scopes."""
    if nd.ast is None:
        return set()
    if nd.kind == "for":
        roots = [nd.ast.iter]
    elif nd.kind == "with":
        roots = [i.context_expr for i in nd.ast.items]
    elif nd.kind == "except":
        roots = [nd.ast.type] if nd.ast.type is not None else []
    elif isinstance(nd.ast, (ast.FunctionDef, ast.AsyncFunctionDef, ast.ClassDef)):
        roots = list(nd.ast.decorator_list)
    else:
        roots = [nd.ast]
    out: Set[str] = set()

    def visit(n: ast.AST, bound: frozenset) -> None:
        if isinstance(n, (ast.ListComp, ast.SetComp, ast.GeneratorExp, ast.DictComp)):
            b = set(bound)
            for i, g in enumerate(n.generators):
                visit(g.iter, frozenset(b) if i else bound)
                b |= {m.id for m in ast.walk(g.target) if isinstance(m, ast.Name)}
                for c in g.ifs:
                    visit(c, frozenset(b))
            fb = frozenset(b)
            for part in ([n.key, n.value] if isinstance(n, ast.DictComp) else [n.elt]):
                visit(part, fb)
            return
        if isinstance(n, ast.Lambda):
            a = n.args
            ps = {x.arg for x in a.posonlyargs + a.args + a.kwonlyargs} | {x.arg for x in (a.vararg, a.kwarg) if x}
            for d in a.defaults + [d for d in a.kw_defaults if d is not None]:
                visit(d, bound)
            # the body runs later: its free names are not reads at this node
            return
        if isinstance(n, (ast.FunctionDef, ast.AsyncFunctionDef, ast.ClassDef)):
            return
        if isinstance(n, ast.Name):
            if isinstance(n.ctx, ast.Load) and n.id not in bound:
                out.add(n.id)
            return
        for c in ast.iter_child_nodes(n):
            visit(c, bound)
    for r in roots:
        visit(r, frozenset())
    return out


def _locals_of(f: FuncInfo) -> Set[str]:
    a = f.node.args
    params = {x.arg for x in a.posonlyargs + a.args + a.kwonlyargs} | {x.arg for x in (a.vararg, a.kwarg) if x}
    comp_targets = set()
    declared = set()
    for n in walk_no_nested(f.node):
        if isinstance(n, (ast.ListComp, ast.SetComp, ast.GeneratorExp, ast.DictComp)):
            for g in n.generators:
                comp_targets |= {id(m) for m in ast.walk(g.target) if isinstance(m, ast.Name)}
        elif isinstance(n, (ast.Global, ast.Nonlocal)):
            declared |= set(n.names)
    out = set()
    for n in walk_no_nested(f.node):
        if isinstance(n, ast.Name) and isinstance(n.ctx, ast.Store) and id(n) not in comp_targets:
            out.add(n.id)
        elif isinstance(n, (ast.FunctionDef, ast.AsyncFunctionDef, ast.ClassDef)) and n is not f.node:
            out.add(n.name)
        elif isinstance(n, ast.ExceptHandler) and n.name:
            out.add(n.name)
        elif isinstance(n, (ast.Import, ast.ImportFrom)):
            out |= {(al.asname or al.name.split(".")[0]) for al in n.names}
    return out - params - declared


def _undefined_path(cfg, var: str, use) -> Optional[Tuple[List, str]]:
    """A path entry -> use on which `var` is never bound and whose branch outcomes are not contradictory.
    Returns (path, reason) or None.  Paths are enumerated backwards over nodes that do not bind `var`;
    a branch outcome is contradictory with an earlier one when the same (unrebound) test is taken the
    other way or the truth sets of one subject intersect to nothing."""
    from ..cfg import _defines
    # nodes from which `use` is reachable without a binding (backward closure)
    back = {use.id}
    todo = [use]
    while todo:
        n = todo.pop()
        for p in n.pred:
            if p.id not in back and p.kind != "entry" and _defines(p, var) is None:
                back.add(p.id)
                todo.append(p)
            elif p.kind == "entry":
                back.add(p.id)
    if cfg.entry.id not in back:
        return None
    budget = [20000]
    found: List = []

    def dfs(n, path, facts, texts, on_path) -> bool:
        budget[0] -= 1
        if budget[0] < 0:
            raise AnalysisError(f"definite assignment of `{var}`: path budget exhausted")
        if n is use:
            found.append(list(path))
            return True
        for s, lab in n.succ:
            if s.id not in back or (s.id in on_path and s is not use):
                continue
            if s is not use and _defines(s, var) is not None:
                continue
            nf, nt = facts, texts
            if n.kind == "test" and lab in ("T", "F"):
                nt, nf = dict(texts), dict(facts)
                feasible = True
                for atom, out in _implied(n.ast, lab == "T"):
                    txt = short(atom, 300)
                    prev = nt.get(txt)
                    if prev is not None and prev != out:
                        feasible = False          # same test, other way: infeasible
                        break
                    nt[txt] = out
                    ts = _truth_set(atom)
                    if ts is not None:
                        subj, on = ts
                        cur = nf.get(subj, _DOM) & (on if out else _DOM - on)
                        if not cur:
                            feasible = False      # truth tests of one subject contradict: infeasible
                            break
                        nf[subj] = cur
                if not feasible:
                    continue
            # a rebinding (at s) of a name a recorded fact speaks about invalidates the fact
            if s.ast is not None and s.kind != "test":
                stale = [k for k in nt if any(_defines(s, nm) is not None for nm in _names_of_text(k))]
                if stale:
                    nt = {k: v for k, v in nt.items() if k not in stale}
                    nf = {k: v for k, v in nf.items() if not any(_defines(s, nm) is not None for nm in _names_of_text(k))}
            path.append(s)
            on_path.add(s.id)
            ok = dfs(s, path, nf, nt, on_path)
            on_path.discard(s.id)
            path.pop()
            if ok:
                return True
        return False
    if dfs(cfg.entry, [cfg.entry], {}, {}, {cfg.entry.id}):
        return found[0], ""
    return None


def _definite(ctx) -> None:
    prog = ctx.prog
    for f in _display_funcs(prog):
        cfg = cfg_of(f)
        locs = _locals_of(f)
        if not locs:
            continue
        reach = cfg.reachable()
        reads = 0
        problems = []
        for nd in cfg.nodes:
            if nd.id not in reach or nd.ast is None:
                continue
            for v in sorted(_own_loads(nd) & locs):
                reads += 1
                if not any(d is PARAM for d, _ in reaching_def_nodes(cfg, v, nd)):
                    continue
                r = _undefined_path(cfg, v, nd)
                if r is None:
                    continue
                path, _ = r
                problems.append((v, nd, path))
        seenv = set()
        for v, nd, path in problems:
            if v in seenv:
                continue
            seenv.add(v)
            branch = [f"{p.text()}@{p.lineno}" for p in path if p.kind in ("test", "for")]
            ctx.ob("g.definite-assignment", f, f"local:{v}", False, "", nd.ast,
                   message=f"`{v}` is read at line {nd.lineno} (`{short(nd.ast, 60)}`) but a path from the entry reaches it without any "
                           f"binding and its branch outcomes are consistent: {' -> '.join(branch[-6:]) or 'straight line'}; "
                           f"repr would raise UnboundLocalError there")
        ctx.ob("g.definite-assignment", f, "all-reads", not problems,
               f"{reads} reads of {len(locs)} locals definitely assigned (path-sensitive over truth tests)", f.node,
               message=f"{len(seenv)} local(s) possibly unbound")


# --------------------------------------------------------------------------------------------- a
def _partial(ctx) -> None:
    prog = ctx.prog
    n = 0
    for f in _display_funcs(prog):
        for c in prog.calls_in(f):
            nm = short(c.func)
            if nm not in PARTIAL_ON_FLOAT or len(c.args) != 1 or not isinstance(c.args[0], ast.Name):
                continue
            v = c.args[0].id
            # is v an element value? (bound by a for over the preview / storage) - not a count or a width
            d = Defs(f)
            if not any(how.startswith("for") or how == "for" for _, _, how in d.assigns.get(v, [])):
                continue
            n += 1
            ok = _finite_guarded(prog, f, c, v)
            ctx.ob("a.partial-ops", f, f"{nm}({v})", ok, f"{nm}({v}) is guarded by a finiteness test", c,
                   message=f"{f.qualname}: `{short(prog.parent(c), 70)}` applies {nm}() to an element value without a preceding finiteness "
                           f"test: repr of a float vector holding nan raises ValueError, inf raises OverflowError")
    if n == 0:
        # nothing partial is applied to element values any more: vacuous but fine
        ctx.ob("a.partial-ops", "display", "none", True, "no int()/round()/floor() on element values in the display code")
    # an int element of a float column is shown as <its digits>.0: the digits come from the integer presentation (`:d`, int(v)) - an
    # element that is a bool (a bool is an int; Vector([1.5, True]) keeps its True) would otherwise be shown as `True.0`
    for f in _display_funcs(prog):
        for js in [x for x in ast.walk(f.node) if isinstance(x, ast.JoinedStr)]:
            vals = js.values
            for a_, b_ in zip(vals, vals[1:]):
                if isinstance(a_, ast.FormattedValue) and isinstance(b_, ast.Constant) and isinstance(b_.value, str) and b_.value.startswith(".0") \
                        and isinstance(a_.value, ast.Name):
                    # (an ELEMENT value - bound by a for over the preview / storage -, not a local computed from one: int(v) is digits)
                    d_ = Defs(f)
                    hows = [how for _, _, how in d_.assigns.get(a_.value.id, [])]
                    if not hows or not all(how.startswith("for") for how in hows):
                        continue
                    spec = a_.format_spec
                    spec_txt = "".join(v_.value for v_ in spec.values if isinstance(v_, ast.Constant)) if isinstance(spec, ast.JoinedStr) else ""
                    ok = spec_txt.endswith("d") and a_.conversion == -1
                    ctx.ob("a.partial-ops", f, f"digits:{a_.value.id}", ok, f"`{short(js)}` prints the element's digits (integer presentation)", js,
                           message=f"{f.qualname}: `{short(js)}` puts '.0' behind str() of an int element: a bool element of a float column "
                                   f"(Vector([1.5, True]) is <float> and keeps its True) is shown as `True.0` - use the integer "
                                   f"presentation `{{{a_.value.id}:d}}`")


_SCALAR_KINDS = {"int", "float", "str", "bool", "complex", "date", "datetime", "bytes"}


def _element_truth(ctx) -> None:
    """Decided on the symx event log of display._format_column (cell formatters introduced later are evaluated in line): every
    condition literal that involves a cell value is inspected."""
    from ..sites2 import interp_of
    from ..symx import deep_subterms, flatten_conds, show, subterms
    prog = ctx.prog
    f = prog.func("display._format_column")
    it = interp_of(prog, f)
    COL = ("param", f.params[0])
    # cell values: elements of loops whose iterable derives from the column's storage
    cell_loops = {L for L, lp in it.loops.items()
                  if lp.iter is not None and any(x == ("attr", COL, "_underlying") for x in deep_subterms(it, lp.iter))}
    if not cell_loops:
        raise AnalysisError("_format_column: the loop over the cell values was not found")

    def is_cell(t) -> bool:
        return t[0] == "elem" and t[2] in cell_loops

    def scalar_established(conds) -> bool:
        for t, pol in flatten_conds(conds):
            if not pol:
                continue
            if t[0] == "cmp" and t[1] in ("Is", "Eq") and t[3][0] == "name" and t[3][1] in _SCALAR_KINDS \
                    and t[2][0] == "attr" and t[2][2] == "kind":
                return True
            if t[0] == "call" and t[1] == ("name", "isinstance") and len(t[2]) == 2 and is_cell(t[2][0]):
                ks = t[2][1]
                names = [ks] if ks[0] == "name" else list(ks[1]) if ks[0] == "tuple" else []
                if names and all(n_[0] == "name" and n_[1] in _SCALAR_KINDS for n_ in names):
                    return True
        return False
    problems = []
    seen = set()
    n = 0
    for e in it.events:
        for i, (t, pol) in enumerate(e.conds):
            if (t, i) in seen:
                continue
            seen.add((t, i))
            before = e.conds[:i]
            # walk the boolean structure: every operand of and/or/not is a truth-valued use
            stack = [(t, before)]
            while stack:
                u, ctxc = stack.pop()
                if u[0] == "bool":
                    acc = ctxc
                    for x in u[2]:
                        stack.append((x, acc))
                        acc = acc + ((x, u[1] == "and"),)       # later operands run only if the earlier ones allow
                    continue
                if u[0] == "un" and u[1] == "Not":
                    stack.append((u[2], ctxc))
                    continue
                bad = None
                if is_cell(u):
                    bad = f"the truth value of the cell itself (`{show(u, it)[-30:]}`)"
                elif u[0] == "cmp" and u[1] not in ("Is", "IsNot") and (is_cell(u[2]) or is_cell(u[3])):
                    bad = f"the truth value of `<cell> {u[1]} {show(u[3] if is_cell(u[2]) else u[2], it)[:20]}`"
                if bad is None:
                    continue
                n += 1
                if not scalar_established(ctxc):
                    problems.append(f"{bad} is taken (line {getattr(e.node, 'lineno', '?')}) before the kind of the cell is known: a Vector / "
                                    f"Table cell of an object column compares to a vector, whose truth value raises TypeError - repr "
                                    f"would fail")
    # float-only operations on a cell of a float column: the column also holds its int elements as ints (the dtype is widened,
    # the elements are kept), and math.isfinite / a float format spec overflow for a big int
    def int_excluded(conds) -> bool:
        for t, pol in flatten_conds(conds):
            if t[0] == "call" and t[1] == ("name", "isinstance") and len(t[2]) == 2 and is_cell(t[2][0]):
                ks = t[2][1]
                names = {n_[1] for n_ in ([ks] if ks[0] == "name" else list(ks[1]) if ks[0] == "tuple" else []) if n_[0] == "name"}
                if (not pol and "int" in names) or (pol and names and names <= {"float"}):
                    return True
        return False

    def float_only_uses(t, acc):
        if not isinstance(t, tuple) or not t or t[0] == "const":
            return
        if t[0] == "call" and t[1] == ("attr", ("name", "math"), "isfinite") and t[2] and is_cell(t[2][0]):
            acc.append("math.isfinite(<cell>)")
        if t[0] == "fmt" and is_cell(t[1]) and len(t) >= 4 and t[3] not in (None, ("const", "NoneType", None)):
            spec = t[3]
            txt = "".join(p_[2] for p_ in (spec[1] if spec[0] == "fstr" else (spec,)) if p_[0] == "const" and isinstance(p_[2], str))
            if txt and txt[-1] in "feEgG%":
                acc.append(f"format(<cell>, '{txt}')")
        for x in t:
            if isinstance(x, tuple):
                float_only_uses(x, acc)
    def walk(t, conds, found):
        """float-only uses of a cell inside t that are not under a condition excluding ints (conditional terms extend the conditions)"""
        if not isinstance(t, tuple) or not t or t[0] == "const":
            return
        if t[0] == "ifexp":
            walk(t[1], conds, found)
            walk(t[2], conds + ((t[1], True),), found)
            walk(t[3], conds + ((t[1], False),), found)
            return
        if t[0] == "bool" and t[1] == "and":
            acc = conds
            for x in t[2]:
                walk(x, acc, found)
                acc = acc + ((x, True),)
            return
        own = []
        shallow = t[:2] + tuple(x if not isinstance(x, tuple) else x for x in t[2:])
        if t[0] == "call" and t[1] == ("attr", ("name", "math"), "isfinite") and t[2] and is_cell(t[2][0]):
            own.append("math.isfinite(<cell>)")
        if t[0] == "fmt" and is_cell(t[1]):
            tmp = []
            float_only_uses(("tuple", (t,)), tmp)
            own += tmp
        if own and not int_excluded(conds):
            found += own
        for x in t:
            if isinstance(x, tuple):
                walk(x, conds, found)
    for e in it.events:
        under_float = any(pol and t[0] == "cmp" and t[1] in ("Is", "Eq") and t[3] == ("name", "float") and t[2][0] == "attr" and t[2][2] == "kind"
                          for t, pol in flatten_conds(e.conds))
        if not under_float:
            continue
        found = []
        for top in (e.term, e.value):
            if top is not None:
                walk(top, tuple(e.conds), found)
        if found:
            problems.append(f"{found[0]} is applied (line {getattr(e.node, 'lineno', '?')}) to a cell of a float column that may be an int: a "
                            f"float column keeps its int elements as ints, and a big one makes repr raise OverflowError")
    seenp = set()
    problems = [p_ for p_ in problems if not (p_ in seenp or seenp.add(p_))]
    ctx.ob("a.element-truth", f, "cells", not problems, f"{n} truth-valued use(s) of cell values, each under an established scalar kind",
           f.node, message="; ".join(problems[:2]))


def _is_finite_test(e: ast.AST, v: str) -> bool:
    t = short(e)
    return t in (f"math.isfinite({v})", f"isfinite({v})") or t in (f"{v} == {v}",) and False


def _finite_guarded(prog, f: FuncInfo, call: ast.Call, v: str) -> bool:
    # (1) same BoolOp(And): an earlier operand is isfinite(v)
    node = call
    par = prog.parent(node)
    while par is not None and not isinstance(par, ast.stmt):
        if isinstance(par, ast.BoolOp) and isinstance(par.op, ast.And):
            idx = next(i for i, x in enumerate(par.values) if any(y is node for y in ast.walk(x)))
            if any(_is_finite_test(x, v) for x in par.values[:idx]):
                return True
        if isinstance(par, ast.IfExp) and any(y is node for y in ast.walk(par.body)) and _contains_finite(par.test, v):
            return True
        node = par
        par = prog.parent(par)
    # (2) dominating `if math.isfinite(v)` on the true side, or enclosing try
    cfg = cfg_of(f)
    try:
        n = cfg.enclosing_stmt_node(prog, call)
    except AnalysisError:
        return False
    for t in cfg.nodes:
        if t.kind == "test" and cfg.dominates(t, n) and _contains_finite(t.ast, v):
            fs = [s for s, lab in t.succ if lab == "F"]
            if all(not (s is n or cfg.can_reach(s, n)) for s in fs):
                return True
    p = prog.parent(call)
    while p is not None:
        if isinstance(p, ast.Try) and any(h.type is None or "ValueError" in short(h.type) or "Exception" in short(h.type) for h in p.handlers) \
                and any(y is call for b in p.body for y in ast.walk(b)):
            return True
        p = prog.parent(p)
    return False


def _contains_finite(e: ast.AST, v: str) -> bool:
    if _is_finite_test(e, v):
        return True
    if isinstance(e, ast.BoolOp) and isinstance(e.op, ast.And):
        return any(_contains_finite(x, v) for x in e.values)
    return False


# --------------------------------------------------------------------------------------------- b
def _lower_bound(prog, f: FuncInfo, e: ast.AST, at_node, depth=0) -> Optional[int]:
    """an integer L with e >= L on every path (interval arithmetic over max / + / - const / // positive const), None if unknown"""
    if depth > 6:
        return None
    if isinstance(e, ast.Constant) and isinstance(e.value, int) and not isinstance(e.value, bool):
        return e.value
    if isinstance(e, ast.Call) and short(e.func) == "max" and len(e.args) >= 2:
        bs = [_lower_bound(prog, f, a, at_node, depth + 1) for a in e.args]
        bs = [b for b in bs if b is not None]
        return max(bs) if bs else None
    if isinstance(e, ast.Call) and short(e.func) == "min" and len(e.args) >= 2:
        bs = [_lower_bound(prog, f, a, at_node, depth + 1) for a in e.args]
        return min(bs) if all(b is not None for b in bs) else None
    if isinstance(e, ast.BinOp) and isinstance(e.op, ast.FloorDiv) and isinstance(e.right, ast.Constant) \
            and isinstance(e.right.value, int) and e.right.value >= 1:
        b = _lower_bound(prog, f, e.left, at_node, depth + 1)
        return None if b is None else b // e.right.value
    if isinstance(e, ast.BinOp) and isinstance(e.op, (ast.Add, ast.Sub)):
        a, b = e.left, e.right
        if isinstance(b, ast.Constant) and isinstance(b.value, int):
            x = _lower_bound(prog, f, a, at_node, depth + 1)
            return None if x is None else (x + b.value if isinstance(e.op, ast.Add) else x - b.value)
        if isinstance(a, ast.Constant) and isinstance(a.value, int) and isinstance(e.op, ast.Add):
            x = _lower_bound(prog, f, b, at_node, depth + 1)
            return None if x is None else x + a.value
    if isinstance(e, ast.Name):
        cfg = cfg_of(f)
        if e.id in Defs(f).assigns:
            defs = reaching_def_nodes(cfg, e.id, at_node)
            if not defs:
                return None
            bs = []
            for d, dn in defs:
                if d is PARAM or not isinstance(d, ast.expr):
                    return None
                bs.append(_lower_bound(prog, f, d, dn, depth + 1))
            return min(bs) if all(b is not None for b in bs) else None
    return None


def _positive(prog, f: FuncInfo, e: ast.AST, at_node, depth=0) -> Optional[str]:
    """None if `e` (evaluated at CFG node at_node) is provably >= 1, else a reason."""
    if depth > 6:
        return "definition chain too deep"
    lb = _lower_bound(prog, f, e, at_node)
    if lb is not None and lb >= 1:
        return None
    if isinstance(e, ast.Constant) and isinstance(e.value, int) and not isinstance(e.value, bool):
        return None if e.value >= 1 else f"the constant {e.value} is not positive"
    if isinstance(e, ast.Call) and short(e.func) == "max" and len(e.args) >= 2:
        if any(_positive(prog, f, a, at_node, depth + 1) is None for a in e.args):
            return None
        return f"`{short(e)}` has no positive lower bound"
    if isinstance(e, ast.Name):
        cfg = cfg_of(f)
        is_local = e.id in Defs(f).assigns
        defs = reaching_def_nodes(cfg, e.id, at_node) if is_local else []
        if not defs:
            # module-level constant
            m = prog.modules[f.module]
            for st in m.tree.body:
                if isinstance(st, ast.Assign) and isinstance(st.targets[0], ast.Name) and st.targets[0].id == e.id:
                    return _positive(prog, f, st.value, at_node, depth + 1)
            return f"`{e.id}` is not defined here"
        for d, dn in defs:
            if d is PARAM:
                # parameter: default and every call-site argument must be positive constants
                a = f.node.args
                names = [x.arg for x in a.args]
                if e.id not in names:
                    return f"`{e.id}` is a parameter without analysable default"
                defaults = [None] * (len(names) - len(a.defaults)) + list(a.defaults)
                dv = defaults[names.index(e.id)]
                private = f.name.startswith("_") and not f.name.startswith("__")
                n_sites = sum(1 for g in prog.functions.values() if not isinstance(g.node, ast.Lambda)
                              for c in prog.calls_in(g) if short(c.func) == f.name)
                if dv is None and not (private and n_sites >= 1):
                    # (a private helper that is always handed the value: decided at its call sites alone)
                    return f"parameter `{e.id}` has no default"
                if dv is not None:
                    r = _positive(prog, f, dv, cfg.entry, depth + 1)
                    if r:
                        return f"default of `{e.id}`: {r}"
                pos = names.index(e.id)
                for g in prog.functions.values():
                    if isinstance(g.node, ast.Lambda):
                        continue
                    for c in prog.calls_in(g):
                        if short(c.func) == f.name:
                            arg = c.args[pos] if pos < len(c.args) else kwarg(c, e.id)
                            if arg is not None:
                                gcfg = cfg_of(g)
                                r = _positive(prog, g, arg, gcfg.enclosing_stmt_node(prog, c), depth + 1)
                                if r:
                                    return f"call site {g.qualname}:{c.lineno} passes `{short(arg)}`: {r}"
                continue
            # `limit, head, tail = _preview_limits(n)`: the component the package helper returns at that position, on every return
            st_ = getattr(dn, "ast", None)
            if isinstance(st_, ast.Assign) and len(st_.targets) == 1 and isinstance(st_.targets[0], ast.Tuple) \
                    and isinstance(st_.value, ast.Call) and isinstance(st_.value.func, ast.Name):
                names_ = [x.id if isinstance(x, ast.Name) else None for x in st_.targets[0].elts]
                g = prog.functions.get(f"{f.module}.{st_.value.func.id}")
                if e.id in names_ and g is not None and not isinstance(g.node, ast.Lambda):
                    k_ = names_.index(e.id)
                    gcfg = cfg_of(g)
                    rets_ = [n_ for n_ in gcfg.stmt_nodes() if isinstance(n_.ast, ast.Return)]
                    bad_ = None
                    for rn in rets_:
                        rv = rn.ast.value
                        if not (isinstance(rv, ast.Tuple) and len(rv.elts) == len(names_)):
                            bad_ = f"`{g.name}` does not return a {len(names_)}-tuple display"
                            break
                        r = _positive(prog, g, rv.elts[k_], rn, depth + 1)
                        if r:
                            bad_ = f"`{g.name}` returns `{short(rv.elts[k_])}` for it: {r}"
                            break
                    if rets_ and bad_ is None:
                        continue
                    return f"`{e.id}` is unpacked from `{short(st_.value, 40)}`: {bad_ or 'no return found'}"
            if not isinstance(d, ast.expr):
                return f"`{e.id}` is bound by `{short(d, 40)}`"
            r = _positive(prog, f, d, dn, depth + 1)
            if r:
                return f"`{e.id}` may be `{short(d, 40)}` (line {dn.lineno}): {r}"
        return None
    return f"`{short(e)}` has no provable positive lower bound"


def _tail(ctx) -> None:
    prog = ctx.prog
    n = 0
    for f in _display_funcs(prog):
        cfg = cfg_of(f)
        for sl in [x for x in walk_no_nested(f.node) if isinstance(x, ast.Subscript) and isinstance(x.slice, ast.Slice)]:
            lo = sl.slice.lower
            if isinstance(lo, ast.UnaryOp) and isinstance(lo.op, ast.USub) and sl.slice.upper is None:
                e = lo.operand
                if isinstance(e, ast.Constant):
                    continue
                n += 1
                node = cfg.enclosing_stmt_node(prog, sl)
                why = _positive(prog, f, e, node)
                ctx.ob("b.tail-slice", f, f"{short(sl, 40)}", why is None, f"`{short(sl)}`: {short(e)} >= 1", sl,
                       message=f"{f.qualname}: `{short(sl)}` takes the last {short(e)} items, but {why}; with 0 the slice [-0:] is the WHOLE "
                               f"sequence: the preview would show an ellipsis followed by all rows")
    if n == 0:
        raise AnalysisError("display: no tail slice x[-e:] found")


def _empty(ctx) -> None:
    """max()/min() over a sequence and x[0] reads in the display code happen only where the sequence is known to be non-empty -
    decided on the symx event log (conditional expressions, short circuits, guard clauses and helpers are all path conditions)."""
    from ..sites2 import standalone_interps
    from ..symx import const, deep_subterms, flatten_conds, kw, show, single_element, subterms
    prog = ctx.prog
    n = 0
    for q, it in standalone_interps(prog).items():
        f = prog.functions[q]
        if f.module != "display":
            continue

        def nonempty(seq, conds) -> Optional[str]:
            """why `seq` is non-empty under `conds` (None if not shown)"""
            root = it.length_root(seq)
            for t, pol in flatten_conds(conds):
                if pol and (t == seq or it.length_root(t) == root):
                    return "truth test of the sequence"
                if t[0] == "cmp" and t[1] in ("Eq", "Gt", "GtE", "Lt", "LtE") and pol in (True, False):
                    a, b, op = t[2], t[3], t[1]
                    if not pol:
                        op = {"Lt": "GtE", "LtE": "Gt", "Gt": "LtE", "GtE": "Lt", "Eq": "NotEq"}[op]
                    lens = [x for x in subterms(a) if x[0] == "call" and x[1] == ("name", "len") and len(x[2]) == 1]
                    for ln in lens:
                        s0 = ln[2][0]
                        same = it.length_root(s0) == root or s0 == seq
                        of_set = s0[0] == "obj" and it.objs[s0[1]].kind == "set" and it.objs[s0[1]].init and \
                            it.length_root(it.objs[s0[1]].init[0]) == root
                        if not (same or of_set):
                            continue
                        if a == ln and b[0] == "const" and isinstance(b[2], int):
                            if (op == "Eq" and b[2] >= 1) or (op == "Gt" and b[2] >= 0) or (op == "GtE" and b[2] >= 1):
                                return f"size test `{show(t, it)[:40]}`"
                        elif a == ln and op in ("Gt", "GtE"):
                            return f"size test `{show(t, it)[:40]}` (a count compared with a positive bound)"
                    # a size flag the sequence's own construction is selected by (truncated = n > 2 * MAX picks the shown columns)
                    if op in ("Gt", "GtE") and pol and lens and any(x == t for x in deep_subterms(it, seq)):
                        return f"size flag `{show(t, it)[:40]}` that selects how the sequence is built"
            return None
        for e in it.events:
            if e.kind == "call" and e.term[1] in (("name", "max"), ("name", "min")) and len(e.term[2]) == 1 and kw(e.term, "default") is None:
                arg = e.term[2][0]
                seq = arg
                if arg[0] == "obj" and it.objs[arg[1]].kind in ("genexp", "listcomp"):
                    se = single_element(it, arg)
                    if se is None or len(se[0]) != 1:
                        continue
                    lp = it.loops[se[0][0]]
                    seq = lp.iter if lp.range is None else (lp.range[1][2][0] if lp.range[1][0] == "call" and lp.range[1][1] == ("name", "len")
                                                            and len(lp.range[1][2]) == 1 else lp.iter)
                    if se[1]:
                        seq = arg            # a filtered generator can be empty even when its source is not
                n += 1
                why = nonempty(seq, e.conds)
                ctx.ob("b.empty-guards", f, f"{e.term[1][1]}:{n}", why is not None, f"`{show(e.term, it)[:50]}` guarded ({why})", e.node,
                       message=f"{f.qualname}: `{show(e.term, it)[:60]}` raises ValueError when `{show(seq, it)[:40]}` is empty (empty vector / "
                               f"zero-row table); guard it with `... if <seq> else 0` or default=")
            if e.kind == "index" and e.term[2] == const(0):
                seq = e.term[1]
                # tuple-unpacked results of calls and fixed-shape values are not sequences that can be empty
                root_ = seq
                while root_[0] == "sub":
                    root_ = root_[1]
                if seq[0] in ("call", "tuple") or (root_[0] == "attr" and root_[2] == "shape") or root_[0] in ("call", "tuple"):
                    continue
                n += 1
                why = nonempty(seq, e.conds)
                ctx.ob("b.empty-guards", f, f"first:{n}", why is not None, f"`{show(e.term, it)[:40]}` guarded ({why})", e.node,
                       message=f"{f.qualname}: `{show(e.term, it)[:50]}` raises IndexError when `{show(seq, it)[:40]}` is empty (e.g. a table "
                               f"with columns but zero rows)")
    if n == 0:
        raise AnalysisError("display code: no max()/min()/x[0] site found")


# --------------------------------------------------------------------------------------------- c
def _dtype_token_forms(it, tok, D) -> dict:
    """The three values a dtype token takes: no dtype / plain / nullable (terms shown canonically)."""
    from ..symx import show, simplify
    nul = ("attr", D, "nullable")
    out = {}
    for sit, atoms in (("none", {D: False}), ("plain", {D: True, nul: False}), ("nullable", {D: True, nul: True})):
        out[sit] = show(simplify(tok, atoms), it)
    return out


def _want_token(it, D) -> dict:
    from ..symx import show
    name = ("attr", ("attr", D, "kind"), "__name__")
    return {"none": "'object'", "plain": show(name, it), "nullable": show(("bin", "Add", name, ("const", "str", "?")), it)}


def _footer(ctx) -> None:
    from ..symx import Interp as SInterp
    from ..symx import NONE as SNONE
    from ..symx import const, elements, show, single_element, subterms
    prog = ctx.prog
    f = prog.func("display._footer")
    it = SInterp(prog, f)
    pv = ("param", f.params[0])
    D = ("attr", pv, "_dtype")
    shape = ("attr", pv, "shape")
    problems = []
    rets = [e for e in it.events if e.kind == "return" and e.depth == 0]

    def parts_of(t):
        return list(t[1]) if t[0] == "fstr" else [t]
    vec = tab = None
    for e in rets:
        ps = parts_of(e.term)
        txt = "".join(p[2] for p in ps if p[0] == "const" and isinstance(p[2], str))
        if "element vector" in txt:
            vec = (e, ps)
        if "table" in txt:
            tab = (e, ps)
    if not any(shape in list(subterms(c)) for e in rets for c, _ in e.conds):
        problems.append("the footer kind is not decided by the object's shape")
    # every footer states a count and a dtype: a constant text (e.g. "# empty") states neither
    for e in rets:
        fm = [p_ for p_ in parts_of(e.term) if p_[0] == "fmt"]
        if len(fm) < 2:
            problems.append(f"the footer `{show(e.term, it)[:40]}` (line {getattr(e.node, 'lineno', '?')}) states no element count / dtype "
                            f"(an empty vector still has 0 elements of a dtype)")
    if vec is None:
        problems.append("the vector footer `# N element vector <dtype>` is not produced")
    else:
        e, ps = vec
        fm = [p for p in ps if p[0] == "fmt"]
        if len(fm) != 2 or fm[0][1] != ("call", ("name", "len"), (pv,), ()):
            problems.append(f"the vector footer does not state len({f.params[0]}) (`{show(e.term, it)[:70]}`)")
        elif _dtype_token_forms(it, fm[1][1], D) != _want_token(it, D):
            problems.append(f"the dtype token is {_dtype_token_forms(it, fm[1][1], D)}: it does not come from the object's dtype with its "
                            f"nullability")
    if tab is None:
        problems.append("the table footer `# rows×cols table <dtypes>` is not produced")
    else:
        e, ps = tab
        fm = [p for p in ps if p[0] == "fmt"]
        if len(fm) != 3 or fm[0][1] != ("sub", shape, const(0)) or fm[1][1] != ("sub", shape, const(1)):
            problems.append("the table footer is not `# {rows}×{cols} table <dtypes>` with rows, cols taken from the object's shape")
    ctx.ob("c.footer", f, "sources", not problems, "footer reads len(pv), pv.shape, pv._dtype", f.node, message="_footer: " + "; ".join(problems))
    # elided dtype list
    ok = False
    if tab is not None and len(f.params) < 4:
        ctx.analysis_errors.append("footer: _footer no longer takes (object, dtype list, truncated, shown): the elision of the dtype list "
                                   "cannot be located")
        tab = None
        elided_known = False
    else:
        elided_known = True
    if tab is not None:
        dl, shown, trunc = ("param", f.params[1]), ("param", f.params[3]), ("param", f.params[2])
        join = lambda x: ("call", ("attr", const(", "), "join"), (x,), ())
        head = ("sub", dl, ("slice", SNONE, shown, SNONE))
        tail = ("sub", dl, ("slice", ("un", "USub", shown), SNONE, SNONE))
        want = ("bin", "Add", ("bin", "Add", join(head), const(", ..., ")), join(tail))
        tok = [p for p in tab[1] if p[0] == "fmt"][-1][1] if [p for p in tab[1] if p[0] == "fmt"] else None
        if tok is not None:
            ok = any(t == ("ifexp", trunc, want, join(dl)) for t in subterms(tok))
    if elided_known:
      ctx.ob("c.footer", f, "elided-list", ok, "elided dtype list = first and last `shown` of the full list", f.node,
             message="_footer no longer elides the FULL dtype list symmetrically (first `shown` + ', ..., ' + last `shown` when truncated, the "
                     "whole list otherwise)")
    # ---- _repr_table: the footer is fed with the table and a dtype list over ALL columns
    g = prog.func("display._repr_table")
    gi = SInterp(prog, g)
    tbl = ("param", g.params[0])
    allcols = ("call", ("attr", tbl, "cols"), (), ())
    problems = []
    calls = [e for e in gi.events if e.kind == "call" and e.term[1] == ("name", "_footer")]
    lists = []
    for e in calls:
        if len(e.term[2]) > 1 and e.term[2][1] != SNONE and e.term[2][1] not in lists:
            lists.append(e.term[2][1])
    allv = None
    for L_ in lists:
        if L_[0] == "obj":
            se = single_element(gi, L_)
            if se is not None:
                lps, extra, v, e = se
                if len(lps) == 1 and gi.loops[lps[0]].iter == allcols and not extra:
                    cd = ("attr", ("elem", allcols, lps[0]), "_dtype")
                    if _dtype_token_forms(gi, v, cd) == _want_token(gi, cd):
                        allv = L_
                    else:
                        problems.append("the per-column dtype list does not carry kind and nullability of each column")
    if allv is None:
        problems.append("no dtype list is computed over ALL columns (the footer would describe only the displayed ones)")
    ctx.ob("c.footer", g, "all-columns", not problems, "the footer's dtype list covers all columns", g.node, message="_repr_table: " + "; ".join(problems))
    problems = []
    if len(calls) < 2:
        problems.append("footer is not produced by _footer(...)")
    for e in calls:
        if not e.term[2] or e.term[2][0] != tbl:
            problems.append(f"`{show(e.term, gi)[:60]}` is not given the table itself")
        if len(e.term[2]) > 1 and e.term[2][1] != SNONE and e.term[2][1] != allv:
            problems.append(f"`{show(e.term, gi)[:60]}` passes `{show(e.term[2][1], gi)[:40]}`, not the list over all columns")
    if allv is not None:
        sets = [("obj", oid) for oid, o in gi.objs.items() if o.kind == "set" and isinstance(o.node, ast.Call)]
        sets_all = [x for x in sets if gi.objs[x[1]].init == (allv,)]
        used = [x for x in sets if any(x in list(subterms(c)) for e in calls for c, _ in e.conds)]
        if not any(x in sets_all for x in used) and used:
            problems.append("homogeneity of the dtypes is not decided over all columns")
        if not used and not sets_all:
            problems.append("homogeneity of the dtypes is not decided over all columns")
        for e in gi.events:
            if e.kind == "call" and e.term[1][0] == "attr" and e.term[1][2] == "replace" and e.term[1][1] in [c.term for c in calls]:
                firsts = []
                for ft in subterms(e.term[2][1]) if len(e.term[2]) > 1 else []:
                    if ft[0] == "fstr":
                        firsts += [p_[1] for p_ in ft[1] if p_[0] == "fmt" and p_[1][0] == "sub" and p_[1][2] == const(0)]
                for t in firsts:
                    if t[1] != allv:
                        problems.append(f"the single-dtype footer shows `{show(t, gi)[:60]}`, not a dtype from the list over ALL columns (a "
                                        f"DISPLAYED column's dtype: a hidden column of another dtype would be misstated)")
    seen = set()
    problems = [p_ for p_ in problems if not (p_ in seen or seen.add(p_))]
    ctx.ob("c.footer", g, "footer-inputs", not problems, "footer fed with the table and the all-columns dtype list", g.node,
           message="_repr_table: " + "; ".join(problems))


# --------------------------------------------------------------------------------------------- d
def _halvings(e: ast.AST) -> Optional[int]:
    """number of `// 2` applied on top of a budget expression; None if e is not such a chain"""
    n = 0
    while isinstance(e, ast.BinOp) and isinstance(e.op, ast.FloorDiv) and isinstance(e.right, ast.Constant) and e.right.value == 2:
        n += 1
        e = e.left
    return n


def _term_halvings(t) -> Optional[int]:
    """number of `// 2` applied on top of a budget term (max(1, x) clamps are transparent)"""
    n = 0
    while True:
        if t[0] == "call" and t[1] == ("name", "max") and len(t[2]) == 2:
            rest = [a for a in t[2] if a[0] != "const"]
            if len(rest) != 1:
                return n
            t = rest[0]
        elif t[0] == "bin" and t[1] == "FloorDiv" and t[3] == ("const", "int", 2):
            n += 1
            t = t[2]
        else:
            return n


def _ieval(t, env):
    """integer value of a closed arithmetic term (const, + - * //, max, min, unary minus, conditional on `x is None`) under env:
    term -> int|None for the free terms; None if the term is outside this fragment"""
    if t in env:
        return env[t]
    k = t[0]
    if k == "const" and isinstance(t[2], int) and not isinstance(t[2], bool):
        return t[2]
    if k == "bin" and t[1] in ("Add", "Sub", "Mult", "FloorDiv"):
        a, b = _ieval(t[2], env), _ieval(t[3], env)
        if a is None or b is None or (t[1] == "FloorDiv" and b == 0):
            return None
        return {"Add": a + b, "Sub": a - b, "Mult": a * b, "FloorDiv": a // b if t[1] == "FloorDiv" else 0}[t[1]]
    if k == "un" and t[1] == "USub":
        a = _ieval(t[2], env)
        return None if a is None else -a
    if k == "call" and t[1] in (("name", "max"), ("name", "min")) and t[2] and not t[3]:
        vs = [_ieval(a, env) for a in t[2]]
        if any(v is None for v in vs):
            return None
        return max(vs) if t[1][1] == "max" else min(vs)
    if k == "ifexp" and t[1][0] == "cmp" and t[1][1] == "Is" and t[1][3] == ("const", "NoneType", None):
        subj = t[1][2]
        if subj in env:
            return _ieval(t[2] if env[subj] is None else t[3], env)
    return None


def _preview(ctx) -> None:
    """The statement: data longer than the preview limit shows exactly its first and last rows around an ellipsis, shorter data shows
    every row.  On symx terms: the preview is  head H + [marker] + tail T  iff  len(values) > M, else all values, where - as
    functions of the row limit n (the per-table override or the global default), decided by evaluating the closed arithmetic terms
    for every n of a full period - M(n) = n and H(n) + T(n) = n with H, T >= 1 (limits below 2 may be clamped)."""
    from ..sites2 import interp_of
    from ..symx import NONE as SNONE
    from ..symx import const, kw, show, subterms
    prog = ctx.prog
    f = prog.func("display._format_column")
    it = interp_of(prog, f)
    P = ("param", f.params[1])
    DEF = ("name", "_REPR_ROWS_DEFAULT")
    vals = ("attr", ("param", f.params[0]), "_underlying")
    problems = []
    previews = []
    for lp in it.loops.values():
        if lp.iter is not None and lp.iter[0] == "ifexp":
            previews.append(lp.iter)
    for e in it.events:
        for t in subterms(e.term):
            if t[0] == "ifexp" and t not in previews:
                previews.append(t)
    ln = ("call", ("name", "len"), (vals,), ())
    pv = M = None
    for t in previews:
        c = t[1]
        if c[0] == "cmp" and c[1] in ("Gt", "GtE", "Lt", "LtE") and ln in (c[2], c[3]):
            other = c[3] if c[2] == ln else c[2]
            # normalise to  len > M
            if (c[1] == "Gt" and c[2] == ln) or (c[1] == "Lt" and c[3] == ln):
                pv, M = t, other
            elif (c[1] == "GtE" and c[2] == ln) or (c[1] == "LtE" and c[3] == ln):
                pv, M = t, ("bin", "Sub", other, const(1))
            break
    if pv is None:
        problems.append("the preview is not selected by comparing len(values) with the row limit")
    else:
        def seq_of(x):
            if x[0] == "obj" and it.objs[x[1]].kind == "list" and isinstance(it.objs[x[1]].node, ast.Call) and len(it.objs[x[1]].init) == 1:
                return it.objs[x[1]].init[0]
            if x[0] == "call" and x[1] == ("name", "list") and len(x[2]) == 1:
                return x[2][0]
            return x
        full, short_ = pv[2], pv[3]
        H = T = None
        okh = full[0] == "bin" and full[1] == "Add" and full[2][0] == "bin" and full[2][1] == "Add" \
            and full[2][3][0] == "obj" and len(it.objs[full[2][3][1]].init) == 1
        if okh:
            h_, t_ = seq_of(full[2][2]), seq_of(full[3])
            if h_[0] == "sub" and h_[1] == vals and h_[2][0] == "slice" and h_[2][1] == SNONE and h_[2][3] == SNONE:
                H = h_[2][2]
            if t_[0] == "sub" and t_[1] == vals and t_[2][0] == "slice" and t_[2][2] == SNONE and t_[2][3] == SNONE \
                    and t_[2][1][0] == "un" and t_[2][1][1] == "USub":
                T = t_[2][1][2]
            # the one element between head and tail is the marker that is rendered as '...'
            Mk = it.objs[full[2][3][1]].init[0]
            rendered = False
            for e in it.events:
                v = e.value if e.kind == "elem" else (e.term[2][0] if e.kind == "call" and e.term[1][0] == "attr"
                                                      and e.term[1][2] == "append" and len(e.term[2]) == 1 else None)
                if v == const("...") and e.conds:
                    t, pol = e.conds[-1]
                    if pol and t[0] == "cmp" and t[1] in ("Is", "Eq") and Mk in (t[2], t[3]):
                        rendered = True
                for top in (e.value, e.term):
                    if top is None:
                        continue
                    for x in subterms(top):
                        if x[0] == "ifexp" and x[2] == const("...") and x[1][0] == "cmp" and x[1][1] in ("Is", "Eq") and Mk in (x[1][2], x[1][3]):
                            rendered = True
            if not rendered:
                problems.append("the element between head and tail is not rendered as '...'")
        if not okh or H is None or T is None:
            problems.append(f"the truncated preview is `{show(full, it)[:90]}`, expected values[:H] + [marker] + values[-T:]")
        if seq_of(short_) != vals:
            problems.append(f"short data is previewed as `{show(short_, it)[:50]}`, expected every row")
        if H is not None and T is not None:
            # as functions of the row limit n: both sources (explicit limit / global default)
            for label, mk_env in (("an explicit limit", lambda n: {P: n, DEF: 10 ** 6}), ("the global default", lambda n: {P: None, DEF: n})):
                bad = None
                for n in range(2, 14):
                    env = mk_env(n)
                    m, h, t = _ieval(M, env), _ieval(H, env), _ieval(T, env)
                    if m is None or h is None or t is None:
                        bad = "the sizes are not closed arithmetic over the row limit"
                        break
                    if m != n:
                        bad = (f"with a limit of {n} rows data is truncated as soon as it is longer than {m} rows: data that is not longer "
                               f"than the limit loses rows behind the ellipsis" if m < n else
                               f"with a limit of {n} rows data of up to {m} rows is shown in full")
                        break
                    if h + t != n or h < 1 or t < 1:
                        bad = f"with a limit of {n} rows the truncated preview shows {h} first and {t} last rows (must be >= 1 each, {n} in all)"
                        break
                if bad:
                    problems.append(f"for {label}: {bad}")
    ctx.ob("d.preview", f, "symmetric", not problems, "values[:H] + '...' + values[-T:] iff len > limit (H + T = limit), else everything",
           f.node, message="; ".join(problems[:2]))
    # the caller hands the per-table limit over unchanged, the same one for every displayed column
    g = prog.func("display._repr_table")
    gi = interp_of(prog, g)
    TBL = ("param", g.params[0])
    passed = [e for e in gi.events if e.kind == "call" and e.term[1] == ("name", "_format_column")]
    problems = []
    for e in passed:
        a = kw(e.term, f.params[1]) if kw(e.term, f.params[1]) is not None else (e.term[2][1] if len(e.term[2]) > 1 else None)
        if a is None:
            continue
        ok_a = False
        for n in (3, 5, 12):
            v = _ieval(a, {("attr", TBL, "_repr_rows"): n})
            ok_a = v == n
            if not ok_a:
                break
        leaves_ = []

        def leaves_of(t):
            if t[0] == "ifexp":
                leaves_of(t[2])
                leaves_of(t[3])
            elif t[0] == "call" and t[1] == ("name", "getattr") and len(t[2]) == 3 and not t[3] and t[2][1][0] == "const" \
                    and isinstance(t[2][1][2], str):
                # getattr(x, 'name', default)  ==  x.name if hasattr(x, 'name') else default
                leaves_.append(("attr", t[2][0], t[2][1][2]))
                leaves_of(t[2][2])
            else:
                leaves_.append(t)
        leaves_of(a)
        bad_leaves = [x for x in leaves_ if x != SNONE and x != ("attr", TBL, "_repr_rows")]
        if bad_leaves:
            problems.append(f"the per-table row limit is handed over as `{show(bad_leaves[0], gi)[:50]}`, not as tbl._repr_rows itself: tables "
                            f"with a _repr_rows override (peek) would show a different number of rows")
    ctx.ob("d.preview", f, "one-halving", not problems, "the per-table row limit reaches _format_column unchanged", f.node,
           message="; ".join(problems[:2]))
    ok = bool(passed)
    for e in passed:
        a = kw(e.term, f.params[1]) if kw(e.term, f.params[1]) is not None else (e.term[2][1] if len(e.term[2]) > 1 else None)
        if a is None or not e.loops or any(x[0] in ("elem", "idx") and x[-1] in e.loops for x in subterms(a)):
            ok = False
    ctx.ob("d.preview", g, "same-budget-all-columns", ok, "every displayed column is formatted with the same preview size", g.node,
           message="_repr_table does not format every displayed column with the same preview size")


# --------------------------------------------------------------------------------------------- e
def _limit_setting(ctx) -> None:
    """`all set_repr_rows settings`: the row limit is used as a slice bound (values[:H], values[-T:]), so a setting that is not an
    integer must be refused when it is MADE - accepted, it makes every later repr of data longer than the limit raise.  In
    set_repr_rows a non-None setting passes through operator.index() / int() or an isinstance(.., int) refusal before it is stored."""
    from ..sites2 import interp_of
    from ..symx import flatten_conds, subterms
    prog = ctx.prog
    f = prog.functions.get("display.set_repr_rows")
    if f is None:
        return
    it = interp_of(prog, f)
    P = ("param", f.params[0]) if f.params else None
    converted = any(e.kind == "call" and e.term[1] in (("attr", ("name", "operator"), "index"), ("name", "int"), ("name", "index"))
                    and e.term[2] and any(x == P for x in subterms(e.term[2][0])) for e in it.events)
    refused = any(e.kind == "raise" and any((not pol) and c[0] == "call" and c[1] == ("name", "isinstance") and c[2][0] == P
                                            and any(y == ("name", "int") for y in subterms(c[2][1])) for c, pol in flatten_conds(e.conds))
                  for e in it.events)
    stores = [n for n in ast.walk(f.node) if isinstance(n, ast.Assign) and any(isinstance(t, ast.Name) and t.id == "_REPR_ROWS_DEFAULT" for t in n.targets)]
    # ... and the limit that is stored IS the setting: evaluated over the three classes of setting (None, 0, a positive integer) - a
    # truth test of the setting (`n or 12`) turns the smallest limit, 0, into the default and rows that should be elided are shown
    pname = f.params[0] if f.params else None

    class _Stop(Exception):
        pass

    def ev(e, env):
        if isinstance(e, ast.Constant):
            return ("C", e.value)
        if isinstance(e, ast.Name):
            if e.id in env:
                return env[e.id]
            raise _Stop()
        if isinstance(e, ast.Call) and short(e.func) in ("operator.index", "int", "index") and len(e.args) == 1:
            return ev(e.args[0], env)
        if isinstance(e, ast.IfExp):
            return ev(e.body if truth(e.test, env) else e.orelse, env)
        if isinstance(e, ast.BoolOp):
            last = None
            for v in e.values:
                last = ev(v, env)
                t_ = tr_of(last)
                if isinstance(e.op, ast.Or) and t_:
                    return last
                if isinstance(e.op, ast.And) and not t_:
                    return last
            return last
        raise _Stop()

    def tr_of(v):
        return {"NONE": False, "ZERO": False, "POS": True}.get(v[0], bool(v[1]) if v[0] == "C" else True)

    def truth(t, env):
        if isinstance(t, ast.Compare) and len(t.ops) == 1 and isinstance(t.ops[0], (ast.Is, ast.IsNot)) \
                and isinstance(t.comparators[0], ast.Constant) and t.comparators[0].value is None:
            v = ev(t.left, env)
            return (v[0] == "NONE") == isinstance(t.ops[0], ast.Is)
        if isinstance(t, ast.UnaryOp) and isinstance(t.op, ast.Not):
            return not truth(t.operand, env)
        return tr_of(ev(t, env))

    def run_body(body, env):
        for st in body:
            if isinstance(st, (ast.Global, ast.Expr, ast.Pass)):
                continue
            if isinstance(st, ast.Assign) and len(st.targets) == 1 and isinstance(st.targets[0], ast.Name):
                env[st.targets[0].id] = ev(st.value, env)
            elif isinstance(st, ast.If):
                if run_body(st.body if truth(st.test, env) else st.orelse, env):
                    return True
            elif isinstance(st, ast.Return):
                return True
            else:
                raise _Stop()
        return False
    kept = None
    if pname is not None:
        kept = True
        try:
            for case in (("ZERO", 0), ("POS", 5)):
                env = {pname: case}
                run_body([s_ for s_ in f.node.body if not (isinstance(s_, ast.Expr) and isinstance(s_.value, ast.Constant))], env)
                if env.get("_REPR_ROWS_DEFAULT") != case:
                    kept = False
        except _Stop:
            kept = None
    ctx.ob("d.preview", f, "limit-is-the-setting", kept is not False,
           "the stored row limit is the setting itself for 0 and for a positive integer" + ("" if kept else " (not evaluated: outside the fragment)"),
           f.node, message="display.set_repr_rows does not store the setting it is given: a truth test of the setting (`n or 12`) turns the "
                           "smallest limit, 0, into the default - data of 3 to 12 rows is then shown in full, without the ellipsis, although it is "
                           "longer than the preview limit")
    ctx.ob("d.preview", f, "limit-is-an-integer", bool(stores) and (converted or refused),
           "a non-None row limit is converted with operator.index() (or refused unless an int) when it is set", f.node,
           message="display.set_repr_rows stores any object as the row limit: set_repr_rows(12.0) is accepted and every later repr of a vector "
                   "or table longer than the limit raises TypeError 'slice indices must be integers' (set_repr_rows('5') breaks every repr)")


def _headers(ctx) -> None:
    """Display names are the stored names and are printed verbatim (repr-quoted when needed) - on the symx event logs of
    _compute_headers and _header_rows (closures and helpers in line, comprehension or append loop alike)."""
    from ..sites2 import interp_of, strip_seq
    from ..symx import beval, const, elements, reduce_ifexp, show, show_conds, simplify, subterms
    prog = ctx.prog
    f = prog.func("display._compute_headers")
    it = interp_of(prog, f)
    COLS = ("param", f.params[0])
    problems = []
    rets = [e for e in it.events if e.kind == "return" and e.depth == 0]
    n = 0
    for e in rets:
        t = e.term
        if t[0] != "tuple" or not t[1]:
            problems.append(f"returns `{show(t, it)[:40]}`, not (display names, accessor names, dtypes)")
            continue
        disp = strip_seq(it, t[1][0])
        if disp[0] != "obj":
            problems.append(f"display names are `{show(disp, it)[:40]}`")
            continue
        for el in elements(it, disp):
            n += 1
            v = el.value if el.kind == "elem" else (el.term[2][0] if el.term[2] else None)
            ok = folded = False
            for L in el.loops:
                col = ("elem", COLS, L)
                nm = ("attr", col, "_name")
                # the stored name itself: '' is a name like any other, so NO NAME (None) must stay apart from every text - the raw
                # name, or a stand-in that is not a text chosen for `name is None` only
                NONE_ = ("const", "NoneType", None)
                if v == nm:
                    ok = True
                elif v[0] == "ifexp" and v[1] in (("cmp", "Is", nm, NONE_), ("cmp", "Is", NONE_, nm)) and v[3] == nm \
                        and not (v[2][0] == "const" and isinstance(v[2][2], str)):
                    ok = True
                elif v[0] == "ifexp" and v[1] in (("cmp", "IsNot", nm, NONE_), ("cmp", "IsNot", NONE_, nm)) and v[2] == nm \
                        and not (v[3][0] == "const" and isinstance(v[3][2], str)):
                    ok = True
                elif v in (("bool", "or", (nm, const(""))), ("ifexp", nm, nm, const("")), ("ifexp", ("cmp", "Is", nm, NONE_), const(""), nm)):
                    folded = True
            if not ok and folded:
                problems.append(f"a display name is `{show(v, it)[:50]}`: a column WITHOUT a name and a column named '' get the same display "
                                f"name - Table({{'': [1, 2]}}) loses its name row, and next to a named column an unnamed one is printed "
                                f"under the header ''")
            elif not ok:
                problems.append(f"a display name is `{show(v, it)[:50]}`, not the stored name `col._name`")
    if not n:
        problems.append("display names not found")
    ctx.ob("e.headers", f, "display-name", not problems, "display name = stored name (None, not '', when unnamed)", f.node,
           message="the header's display names are not the stored column names: " + "; ".join(problems[:2]))
    g = prog.func("display._header_rows")
    gi = interp_of(prog, g)
    DN = ("param", g.params[0])
    problems = []
    rows = []
    for oid, o in gi.objs.items():
        obj = ("obj", oid)
        els = elements(gi, obj)
        if els and all(any(gi.loops[L].iter == DN for L in e.loops) for e in els):
            rows.append((obj, els))
    rows = [r for r in rows if gi.objs[r[0][1]].kind in ("list", "listcomp")]
    # ... that become header rows: handed to append / insert / extend of the result, or returned (a helper list such as the names
    # without the elision marker, used only to decide WHETHER the row is shown, is not one)
    def _is_row(obj) -> bool:
        for e in gi.events:
            if e.kind == "call" and e.term[1][0] == "attr" and e.term[1][2] in ("append", "insert", "extend") and obj in e.term[2]:
                return True
            if e.kind == "return" and any(x == obj for x in subterms(e.term)):
                return True
        return False
    rows = [r for r in rows if _is_row(r[0])]
    if not rows:
        problems.append("no header row is built from the display names")
    for obj, els in rows:
        L = [L for L in els[0].loops if gi.loops[L].iter == DN][0]
        name = ("elem", DN, L)
        nq = ("call", ("name", "_needs_quote"), (name,), ())
        base = len(gi.loops[L].conds)
        # the marker of the elided middle columns may only be recognised by IDENTITY with a marker object: a comparison of the
        # name with a text by value also catches a column really named like that (it would lose its header)
        marker_atoms = {}
        for e in els:
            terms = [c for c, _ in e.conds[base:]] + ([e.value] if e.value is not None else []) + [e.term]
            for top in terms:
                for x in subterms(top):
                    if x[0] == "cmp" and name in (x[2], x[3]):
                        o = x[3] if x[2] == name else x[2]
                        if x[1] in ("Is", "IsNot") and o[0] == "name":
                            marker_atoms[("cmp", "Is", x[2], x[3])] = False
                        elif x[1] in ("Eq", "NotEq") and o[0] == "const" and isinstance(o[2], str):
                            problems.append(f"a display name is compared by value with the text {o[2]!r} (`{show(x, gi)[:40]}`): a column "
                                            f"really named {o[2]!r} is taken for the marker and loses its header")
        NONE_ = ("const", "NoneType", None)
        isnone = lambda b: {("cmp", "Is", name, NONE_): b, ("cmp", "Is", NONE_, name): b}
        for sit, atoms, want in (("needs quoting", {**marker_atoms, nq: True, name: True, **isnone(False)}, ("call", ("name", "repr"), (name,), ())),
                                 ("plain", {**marker_atoms, nq: False, name: True, **isnone(False)}, name),
                                 ("the empty name ''", {**marker_atoms, nq: True, name: False, **isnone(False)}, ("call", ("name", "repr"), (name,), ())),
                                 ("missing (the column has no name)", {**marker_atoms, nq: True, name: False, **isnone(True)}, const(""))):
            got = []
            for e in els:
                inside = e.conds[base:]
                vals = [beval(c, atoms) for c, pol in inside]
                if all((bv is not None and bool(bv) == pol) for bv, (c, pol) in zip(vals, inside)):
                    v = e.value if e.kind == "elem" else (e.term[2][0] if e.term[2] else None)
                    got.append(reduce_ifexp(simplify(v, atoms), atoms))
            if got != [want]:
                problems.append(f"a display name that is {sit} is printed as {[show(x, gi)[:40] for x in got]}, expected `{show(want, gi)}`")
    # the names row is shown whenever ANY displayed column has a name
    from ..symx import flatten_conds, single_element
    for obj, els in rows:
        uses = [e for e in gi.events if e.kind == "call" and e.term[1][0] == "attr" and e.term[1][2] in ("append", "insert", "extend")
                and obj in e.term[2]]
        uses += [e for e in gi.events if e.kind == "elem" and e.value == obj]
        if not uses:
            continue                      # returned directly / always part of the result
        for u in uses:
            fc = flatten_conds(u.conds)
            ok = False
            if len(fc) == 1 and fc[0][1] and fc[0][0][0] == "call" and fc[0][0][1] == ("name", "any") and len(fc[0][0][2]) == 1:
                G = fc[0][0][2][0]
                se = single_element(gi, G) if G[0] == "obj" else None
                src_ = gi.loops[se[0][0]].iter if se is not None and len(se[0]) == 1 else None
                pre_filt = []
                if src_ is not None and src_ != DN and src_[0] == "obj":
                    # (the names without the elision marker, computed first: [n for n in display_names if n is not MARKER])
                    se2 = single_element(gi, src_)
                    if se2 is not None and len(se2[0]) == 1 and gi.loops[se2[0][0]].iter == DN and se2[2] == ("elem", DN, se2[0][0]):
                        from ..symx import substitute as _subst
                        pre_filt = [(_subst(c_, {("elem", DN, se2[0][0]): ("elem", src_, se[0][0])}), p_) for c_, p_ in flatten_conds(se2[1])]
                        src_ok = True
                    else:
                        src_ok = False
                else:
                    src_ok = src_ == DN
                if se is not None and len(se[0]) == 1 and src_ok:
                    nm = ("elem", src_, se[0][0])
                    filt = pre_filt + list(flatten_conds(se[1]))
                    marker_only = len(filt) == 1 and not filt[0][1] and filt[0][0][0] == "cmp" and filt[0][0][1] == "Is" \
                        and nm in (filt[0][0][2], filt[0][0][3]) and (filt[0][0][3] if filt[0][0][2] == nm else filt[0][0][2])[0] == "name"
                    NONE_ = ("const", "NoneType", None)
                    has_name = se[2] in (("cmp", "IsNot", nm, NONE_), ("cmp", "IsNot", NONE_, nm), ("un", "Not", ("cmp", "Is", nm, NONE_)),
                                         ("un", "Not", ("cmp", "Is", NONE_, nm)))
                    if has_name and (filt == [] or marker_only):
                        ok = True
                    elif se[2] == nm and (filt == [] or marker_only):
                        problems.append("whether any column has a name is decided by the TRUTH of the display names: a table whose only "
                                        "names are '' - Table({'': [1, 2]}) - is printed without its name row, like a table without names")
                        ok = True
                    elif (has_name or se[2] == nm) and len(filt) == 1 and filt[0][0][0] == "cmp" and filt[0][0][1] == "Eq":
                        problems.append(f"the display names are filtered by value (`{show(filt[0][0], gi)[:40]}`): a column really named like "
                                        f"the marker does not count as named")
                        ok = True
            if not fc:
                ok = True
            if not ok:
                problems.append(f"the row of display names is shown only when `{show_conds(u.conds, gi)[:80]}`, expected: whenever any displayed "
                                f"column has a name (a table with some unnamed columns would lose the names of the others)")
    # a vector's own name line: shown whenever the vector HAS a name ('' included) - nothing in _repr_vector depends on the truth of
    # the name
    rv = prog.func("display._repr_vector")
    ri = interp_of(prog, rv)
    VN = ("attr", ("param", rv.params[0]), "_name")
    by_truth = [e for e in ri.events for c, _pol in flatten_conds(e.conds) if c == VN]
    named = [e for e in ri.events for c, _pol in flatten_conds(e.conds) if c[0] == "cmp" and c[1] in ("Is", "IsNot") and VN in (c[2], c[3])]
    ctx.ob("e.headers", rv, "vector-name", not by_truth and bool(named), "the name line of a vector is shown iff its name is not None", (by_truth[0].node if by_truth else rv.node),
           message="_repr_vector decides by the TRUTH of the name whether it is shown: a vector named '' is printed without its name line, "
                   "exactly like a vector without a name")
    ctx.ob("e.headers", g, "header-row", not problems, "names printed verbatim, quoted by repr when needed", g.node,
           message="_header_rows no longer prints the display names verbatim / repr-quoted: " + "; ".join(problems[:2]))


def _pure(ctx) -> None:
    prog = ctx.prog
    eff = effects_of(prog)
    for q in ("display._printr", "vector.Vector.__repr__", "table.Table.__repr__"):
        s = eff.summary(q)
        ws = [w for w in s.writes if w.kind == "content"]
        f = prog.func(q)
        ctx.ob("f.pure", f, "purity", not ws, "no content write", f.node,
               message=f"{q} changes the object: " + "; ".join(f"{w.root}.{w.fld} at {w.func}:{w.line}" for w in ws[:3]))


_D = "display"
MUTANTS = [
    dict(id="bool-in-float-column-shown-as-text", module=_D, old='				out.append(f"{v:d}.0")', new='				out.append(f"{v}.0")', rules=["a.partial-ops"],
         desc="seeded R8-C20-1: Vector([1.5, True]) prints True.0"),
    dict(id="repr-rows-setting-unchecked", module="display", old="		n = operator.index(n)\n", new="		pass\n", rules=["d.preview"], desc="reverts fix 30777a0"),
    dict(id="finite-guard-removed", module=_D, old="f\"{v:.1f}\" if math.isfinite(v) and v == int(v) else f\"{v:g}\"",
         new="f\"{v:.1f}\" if v == int(v) else f\"{v:g}\"", rules=["a.partial-ops"]),
    dict(id="clamp-removed", module=_D, old="	max_rows = max(2, max_rows)\n", new="", rules=["b.tail-slice"]),
    dict(id="clamp-to-zero", module=_D, old="	max_rows = max(2, max_rows)\n", new="	max_rows = max(0, max_rows)\n", rules=["b.tail-slice"]),
    dict(id="footer-uses-displayed-dtypes", module=_D, old="		unique_dtypes = set(dtypes_all)", new="		unique_dtypes = set(dtypes_displayed)",
         rules=["c.footer"]),
    dict(id="footer-single-from-displayed", module=_D, old="f\"<{dtypes_all[0]}>\"", new="f\"<{dtypes_displayed[0]}>\"", rules=["c.footer"]),
    dict(id="empty-vector-footer-says-empty", module=_D,
         old="	# An empty vector reports the shape (): it is still a vector of 0 elements with a dtype\n	if len(shape) <= 1:",
         new="	if not shape:\n		return \"# empty\"\n	if len(shape) == 1:", rules=["c.footer"],
         desc="the defect repaired by the empty-vector repr fix: no element count, no dtype for an empty vector"),
    dict(id="head-tail-asymmetric", module=_D, old="		preview = list(vals[:head]) + [_ELLIPSIS] + list(vals[-tail:])",
         new="		preview = list(vals[:head]) + [_ELLIPSIS] + list(vals[-(tail + 1):])", rules=["d.preview", "b.tail-slice"]),
    dict(id="ellipsis-marker-compared-by-value", module=_D,
         old="		preview = list(vals[:head]) + [_ELLIPSIS] + list(vals[-tail:])\n	else:\n		preview = list(vals)\n\n	# Type-sensitive formatting\n	out = []\n	for v in preview:\n		if v is _ELLIPSIS:",
         new="		preview = list(vals[:head]) + ['...'] + list(vals[-tail:])\n	else:\n		preview = list(vals)\n\n	# Type-sensitive formatting\n	out = []\n	for v in preview:\n		if v == '...':",
         rules=["a.element-truth"], desc="the defect repaired by fix cd85498: repr of an object vector with a Vector cell raises"),
    dict(id="cell-truthiness-before-kind", module=_D, old="		elif v is None:\n			out.append('None')",
         new="		elif v is None or not v and v != 0:\n			out.append('None')", rules=["a.element-truth"]),
    dict(id="header-shows-sanitised", module=_D, old="		disp = col._name\n", new="		disp = san\n", rules=["e.headers"]),
    dict(id="width-from-first-cell", module=_D, old="		body_width = max(len(s) for s in formatted_cols[c]) if formatted_cols[c] else 0",
         new="		body_width = len(formatted_cols[c][0])", rules=["b.empty-guards"]),
    dict(id="max-unguarded", module=_D, old="	max_len = max(len(s) for s in out) if out else 0", new="	max_len = max(len(s) for s in out)", rules=["b.empty-guards"]),
    dict(id="double-halving", module=_D,
         edits=[(_D, "	max_rows = max(2, max_rows)\n", "	max_rows = max(2, max_rows // 2)\n", 1)],
         rules=["d.preview"]),
    dict(id="footer-counts-preview", module=_D, old="		return f\"# {len(pv)} element vector <{dt}>\"", new="		return f\"# {min(len(pv), 12)} element vector <{dt}>\"",
         rules=["c.footer"]),
    dict(id="repr-marks-tame", module=_D, old="	nd = len(pv.shape)\n	if nd <= 1:", new="	nd = len(pv.shape)\n	pv._display_as_row = False\n	if nd <= 1:",
         rules=["f.pure"]),
    dict(id="header-guards-disagree", module=_D, old="	if v._name is not None:\n		header_text", new="	if v._name:\n		header_text",
         rules=["g.definite-assignment"], desc="a vector named '' reaches header_text unbound"),
    dict(id="header-binding-only-when-quoted", module=_D, old="		header_text = repr(v._name) if _needs_quote(v._name) else v._name\n",
         new="		if _needs_quote(v._name):\n			header_text = repr(v._name)\n", rules=["g.definite-assignment"]),
    dict(id="vector-name-shown-by-truth", module=_D, rules=["e.headers"], desc="reverts fix d7527a4 (vector part): a vector named '' prints no name line",
         edits=[(_D, "	if v._name is not None:\n		header_text", "	if v._name:\n		header_text", 1),
                (_D, "	if v._name is not None:\n		lines.append(header_text", "	if v._name:\n		lines.append(header_text", 1)]),
    dict(id="unnamed-column-under-empty-name", module=_D, rules=["e.headers"], desc="reverts fix d7527a4 (table part)",
         old="		disp = col._name\n", new="		disp = col._name or \"\"\n"),
    dict(id="name-row-by-truth", module=_D, rules=["e.headers"], desc="reverts fix d7527a4 (any_display)",
         old="	any_display = any(n is not None for n in display_names if n is not _COL_DOTS)", new="	any_display = any(n for n in display_names if n is not _COL_DOTS)"),
    dict(id="twin-header-guard-stronger-at-use", module=_D, twin=True,
         old="	if v._name is not None:\n		lines.append(header_text", new="	if v._name is not None and len(formatted) >= 0:\n		lines.append(header_text"),
    dict(id="twin-finite-nested-if", module=_D, twin=True,
         old="				out.append(f\"{v:.1f}\" if math.isfinite(v) and v == int(v) else f\"{v:g}\")",
         new="				if math.isfinite(v) and v == int(v):\n					out.append(f\"{v:.1f}\")\n				else:\n					out.append(f\"{v:g}\")"),
]

"""C03 - a vector's reported dtype is always truthful.

Decided as a typing discipline over every construction site of the package (E5) plus an
exact abstract evaluation (E6) of the accept / widen / reject logic of in-place assignment:

  a  site typing: a (data provenance, dtype provenance) pair must be admissible - computed or
     concatenated values may never be labelled with an operand's dtype, a constant bool dtype
     needs syntactically boolean elements, a non-nullable constant dtype needs elements that
     cannot be None, `with_nullable(False)` needs the not-None filter ...
  b  every value stored by Vector.__setitem__ has been validated against the dtype the vector
     has AT THE STORE (loop body evaluated for every (dtype, value type) cell; no early exit;
     post-loop brings self._dtype to the computed target)
  c  validate_scalar never accepts a value that does not belong to the dtype
"""
from __future__ import annotations

import ast
from typing import Dict, List, Optional, Set, Tuple

from ..absint import DT, NONE, Cls, Const, Inst, Interp, Obj, Raised, Tup, _Break, _Continue, _Return, value_of_tag
from ..astutil import Defs
from ..cfg import PARAM, cfg_of
from ..core import AnalysisError, FuncInfo, attr_chain, cshort, kwarg, short, walk_no_nested, walk_stmts
from ..sites import (Resolver, Site, all_sites, comp_of, fill_of, is_bool_expr, is_never_none_expr, same_elements_of,
                     vector_valued)
from .c04 import CORE_TAGS, NUMERIC, SUB_TAGS, TEMPORAL, canon, geq

WIDENS = {("bool", "int"), ("bool", "float"), ("bool", "complex"), ("int", "float"), ("int", "complex"),
          ("float", "complex"), ("date", "datetime")}
# the statement's ladders: bool < int < float < complex and date < datetime - every upward pair is a supported promotion
PROMOTABLE = set(WIDENS)


def fits(tag: str, d: DT) -> bool:
    if tag == "NoneType":
        return d.nullable
    if d.kind == "object":
        return True
    k = canon(tag)
    return k == d.kind or (k, d.kind) in WIDENS


def run(ctx) -> None:
    ctx.rule("a.site-typing", "every Vector(...) construction with an explicit dtype has an admissible (data, dtype) "
                              "provenance pair (see table in DESIGN.md 2/C03)", 15)
    ctx.rule("a.copy-callers", "every `x.copy(data)` passes elements of x itself (slice/mask/gather/permutation) or is a table "
                               "construction: copy() relabels its data with x's dtype", 5)
    ctx.rule("a.inferred-sites", "all other construction sites pass no dtype: the dtype is inferred from the very values stored", 50)
    ctx.rule("b.validation-loop", "for every (vector dtype, running target, value type): one iteration of __setitem__'s "
                                  "validation loop either rejects with SerifTypeError exactly when no promotion exists, or "
                                  "leaves a target that the value fits and that is not narrower; no early exit; no write to "
                                  "self before the loop ends", 200)
    ctx.rule("b.target-applied", "after the loop, self._dtype is brought to the computed target (kind by _promote, "
                                 "nullability by with_nullable) before the storage is replaced", 20)
    ctx.rule("b.promote", "_promote's branches: (from kind, to kind) pairs equal _can_promote's table, elements converted by "
                          "the constructor of the new kind with None kept, nullability preserved", 4)
    ctx.rule("c.validate-scalar", "validate_scalar(value, dtype) returns only for values that belong to dtype (exact kind or a "
                                  "documented widening, None only if nullable) and what it returns is of dtype's kind", 300)
    ctx.rule("d.inference-truthful", "at every reachable state of the inference automaton the inferred dtype admits every "
                                     "type that may have been seen on a path to that state (None only if nullable)", 10)
    ctx.section("sites", _sites, ctx)
    ctx.section("row-dtype", _row_dtype, ctx)
    ctx.section("inference", _inference_truthful, ctx)
    ctx.section("setitem", _setitem, ctx)
    ctx.section("promote", _promote, ctx)
    ctx.section("validate_scalar", _validate_scalar, ctx)
    ctx.section("kind_of_type", _kind_of_type, ctx)
    ctx.not_decided += [
        "elements produced by user callables (cast with an arbitrary callable, apply=) - there the site is ABSENT/INFER, "
        "i.e. truthful by construction",
        "run-time types of operator results (delegated to inference at the site)",
    ]


# =========================================================================================== sites
def _dtype_texts(e: ast.AST) -> str:
    return short(e, 80)


def _is_of(e: ast.AST) -> Optional[str]:
    """obj._dtype / obj.schema()  -> obj"""
    ch = attr_chain(e)
    if ch and ch[-1] == "_dtype":
        return ".".join(ch[:-1])
    if isinstance(e, ast.Call) and not e.args and isinstance(e.func, ast.Attribute) and e.func.attr == "schema":
        ch = attr_chain(e.func.value)
        if ch:
            return ".".join(ch)
    return None


def _const_dtype(e: ast.AST) -> Optional[Tuple[str, object]]:
    """DataType(K[, nullable=N]) / bare python type -> (K text, nullable expr or False)"""
    if isinstance(e, ast.Name) and e.id in ("object", "bool", "int", "float", "str", "complex", "bytes", "date", "datetime"):
        return (e.id, False)
    if isinstance(e, ast.Call) and isinstance(e.func, ast.Name) and e.func.id == "DataType" and (e.args or kwarg(e, "kind")):
        k = e.args[0] if e.args else kwarg(e, "kind")
        n = e.args[1] if len(e.args) > 1 else kwarg(e, "nullable")
        if n is None:
            nn = False
        elif isinstance(n, ast.Constant):
            nn = bool(n.value)
        else:
            nn = n
        return (short(k), nn)
    return None


def _const_bool_seq(d: ast.AST) -> bool:
    """[True] * n / (False,) * n / [True, False] ..."""
    if isinstance(d, ast.BinOp) and isinstance(d.op, ast.Mult):
        return _const_bool_seq(d.left) or _const_bool_seq(d.right)
    if isinstance(d, (ast.List, ast.Tuple)):
        return all(isinstance(e, ast.Constant) and isinstance(e.value, bool) for e in d.elts)
    if isinstance(d, ast.Call) and short(d.func) in ("tuple", "list") and len(d.args) == 1:
        return _const_bool_seq(d.args[0])
    return False


def _data_defs(res: Resolver, site: Site) -> List[object]:
    if site.data is None:
        return []
    return res.resolve(site.data) if isinstance(site.data, ast.Name) else [site.data]


def _ndims_guard(res: Resolver, expr: ast.AST, obj: str) -> bool:
    for t, pol in res.guards(expr):
        if pol and short(t) in (f"{obj}.ndims() == 2", f"len({obj}.shape) == 2", f"len({obj}.shape) > 1"):
            return True
        if pol and isinstance(t, ast.BoolOp) and isinstance(t.op, ast.And) and any(
                short(v) in (f"{obj}.ndims() == 2",) for v in t.values):
            return True
    return False


# functions whose construction sites are still judged by the syntax-level idiom checks below
_OLD_IDIOM_FUNCS: set = set()


def _sites(ctx) -> None:
    prog = ctx.prog
    n_inferred = 0
    n_total = 0
    for s in all_sites(prog):
        if s.func.qualname in _OLD_IDIOM_FUNCS:
            n_total += 1
            try:
                n_inferred += _one_site(ctx, s)
            except AnalysisError as e:
                ctx.analysis_errors.append(f"sites: {e}")
    from ..sites2 import all_sites2
    for s2 in all_sites2(prog):
        if s2.qual in _OLD_IDIOM_FUNCS or s2.top.qualname in _OLD_IDIOM_FUNCS:
            continue
        n_total += 1
        try:
            n_inferred += _one_site2(ctx, s2)
        except AnalysisError as e:
            ctx.analysis_errors.append(f"sites: {e}")
    ctx.extra["construction_sites"] = {"total": n_total, "dtype_absent": n_inferred}


# ------------------------------------------------------------------------------------------- term-based site typing
def ndims_guard2(s2, obj) -> bool:
    """Is the site reached only when `obj` is 2-dimensional (a table: per-column recursion)?"""
    from ..symx import const, flatten_conds
    nd = ("call", ("attr", obj, "ndims"), (), ())
    ls = ("call", ("name", "len"), (("attr", obj, "shape"),), ())
    for t, pol in flatten_conds(s2.ev.conds):
        if pol and t in (("cmp", "Eq", nd, const(2)), ("cmp", "Eq", ls, const(2)), ("cmp", "Gt", ls, const(1)), ("cmp", "Gt", nd, const(1))):
            return True
    # a private method introduced later that could not be evaluated in line (*args): what holds at EVERY call `self.<helper>(...)`
    # holds for its receiver inside it
    from ..sites2 import standalone_interps
    from ..symx import baseline_functions
    top = s2.top
    if top.qualname not in baseline_functions() and top.is_method and top.params and obj == ("param", top.params[0]):
        sites = []
        for q, it in standalone_interps(s2.it.prog).items():
            if it is s2.it:
                continue
            caller = s2.it.prog.functions.get(q)
            if caller is None or not caller.params:
                continue
            cs = ("param", caller.params[0])
            for e in it.events:
                if e.kind == "call" and e.term[1] == ("attr", cs, top.name):
                    nd2 = ("call", ("attr", cs, "ndims"), (), ())
                    ls2 = ("call", ("name", "len"), (("attr", cs, "shape"),), ())
                    sites.append(any(pol and t in (("cmp", "Eq", nd2, const(2)), ("cmp", "Eq", ls2, const(2)), ("cmp", "Gt", ls2, const(1)),
                                                   ("cmp", "Gt", nd2, const(1))) for t, pol in flatten_conds(e.conds)))
        if sites and all(sites):
            return True
    return False


def _is_param_of_top(s2, t) -> bool:
    return t[0] == "param" and t[1] in s2.top.params


def _local_root(t):
    while t[0] in ("sub", "attr"):
        t = t[1]
    return t


def _one_site2(ctx, s2) -> int:
    from ..sites2 import leaves, vector_valued
    from ..symx import NONE as SNONE
    f = s2.func
    it = s2.it
    if s2.kind == "Table":
        return 0
    if s2.kind == "copy":
        _copy_site2(ctx, s2)
        return 0
    if s2.dtype is None or s2.dtype == SNONE:
        ctx.ob("a.inferred-sites", f, f"site:{_ord(ctx, f)}", True, f"{s2.sh(s2.call, 70)}: dtype inferred", s2.node)
        return 1
    if vector_valued(it, s2.data, f):
        # columns handed to Vector(...): a Table if their lengths agree (the dtype is then not used), otherwise a vector whose CELLS
        # are the column vectors - a scalar dtype taken from a (non-table) operand does not describe those
        from ..sites2 import dtype_of
        lab = [dtype_of(dt) for dt in leaves(s2.dtype)]
        bad = s2.kind == "Vector" and f.cls not in ("Table", "Row") and any(
            o is not None and o == ("param", s2.top.params[0]) for o in lab) if s2.top.params else False
        ctx.ob("a.site-typing", f, f"site:{_ord(ctx, f)}:table", not bad, f"table construction `{s2.sh(s2.call, 60)}`", s2.node,
               message=f"`{s2.sh(s2.call, 70)}` stacks column vectors under the dtype of `{s2.top.params[0] if s2.top.params else '?'}`: when "
                       f"their lengths differ no Table is made and the result is a vector of vectors that reports a scalar dtype")
        return 0
    datas = leaves(s2.data)
    dts = leaves(s2.dtype)
    if s2.qual == "vector.Vector.__new__":
        ctx.ob("a.site-typing", f, f"site:{_ord(ctx, f)}:{s2.sh(s2.dtype, 30)}", True,
               "Vector.__new__ hands its own arguments to Table(...): a table construction", s2.node)
        return 0
    if s2.qual == "vector.Vector.new" or s2.top.qualname == "vector.Vector.new":
        ok, msg = _new_idiom2(ctx, s2, dts, datas)
        ctx.ob("a.site-typing", f, f"site:{_ord(ctx, f)}:{s2.sh(s2.dtype, 30)}", ok, msg if ok else "", s2.node, message=msg)
        return 0
    if s2.top.qualname in ("vector.Vector.cast", "vector.Vector.fillna"):
        idiom = _cast_idiom2 if s2.top.qualname.endswith(".cast") else _fillna_idiom2
        ok, msg = idiom(ctx, s2)
        ctx.ob("a.site-typing", s2.top, f"site:{_ord(ctx, s2.top)}:{s2.sh(s2.dtype, 30)}", ok, msg if ok else "", s2.node, message=msg)
        return 0
    problems, notes = [], []
    # (data and dtype chosen TOGETHER by one condition - a helper that returns (values, dtype) from two branches: each dtype
    #  alternative is judged against the data alternatives of its own branch)
    def _lwc3(t, conds=()):
        """alternatives with the conditions that select them, each condition kept whole (`a and b` is one literal)"""
        if t is None:
            return []
        if t[0] == "ifexp":
            return _lwc3(t[2], conds + ((t[1], True),)) + _lwc3(t[3], conds + ((t[1], False),))
        return [(t, conds)]
    dts_c, datas_c = _lwc3(s2.dtype), _lwc3(s2.data)
    own = {}
    if len(dts_c) == len(dts) and len(datas_c) == len(datas):
        for (dt_, cd_) in dts_c:
            own[id(dt_)] = [d_ for d_, cx_ in datas_c if not any((c_, not p_) in cx_ for c_, p_ in cd_)]
    for dt in dts:
        mine = own.get(id(dt)) or datas
        v, why = _admissible2(ctx, s2, dt, mine)
        if v is None:
            raise AnalysisError(f"{f.qualname} line {getattr(s2.node, 'lineno', '?')}: cannot classify construction site "
                                f"`{s2.sh(s2.call, 90)}` (dtype `{s2.sh(dt, 50)}`): {why}")
        (notes if v else problems).append(why)
    ctx.ob("a.site-typing", f, f"site:{_ord(ctx, f)}:{s2.sh(s2.dtype, 30)}", not problems, "; ".join(notes), s2.node,
           message="; ".join(problems))
    return 0


def _admissible2(ctx, s2, dt, datas):
    """(True, note) admissible; (False, message) violation; (None, reason) not classifiable."""
    from ..sites2 import (comp_parts, const_bool_seq, const_dtype, dtype_of, element_values, is_bool_term, is_never_none_term,
                          same_elements_of, strip_seq)
    from ..symx import NONE as SNONE
    from ..symx import flatten_conds, subterms
    it = s2.it
    f = s2.func
    sh = s2.sh
    if _is_param_of_top(s2, dt):
        return (None, "dtype comes from a parameter")
    if dt == SNONE:
        return (True, "dtype None -> inferred")
    # ---- INFER(same data)
    if dt[0] == "call" and dt[1] == ("name", "infer_dtype") and len(dt[2]) == 1:
        if strip_seq(it, dt[2][0]) == strip_seq(it, s2.data):
            return (True, f"INFER over the data itself ({sh(s2.data, 30)})")
        # (the data alternatives of this dtype's own branch: a helper that returns (values, dtype) from two branches)
        if datas and all(strip_seq(it, dt[2][0]) == strip_seq(it, d_) for d_ in datas):
            return (True, f"INFER over the data of its own branch ({sh(datas[0], 30)})")
        return (False, f"dtype is inferred from `{sh(dt[2][0], 50)}` but the vector stores `{sh(s2.data, 50)}`")
    # ---- CONST
    cd = const_dtype(dt)
    if cd is not None:
        K, nn = cd
        Kt = K[1] if K[0] == "name" else sh(K, 20)
        evs = [element_values(it, d) for d in datas if not _is_param_of_top(s2, d)]
        has_param = any(_is_param_of_top(s2, d) for d in datas)
        if Kt == "bool" and nn is False:
            if datas and not has_param and all(const_bool_seq(it, d) for d in datas):
                return (True, "CONST(bool) over constant booleans")
            if datas and not has_param and all(e is not None for e in evs):
                bad = [v for e in evs for v, _ in e if not is_bool_term(v)]
                if bad:
                    return (False, f"dtype is the constant non-nullable <bool> but an element is `{sh(bad[0], 60)}`, which "
                                   f"need not be a bool (e.g. `&` on ints yields ints) or can be None")
                return (True, "CONST(bool) with boolean element expressions")
            return (None, "data of a constant-bool site is not a comprehension")
        if nn is False:
            if datas and not has_param and all(e is not None and all(is_never_none_term(it, v) for v, _ in e) for e in evs) and Kt == "object":
                return (True, "CONST(object, non-nullable) with elements that cannot be None")
            for d in datas:
                if not _is_param_of_top(s2, d) and same_elements_of(it, d):
                    obj = same_elements_of(it, d)[0]
                    return (False, f"dtype is the constant non-nullable <{Kt}> but the data are {sh(obj, 20)}'s own elements, which may "
                                   f"contain None" + ("" if Kt == "object" else " or values of another kind"))
            return (None, f"constant non-nullable <{Kt}> over unclassified data")
        # a flag that was being collected by a loop inside a `try` and is read in the handler: the exception cut the loop short, so
        # the flag knows only the Nones of the positions visited so far - the data stored here come from another pass over everything
        if not isinstance(nn, bool) and any(x == ("name", "<raised-before>") for x in subterms(nn)) and datas:
            may_none = False
            for d in datas:
                evs_ = element_values(it, d)
                if evs_ is None or any(v == SNONE or (v[0] == "ifexp" and SNONE in (v[2], v[3])) for v, _ in evs_):
                    may_none = True
            if may_none:
                return (False, f"the nullable flag of the constant <{Kt}> label (`{sh(nn, 50)}`) was collected by a loop that the handled exception "
                               f"cut short, while the stored values are built by another pass and can hold a None the flag never saw: a "
                               f"non-nullable label over data with None")
        # object kind, nullable exactly when the stored data holds a None: any(v is None for v in <the data>)
        if Kt == "object" and nn[0] == "call" and nn[1] == ("name", "any") and len(nn[2]) == 1 and not nn[3] and nn[2][0][0] == "obj" \
                and it.objs[nn[2][0][1]].kind in ("genexp", "listcomp") and datas:
            g = nn[2][0]
            gev = [e for e in it.events if e.kind == "elem" and e.term == g]
            if len(gev) == 1:
                e = gev[0]
                gl = [L for L in e.loops if L not in it.objs[g[1]].loops]
                if len(gl) == 1 and e.conds == it.objs[g[1]].conds and e.value == ("cmp", "Is", ("elem", it.loops[gl[0]].iter, gl[0]), SNONE) \
                        and all(strip_seq(it, it.loops[gl[0]].iter) == strip_seq(it, d) for d in datas):
                    return (True, "CONST(object), nullable iff a None is among the stored values")
                if len(gl) == 1 and e.value == ("cmp", "Is", ("elem", it.loops[gl[0]].iter, gl[0]), SNONE):
                    # the flag counts the Nones of ANOTHER sequence: if the stored values can hold a None of their own (a None-keeping
                    # element expression), the label is non-nullable over data with None
                    may_none = False
                    for d in datas:
                        evs_ = element_values(it, d)
                        if evs_ is None or any(v == SNONE or (v[0] == "ifexp" and SNONE in (v[2], v[3])) for v, _ in evs_):
                            may_none = True
                    if may_none:
                        return (False, f"the nullable flag of the constant <{Kt}> label counts the Nones of `{sh(it.loops[gl[0]].iter, 40)}`, not of "
                                       f"the stored values, which can hold a None of their own (one that comes from the other operand): a "
                                       f"non-nullable label over data with None")
        # object kind with the SOURCE's nullability over the source's own elements (to_object)
        src = None
        okn = True
        for nd in leaves_of(nn):
            if nd == ("const", "bool", True):
                continue
            if nd[0] == "attr" and nd[2] == "nullable" and nd[1][0] == "attr" and nd[1][2] == "_dtype":
                src = nd[1][1]
            else:
                okn = False
        if Kt == "object" and okn and src is not None and datas and all(
                not _is_param_of_top(s2, d) and same_elements_of(it, d) and same_elements_of(it, d)[0] == src for d in datas):
            return (True, f"CONST(object) with {sh(src, 20)}'s own nullability over {sh(src, 20)}'s own elements")
        return (None, f"constant dtype <{Kt}> with computed nullability")
    # ---- OF(obj).with_nullable(X)
    if dt[0] == "call" and dt[1][0] == "attr" and dt[1][2] == "with_nullable":
        from ..symx import kw as _kw
        base = dt[1][1]
        obj = dtype_of(base)
        arg = dt[2][0] if dt[2] else _kw(dt, "nullable")
        if obj is not None and arg == ("const", "bool", False):
            for d in datas:
                se = same_elements_of(it, d) if not _is_param_of_top(s2, d) else None
                if not (se and se[0] == obj and se[1] == "filter-not-none"):
                    return (False, f"dtype is {sh(obj, 20)}'s made non-nullable, but the data `{sh(d, 60)}` "
                                   f"are not {sh(obj, 20)}'s elements filtered by `is not None`")
            return (True, f"OF({sh(obj, 20)}).with_nullable(False) over its not-None elements")
        objs = {dtype_of(b) for b in leaves_of(base)}
        if len(objs) == 1 and None not in objs:
            o = next(iter(objs))
            for d in datas:
                if _is_param_of_top(s2, d):
                    continue
                se = same_elements_of(it, d)
                if not (se and se[0] == o) and _local_root(strip_seq(it, d))[0] == "obj":
                    return (False, f"`{sh(d, 60)}` (a locally built buffer, not {sh(o, 20)}'s own elements) is labelled with {sh(o, 20)}'s "
                                   f"kind and a computed nullability instead of being re-inferred: padding or gathered values need not fit it")
        return (None, "with_nullable with a computed flag")
    # ---- OF(obj)
    obj = dtype_of(dt)
    if obj is not None:
        kind_is_bool = (("cmp", "Is", ("attr", ("attr", obj, "_dtype"), "kind"), ("name", "bool")), True) in flatten_conds(s2.ev.conds)
        for d in datas:
            ds = strip_seq(it, d)
            if ds[0] == "tuple" and not ds[1]:
                continue           # no elements: every dtype is truthful
            if ds[0] == "obj" and it.objs[ds[1]].kind == "list" and isinstance(it.objs[ds[1]].node, ast.List) \
                    and not it.objs[ds[1]].init and not it._mutated(ds):
                continue
            if _is_param_of_top(s2, d):
                if s2.qual == "vector.Vector.copy":
                    continue       # copy(new_values): checked at every caller (a.copy-callers)
                return (None, "data is a parameter")
            se = same_elements_of(it, d)
            if se and se[0] == obj:
                continue
            if ds == obj:
                continue           # list(v) / tuple(v) under v's own dtype: iterating a vector yields its own elements
            if s2.qual == "vector.Vector.copy" and _copy_sources_only2(s2, d, obj):
                continue           # new_values / self._underlying selected by or / if-else / list(): same sources
            evs = element_values(it, d)
            if evs is not None and ds[0] == "obj" and it.objs[ds[1]].kind == "list" and not isinstance(it.objs[ds[1]].node, ast.Call):
                # a buffer filled by append(): what is appended?
                stor = ("attr", obj, "_underlying")
                own = lambda v: (v[0] == "elem" and v[1] in (stor, obj)) or (v[0] == "sub" and v[1] in (stor, obj))
                computed = [v for v, _ in evs if v != SNONE and not own(v)]
                if computed:
                    return (False, f"values accumulated into a buffer (`{sh(computed[0], 50)}`) are labelled with {sh(obj, 20)}'s dtype "
                                   f"without re-inference: the result can hold values {sh(obj, 20)}'s dtype does not admit")
                if all(own(v) for v, _ in evs):
                    continue
                return (None, f"buffer under {sh(obj, 20)}'s dtype not classified")
            if evs is not None and evs and all(is_bool_term(v) for v, _ in evs) and kind_is_bool:
                continue           # boolean results relabelled bool under a kind-is-bool guard
            concatenated = ds[0] == "bin"
            if evs is not None or concatenated or (se and se[0] != obj):
                what = "computed" if evs is not None else "concatenated" if concatenated else f"{sh(se[0], 20)}'s"
                return (False, f"{what} values `{sh(d, 60)}` are labelled with {sh(obj, 20)}'s dtype without re-inference: the result "
                               f"can hold values {sh(obj, 20)}'s dtype does not admit")
            if _local_root(ds)[0] == "obj":
                return (False, f"`{sh(d, 60)}` (a locally built buffer, not {sh(obj, 20)}'s own elements) is labelled with "
                               f"{sh(obj, 20)}'s dtype without re-inference: padding or gathered values need not fit it")
            return (None, f"data `{sh(d, 50)}` under {sh(obj, 20)}'s dtype not classified")
        return (True, f"OF({sh(obj, 20)}) over its own elements")
    if dt[0] == "call" and dt[1] not in (("name", "infer_dtype"), ("name", "DataType")):
        for d in datas:
            if _is_param_of_top(s2, d):
                continue
            if _local_root(strip_seq(it, d))[0] == "obj" and not same_elements_of(it, d):
                return (False, f"`{sh(d, 50)}` (a locally built buffer) is typed by `{sh(dt, 60)}` instead of by inference over its "
                               f"own values: padding or gathered values need not fit a dtype computed elsewhere")
    return (None, "dtype expression not recognised")


def leaves_of(t):
    from ..sites2 import leaves
    return leaves(t) if isinstance(t, tuple) else [("const", "bool", bool(t))]


def _copy_sources_only2(s2, d, obj, depth: int = 0) -> bool:
    """Is the data of Vector.copy built only from its `new_values` parameter and obj's own storage?"""
    from ..sites2 import same_elements_of, strip_seq
    it = s2.it
    if depth > 6:
        return False
    if _is_param_of_top(s2, d):
        return True
    ds = strip_seq(it, d)
    if ds != d:
        return _copy_sources_only2(s2, ds, obj, depth + 1)
    if d[0] == "bool":
        return all(_copy_sources_only2(s2, v, obj, depth + 1) for v in d[2])
    if d[0] == "ifexp":
        return _copy_sources_only2(s2, d[2], obj, depth + 1) and _copy_sources_only2(s2, d[3], obj, depth + 1)
    se = same_elements_of(it, d)
    return bool(se and se[0] == obj)


def _copy_site2(ctx, s2) -> None:
    from ..sites2 import leaves, same_elements_of, strip_seq
    from ..symx import NONE as SNONE
    f = s2.func
    it = s2.it
    recv = s2.recv
    rs = s2.sh(recv, 30)
    if s2.data is None or s2.data == SNONE:
        ctx.ob("a.copy-callers", f, f"copy:{_ord(ctx, f)}", True, f"{rs}.copy(): same elements", s2.node)
        return
    table = (f.cls == "Table" and recv == ("param", "self")) or ndims_guard2(s2, recv)
    if table:
        ctx.ob("a.copy-callers", f, f"copy:{_ord(ctx, f)}", True,
               f"{rs}.copy(<per-column results>) on a table (a Table has no dtype; columns are re-inferred)", s2.node)
        return
    problems = []
    for d in leaves(s2.data):
        if _is_param_of_top(s2, d):
            problems.append(f"{rs}.copy(<parameter>) relabels caller data with {rs}'s dtype")
            continue
        if strip_seq(it, d) == ("tuple", ()):
            continue                    # no element at all: any dtype is truthful
        se = same_elements_of(it, d)
        if not (se and se[0] == recv):
            problems.append(f"`{rs}.copy({s2.sh(d, 60)})` labels values that are not {rs}'s own elements with {rs}'s dtype")
    ctx.ob("a.copy-callers", f, f"copy:{_ord(ctx, f)}", not problems, f"{rs}.copy({s2.sh(s2.data, 40)}): {rs}'s own elements",
           s2.node, message="; ".join(problems))


def _cast_idiom2(ctx, s2):
    """Vector.cast: the result stores a buffer; its dtype is either inferred from that buffer or DataType(target, nullable=flag) where
    the flag starts False and is set exactly where a None is put into the buffer."""
    from ..sites2 import const_dtype, leaves, strip_seq
    from ..symx import NONE as SNONE
    from ..symx import elements, show
    it = s2.it
    problems = []
    buf = strip_seq(it, s2.data) if s2.data is not None else None
    if buf is None or buf[0] != "obj":
        raise AnalysisError("cast: result data is not tuple(<buffer>)")
    for dt in leaves(s2.dtype):
        if dt[0] == "call" and dt[1] == ("name", "infer_dtype") and len(dt[2]) == 1:
            if strip_seq(it, dt[2][0]) != buf:
                problems.append(f"dtype inferred from `{show(dt[2][0], it)[:40]}`, not from the result buffer")
            continue
        cd = const_dtype(dt)
        if cd is not None and isinstance(cd[1], tuple) and cd[1][0] == "call" and cd[1][1] == ("name", "any") and len(cd[1][2]) == 1:
            # nullable=any(e is None for e in <source>): the flag computed from the SOURCE elements instead of being tracked in the
            # conversion loop.  The same obligation: every None put into the buffer is put there for a source element that is None
            # (then the flag is True whenever the buffer holds such a None)
            from ..symx import single_element as _single
            from ..symx import flatten_conds as _fcs
            se = _single(it, cd[1][2][0])
            src = None
            if se is not None and len(se[0]) == 1 and not se[1]:
                srcit = it.loops[se[0][0]].iter
                if se[2] == ("cmp", "Is", ("elem", srcit, se[0][0]), SNONE):
                    src = strip_seq(it, srcit)
            if src is None:
                raise AnalysisError(f"cast: nullable flag `{show(cd[1], it)[:60]}` is not any(<element> is None for <element> in <source>)")
            for e in elements(it, buf):
                v = e.value if e.kind == "elem" else (e.term[2][0] if e.kind == "call" and e.term[2] else None)
                if v != SNONE:
                    continue
                for_none_source = False
                for L2 in e.loops:
                    lp2 = it.loops[L2]
                    cands = [x for x in (lp2.iter, lp2.domain) if x is not None]
                    for c in cands:
                        if strip_seq(it, c) == src and any(pol and t[0] == "cmp" and t[1] == "Is" and t[3] == SNONE and t[2][0] == "elem"
                                                           and t[2][2] == L2 for t, pol in _fcs(e.conds)):
                            for_none_source = True
                if not for_none_source:
                    problems.append(f"a None is put into the result buffer for a source element that is not None, while the flag "
                                    f"`{show(cd[1], it)[:50]}` looks at the source only: the result would hold None under a non-nullable dtype")
            continue
        if cd is None or not isinstance(cd[1], tuple) or cd[1][0] not in ("after", "loopvar"):
            raise AnalysisError(f"cast: dtype `{show(dt, it)[:60]}` is not DataType(<target>, nullable=<flag set in the element loop>)")
        _, flag, L = cd[1]
        init = it.loops[L].carried.get(flag, (None, None))[0]
        if init != ("const", "bool", False):
            problems.append(f"`{flag}` does not start False")
        sets = [(a[2], a[3]) for a in it.assign_log if a[0] == flag and a[1] == ("const", "bool", True)]
        other_sets = [a for a in it.assign_log if a[0] == flag and a[1] != ("const", "bool", True) and L in a[3]]
        if other_sets:
            problems.append(f"`{flag}` is also assigned `{show(other_sets[0][1], it)[:30]}` in the element loop")
        for e in elements(it, buf):
            v = e.value if e.kind == "elem" else (e.term[2][0] if e.kind == "call" and e.term[2] else None)
            if v == SNONE and (e.conds, e.loops) not in sets:
                problems.append(f"a None is put into the result buffer without setting `{flag}`: the result would hold None under a "
                                f"non-nullable dtype")
    # the requested type labels the result only when there is no typed element to go by: otherwise a target that is a SUBCLASS of
    # a builtin kind (an IntEnum, a str subclass) would be reported as the kind, while every kind test of the library (infer_kind,
    # validate_scalar) maps its instances to the builtin - writing an element back would be refused
    from ..sites2 import leaves_with_conds, single_element
    from ..symx import flatten_conds as _fc
    tpar = ("param", s2.top.params[1]) if len(s2.top.params) > 1 else None
    for dt, dconds in leaves_with_conds(s2.dtype):
        cd = const_dtype(dt)
        if cd is not None and cd[0] == tpar:
            problems.append(f"an empty / all-None result is labelled with the raw requested class (`{show(dt, it)[:40]}`): for a subclass of a "
                            f"builtin kind (IntEnum) Vector([None]).cast(Color) is <Color?>, a kind the library never gives to its instances - "
                            f"v[0] = Color.RED is refused; expected kind_of_type(target)")
        norm = cd is not None and cd[0] == ("call", ("name", "kind_of_type"), (tpar,), ())
        if cd is None or not (cd[0] == tpar or norm):
            continue
        ok_empty = False
        for t, pol in _fc(tuple(dconds) + tuple(s2.ev.conds)):
            if pol and t[0] == "call" and t[1] == ("name", "all") and len(t[2]) == 1 and t[2][0][0] == "obj":
                se = single_element(it, t[2][0])
                if se is not None and len(se[0]) == 1 and not se[1] and strip_seq(it, it.loops[se[0][0]].iter) == buf \
                        and se[2] == ("cmp", "Is", ("elem", it.loops[se[0][0]].iter, se[0][0]), SNONE):
                    ok_empty = True
        if not ok_empty:
            problems.append(f"the result is labelled with the requested type itself (`{show(dt, it)[:50]}`) also when it holds converted values: "
                            f"for a target that is a subclass of a builtin kind (IntEnum, a str subclass) the reported kind is one the library "
                            f"never assigns to those elements, and v[0] = v[0] is refused")
    problems += _cast_kind_problems(s2, buf)
    return (not problems, "; ".join(problems) if problems else "cast idiom: DataType(target, nullable=has_none) with has_none set "
            "exactly where None is appended; every converted element is of the target kind; otherwise inferred from the buffer")


def _kind_of_type(ctx) -> None:
    """kind_of_type(cls) is the class-level mirror of infer_kind(value): the first builtin kind - in infer_kind's order (bool before
    int, datetime before date) - that cls is a subclass of, else cls itself."""
    from ..symx import Interp as _SI
    from ..symx import show
    prog = ctx.prog
    f = prog.functions.get("typing.kind_of_type")
    if f is None:
        return
    it = _SI(prog, f)
    C = ("param", f.params[0])
    probs = []
    rets = [e for e in it.events if e.kind == "return" and e.depth == 0]
    order = []
    for e in rets:
        if e.term == C:
            continue
        # unrolled loop over the module-level kinds table: return <kind_i> under issubclass(cls, <kind_i>) and not the earlier ones
        pos = [t for t, pol in e.conds if pol]
        if e.term[0] == "name" and pos and pos[-1] == ("call", ("name", "issubclass"), (C, e.term), ()):
            order.append(e.term[1])
        else:
            probs.append(f"`return {show(e.term, it)[:40]}` is not `kind` under issubclass(cls, kind)")
    if not any(e.term == C for e in rets):
        probs.append("a class that is no subclass of a builtin kind is not returned as its own kind")
    ik = prog.func("typing.infer_kind")
    ii = _SI(prog, ik)
    iorder = [e.term[1] for e in ii.events if e.kind == "return" and e.depth == 0 and e.term[0] == "name"]
    if order != iorder:
        probs.append(f"kinds are tried in the order {order}, infer_kind tests {iorder}: a subclass of bool / datetime would be given the "
                     f"kind of its base's base (bool before int, datetime before date)")
    ctx.ob("a.site-typing", f, "kind-of-type", not probs, f"kind_of_type mirrors infer_kind ({len(order)} builtin kinds, same order)", f.node,
           message="kind_of_type: " + "; ".join(probs[:2]))


# kinds whose instances satisfy isinstance(x, K): the kind itself and the kinds that are Python subclasses of it
_KSUB = {"date": {"date", "datetime"}, "datetime": {"datetime"}, "int": {"int", "bool"}, "bool": {"bool"}, "float": {"float"},
         "complex": {"complex"}, "str": {"str"}, "bytes": {"bytes"}}
_ALLK = set(_KSUB)
_KSUB["Vector"] = {"vector"}          # a nested vector element (cast recursively), not a scalar kind
_KSUB["Table"] = {"vector"}


def _split_kinds(c, x, kinds: Set[str]) -> Tuple[Set[str], Set[str]]:
    """(kinds of x for which test c can hold, kinds for which it can fail) - isinstance tests on x under and / or / not."""
    if c[0] == "call" and c[1] == ("name", "isinstance") and len(c[2]) == 2 and c[2][0] == x:
        ks = c[2][1]
        names = [ks] if ks[0] == "name" else list(ks[1]) if ks[0] == "tuple" else []
        if names and all(n[0] == "name" and n[1] in _KSUB for n in names):
            inside = set()
            for n in names:
                inside |= _KSUB[n[1]]
            return kinds & inside, kinds - inside
        return set(kinds), set(kinds)
    if c[0] == "un" and c[1] == "Not":
        y, n = _split_kinds(c[2], x, kinds)
        return n, y
    if c[0] == "bool":
        parts = [_split_kinds(p_, x, kinds) for p_ in c[2]]
        if c[1] == "and":
            y = set(kinds)
            n = set()
            for py, pn in parts:
                y &= py
                n |= pn
            return y, n
        y, n = set(), set(kinds)
        for py, pn in parts:
            y |= py
            n &= pn
        return y, n
    return set(kinds), set(kinds)


def _term_kinds(t, x, kinds_x: Set[str], target: str, tparam) -> Set[str]:
    """The kinds the value of term t can have when the source element x has one of kinds_x ('?' = unknown)."""
    if t == x:
        return set(kinds_x)
    if t[0] == "ifexp":
        yes, no = _split_kinds(t[1], x, kinds_x)
        out = set()
        if yes:
            out |= _term_kinds(t[2], x, yes, target, tparam)
        if no:
            out |= _term_kinds(t[3], x, no, target, tparam)
        return out
    if t[0] == "call":
        fn = t[1]
        if fn[0] == "name" and fn[1] in _KSUB:
            return {fn[1]}                               # int(x), float(x), str(x), date(...), datetime(...)
        if fn == tparam:
            return {target}                              # the target type called as a converter
        if fn[0] == "attr" and fn[1][0] == "name" and fn[1][1] in ("date", "datetime") \
                and fn[2] in ("fromisoformat", "fromordinal", "fromtimestamp", "today", "now", "combine", "strptime", "fromisocalendar"):
            return {fn[1][1]}
        if fn[0] == "attr" and fn[2] == "cast" and _term_kinds(fn[1], x, kinds_x, target, tparam) <= {"vector"}:
            return {"vector"}                            # nested vectors are cast recursively
        if fn[0] == "attr" and fn[2] == "date" and not t[2] and not t[3]:
            inner = _term_kinds(fn[1], x, kinds_x, target, tparam)
            if inner <= {"datetime"}:
                return {"date"}
    return {"?"}


def _cast_kind_problems(s2, buf) -> List[str]:
    """Where the result is labelled DataType(<target>, ...), every converted element must be OF the target kind - a pass-through of
    the element under `isinstance(x, target)` also lets through the kinds that are Python subclasses of the target but distinct
    serif kinds (datetime under date, bool under int)."""
    from ..sites2 import const_dtype, leaves
    from ..symx import NONE as SNONE
    from ..symx import elements, reduce_ifexp, show, simplify, substitute
    it = s2.it
    f = s2.top
    if len(f.params) < 2:
        return []
    tparam = ("param", f.params[1])
    labelled = any((cd := const_dtype(dt)) is not None and cd[0] == tparam for dt in leaves(s2.dtype))
    if not labelled:
        return []
    out = []
    for e in elements(it, buf):
        v = e.value if e.kind == "elem" else (e.term[2][0] if e.kind == "call" and e.term[2] else None)
        if v is None or v == SNONE:
            continue
        xs = [("elem", (it.loops[L].domain if it.loops[L].domain is not None and it.loops[L].domain[0] != "tuple" else it.loops[L].iter), L)
              for L in e.loops if it.loops[L].iter is not None]
        if not xs:
            continue
        x = xs[-1]
        if v[0] == "call" and v[1][0] == "attr" and v[1][1] == x and v[1][2] == f.name:
            continue                                   # nested vector: cast recursively
        for K in ("date", "datetime", "int", "float", "complex", "str", "bool"):
            atoms = {("cmp", "Is", tparam, ("name", k)): (k == K) for k in ("date", "datetime", "int", "float", "complex", "str", "bool")}
            atoms.update({("cmp", "Eq", tparam, ("name", k)): (k == K) for k in ("date", "datetime", "int", "float", "complex", "str", "bool")})
            r = reduce_ifexp(simplify(v, atoms), atoms)
            r = substitute(r, {tparam: ("name", K)})
            ks = _term_kinds(r, x, _ALLK | {"other", "vector"}, K, ("name", K))
            bad = sorted(k for k in ks if k not in (K, "?", "vector"))
            if bad:
                out.append(f"cast({K}) can leave an element of kind {bad} in a vector labelled <{K}> (`{show(r, it)[:70]}`): isinstance(x, {K}) "
                           f"also holds for {bad}, a different kind - writing the element back would change the dtype")
            elif "?" in ks:
                out.append(f"cast({K}): the kind of the converted element `{show(r, it)[:60]}` is not determined by the conversion applied")
    seen = set()
    return [p_ for p_ in out if not (p_ in seen or seen.add(p_))]


def _fillna_idiom2(ctx, s2):
    """Vector.fillna: data are `value if x is None else x` over self (or over a fresh, promoted copy of self); the dtype is inferred,
    or self's with nullability recomputed from the stored data, or (promotion path) the promoted kind made non-nullable only when
    the fill value is not None."""
    from ..sites2 import const_dtype, dtype_of, fill_of, leaves, single_element, strip_seq
    from ..symx import NONE as SNONE
    from ..symx import flatten_conds, kw, show
    it = s2.it
    f = s2.top
    SELF = ("param", f.params[0])
    val = ("param", f.params[1])
    problems = []
    fc = flatten_conds(s2.ev.conds)
    for dt in leaves(s2.dtype):
        if dt == SNONE:
            continue
        fo = [fill_of(it, d) for d in leaves(s2.data)]
        cd = const_dtype(dt)
        if cd is not None:
            K, nn = cd
            if nn is not False or not fo or any(x is None for x in fo):
                raise AnalysisError(f"fillna: promoted-path site `{s2.sh(s2.call, 60)}` not recognised")
            obj, v = fo[0]
            if v != val:
                problems.append(f"None is replaced by `{show(v, it)[:30]}`, not by the fill value")
            if (("cmp", "Is", val, SNONE), False) not in fc:
                problems.append("the non-nullable result is built although the fill value may be None")
            if obj != ("call", ("attr", SELF, "copy"), (), ()):
                problems.append(f"`{show(obj, it)[:30]}` is not a fresh copy of self")
            prom = [e for e in it.events if e.kind == "call" and e.term[1] == ("attr", obj, "_promote") and len(e.term[2]) == 1]
            if not prom or prom[0].term[2][0] != K or prom[0].seq > s2.ev.seq:
                problems.append(f"the result kind `{show(K, it)[:30]}` is not the kind the copy was promoted to")
            continue
        if dt[0] == "call" and dt[1][0] == "attr" and dt[1][2] == "with_nullable":
            if not all(dtype_of(b) == SELF for b in leaves(dt[1][1])):
                problems.append(f"the dtype `{show(dt[1][1], it)[:30]}` is not self's")
            arg = dt[2][0] if dt[2] else kw(dt, "nullable")
            okflag = False
            for a in leaves(arg):
                if a[0] == "call" and a[1] == ("name", "any") and len(a[2]) == 1 and a[2][0][0] == "obj":
                    se = single_element(it, a[2][0])
                    if se is not None and len(se[0]) == 1 and not se[1]:
                        src = it.loops[se[0][0]].iter
                        if se[2] == ("cmp", "Is", ("elem", src, se[0][0]), SNONE) and strip_seq(it, src) == strip_seq(it, s2.data):
                            okflag = True
            if not okflag:
                problems.append("the nullable flag is not `any(x is None for x in <the data stored>)`")
            if not fo or any(x is None or x[0] != SELF or x[1] != val for x in fo):
                problems.append("the data are not `value if x is None else x` over self's elements")
            if any(pol and t[0] == "call" and t[1] == ("name", "<except>") and "TypeError" in show(t, it) for t, pol in fc):
                problems.append("a fill value rejected by validate_scalar can reach the standard (non-promoting) path")
            vs = [e for e in it.events if e.kind == "call" and e.term[1] == ("name", "validate_scalar")]
            if not vs or vs[0].term[2][:1] != (val,):
                problems.append("the fill value is never validated against self's dtype")
            continue
        raise AnalysisError(f"fillna: dtype `{show(dt, it)[:50]}` not recognised")
    return (not problems, "; ".join(problems) if problems else "fillna idiom: validated fill value, nullable recomputed from the data")


def _new_idiom2(ctx, s2, dts, datas):
    """Vector.new(element, length): the stored data are `length` repetitions of the element; a dtype made non-nullable is only
    used when the element is not None."""
    from ..sites2 import element_values
    from ..symx import flatten_conds, kw, subterms
    it = s2.it
    f = s2.top
    elem = ("param", f.params[1])
    problems = []
    from ..sites2 import leaves_with_conds
    fc = flatten_conds(s2.ev.conds)
    for dt, dconds in leaves_with_conds(s2.dtype):
        not_none = (("cmp", "Is", elem, ("const", "NoneType", None)), False) in (list(fc) + list(dconds))
        for t in subterms(dt):
            if t[0] == "call" and t[1][0] == "attr" and t[1][2] == "with_nullable":
                a = t[2][0] if t[2] else kw(t, "nullable")
                if a == ("const", "bool", False) and not not_none and s2.data is not None:
                    problems.append(f"Vector.new makes the dtype non-nullable (`{s2.sh(t, 50)}`) even when the element is None: "
                                    f"the vector would hold None under a non-nullable dtype")
    if s2.data is not None:
        for d in datas:
            ev = element_values(it, d)
            if ev is None:
                ds = d
                if ds[0] == "tuple" and not ds[1] or (ds[0] == "obj" and not it.objs[ds[1]].init and not ev):
                    continue
                raise AnalysisError("Vector.new: data is not [element for _ in range(length)]")
            if any(v != elem for v, _ in ev):
                raise AnalysisError("Vector.new: data is not [element for _ in range(length)]")
    return (not problems, "; ".join(problems) if problems else "new idiom: dtype inferred from the repeated element")


def _one_site(ctx, s: Site) -> int:
    prog = ctx.prog
    n_inferred = 0
    if True:
        f = s.func
        res = Resolver(prog, f)
        if s.kind == "Table":
            return 0                      # a Table carries no dtype; ownership/naming rules apply (C01, C02, C18)
        if s.kind == "copy":
            _copy_site(ctx, res, s)
            return 0
        if s.dtype is None or (isinstance(s.dtype, ast.Constant) and s.dtype.value is None):
            ctx.ob("a.inferred-sites", f, f"site:{_ord(ctx, f)}", True, f"{short(s.call, 70)}: dtype inferred", s.call)
            return 1
        datas = _data_defs(res, s)
        if vector_valued(prog, f, s.data, res):
            ctx.ob("a.site-typing", f, f"site:{_ord(ctx, f)}:table", True, f"table construction `{short(s.call, 60)}`", s.call)
            return 0
        dts = res.resolve(s.dtype) if isinstance(s.dtype, ast.Name) else [s.dtype]
        special = {"vector.Vector.cast": _cast_idiom, "vector.Vector.fillna": _fillna_idiom, "vector.Vector.new": _new_idiom,
                   "vector.Vector.__new__": _passthrough}
        if f.qualname in special:
            ok, msg = special[f.qualname](ctx, res, s, dts, datas)
            ctx.ob("a.site-typing", f, f"site:{_ord(ctx, f)}:{short(s.dtype, 30)}", ok, msg if ok else "", s.call, message=msg)
            return 0
        problems = []
        notes = []
        for dt in dts:
            v, why = _admissible(ctx, res, s, dt, datas)
            if v is None:
                raise AnalysisError(f"{f.qualname} line {s.call.lineno}: cannot classify construction site "
                                    f"`{short(s.call, 90)}` (dtype `{short(dt) if not isinstance(dt, str) else dt}`): {why}")
            (notes if v else problems).append(why)
        ctx.ob("a.site-typing", f, f"site:{_ord(ctx, f)}:{short(s.dtype, 30)}", not problems,
               "; ".join(notes), s.call, message="; ".join(problems))
    return 0


_ORD: Dict[Tuple[int, str], int] = {}


def _ord(ctx, f: FuncInfo) -> int:
    k = (id(ctx), f.qualname)
    _ORD[k] = _ORD.get(k, 0) + 1
    return _ORD[k]


def _same_expr(a: ast.AST, b: ast.AST) -> bool:
    def strip(x):
        while isinstance(x, ast.Call) and isinstance(x.func, ast.Name) and x.func.id in ("tuple", "list") and len(x.args) == 1 \
                and isinstance(x.args[0], ast.Name):
            x = x.args[0]
        return x
    return ast.dump(strip(a)) == ast.dump(strip(b))


def _admissible(ctx, res: Resolver, s: Site, dt, datas) -> Tuple[Optional[bool], str]:
    """(True, note) admissible; (False, message) violation; (None, reason) not classifiable."""
    f = s.func
    if isinstance(dt, str):
        return (None, "dtype comes from a parameter")
    if isinstance(dt, ast.Constant) and dt.value is None:
        return (True, "dtype None -> inferred")
    # ---- INFER(same data)
    if isinstance(dt, ast.Call) and isinstance(dt.func, ast.Name) and dt.func.id == "infer_dtype" and len(dt.args) == 1:
        if _same_expr(dt.args[0], s.data):
            return (True, f"INFER over the data itself ({short(s.data, 30)})")
        return (False, f"dtype is inferred from `{short(dt.args[0], 50)}` but the vector stores `{short(s.data, 50)}`")
    # ---- CONST
    cd = _const_dtype(dt)
    if cd is not None:
        K, nn = cd
        comps = [comp_of(d) for d in datas if not isinstance(d, str)]
        if K == "bool" and nn is False:
            if datas and all(_const_bool_seq(d) for d in datas if not isinstance(d, str)) and not any(isinstance(d, str) for d in datas):
                return (True, "CONST(bool) over constant booleans")
            if datas and all(c is not None for c in comps):
                bad = [c for c in comps if not is_bool_expr(c.elt)]
                if bad:
                    return (False, f"dtype is the constant non-nullable <bool> but an element is `{short(bad[0].elt, 60)}`, which "
                                   f"need not be a bool (e.g. `&` on ints yields ints) or can be None")
                return (True, "CONST(bool) with boolean element expressions")
            return (None, "data of a constant-bool site is not a comprehension")
        if nn is False:
            if datas and all(c is not None and is_never_none_expr(c.elt) for c in comps) and K == "object":
                return (True, "CONST(object, non-nullable) with elements that cannot be None")
            for d in datas:
                if not isinstance(d, str) and same_elements_of(d):
                    obj = same_elements_of(d)[0]
                    return (False, f"dtype is the constant non-nullable <{K}> but the data are {obj}'s own elements, which may "
                                   f"contain None" + ("" if K == "object" else f" or values of another kind"))
            return (None, f"constant non-nullable <{K}> over unclassified data")
        # object kind with the SOURCE's nullability over the source's own elements (to_object)
        ndefs = res.resolve(nn, s.call) if isinstance(nn, ast.Name) else [nn]
        src = None
        okn = bool(ndefs)
        for nd in ndefs:
            if isinstance(nd, str):
                okn = False
                break
            body = nd
            if isinstance(nd, ast.IfExp):
                if not (isinstance(nd.orelse, ast.Constant) and nd.orelse.value is True):
                    okn = False
                body = nd.body
            ch = attr_chain(body)
            if ch and ch[-2:] == ["_dtype", "nullable"]:
                src = ".".join(ch[:-2])
            else:
                okn = False
        if K == "object" and okn and src and datas and all(
                not isinstance(d, str) and same_elements_of(d) and same_elements_of(d)[0] == src for d in datas):
            return (True, f"CONST(object) with {src}'s own nullability over {src}'s own elements")
        return (None, f"constant dtype <{K}> with computed nullability")
    # ---- OF(obj).with_nullable(X)
    if isinstance(dt, ast.Call) and isinstance(dt.func, ast.Attribute) and dt.func.attr == "with_nullable":
        obj = _is_of(dt.func.value)
        arg = dt.args[0] if dt.args else kwarg(dt, "nullable")
        if obj and isinstance(arg, ast.Constant) and arg.value is False:
            for d in datas:
                se = same_elements_of(d) if not isinstance(d, str) else None
                if not (se and se[0] == obj and se[1] == "filter-not-none"):
                    return (False, f"dtype is {obj}'s made non-nullable, but the data `{short(d, 60) if not isinstance(d, str) else d}` "
                                   f"are not {obj}'s elements filtered by `is not None`")
            return (True, f"OF({obj}).with_nullable(False) over {obj}'s not-None elements")
        base = dt.func.value
        bdefs = res.resolve(base, s.call) if isinstance(base, ast.Name) else [base]
        objs = {_is_of(b) for b in bdefs if not isinstance(b, str)}
        if len(objs) == 1 and None not in objs:
            o = next(iter(objs))
            for d in datas:
                if isinstance(d, str):
                    continue
                root = d
                while isinstance(root, (ast.Subscript, ast.Attribute)):
                    root = root.value
                se = same_elements_of(d)
                if not (se and se[0] == o) and isinstance(root, ast.Name) and root.id != "self" and root.id not in f.params:
                    return (False, f"`{short(d, 60)}` (a locally built buffer, not {o}'s own elements) is labelled with {o}'s kind and a "
                                   f"computed nullability instead of being re-inferred: padding or gathered values need not fit it")
        return (None, "with_nullable with a computed flag")
    # ---- OF(obj)
    obj = _is_of(dt)
    if obj:
        for d in datas:
            if isinstance(d, (ast.Tuple, ast.List)) and not d.elts:
                continue           # no elements: every dtype is truthful
            if isinstance(d, str):
                if f.qualname == "vector.Vector.copy":
                    continue       # copy(new_values): checked at every caller (a.copy-callers)
                return (None, "data is a parameter")
            se = same_elements_of(d)
            if se and se[0] == obj:
                continue
            if f.qualname == "vector.Vector.copy" and isinstance(d, ast.Call) and short(d.func) == "list" and d.args \
                    and isinstance(d.args[0], ast.IfExp):
                a = same_elements_of(d.args[0].body)
                if a and a[0] == obj and isinstance(d.args[0].orelse, ast.Name):
                    continue       # list(self._underlying if new_values is None else new_values)
            if f.qualname == "vector.Vector.copy" and _copy_sources_only(d, obj, f, res, s.call):
                continue           # new_values / self._underlying selected by or / if-else / list(): same sources (truthiness is C07's rule)
            if isinstance(d, (ast.List,)) and not d.elts or (isinstance(d, ast.Call) and short(d.func) == "list" and not d.args):
                # a buffer filled by append(): what is appended?
                nm = s.data.id if isinstance(s.data, ast.Name) else None
                apps = [n for n in walk_no_nested(f.node) if isinstance(n, ast.Call) and nm and attr_chain(n.func) == [nm, "append"]]
                computed = [a for a in apps if a.args and not (isinstance(a.args[0], ast.Constant) and a.args[0].value is None)
                            and not isinstance(a.args[0], ast.Name)]
                if computed:
                    return (False, f"values accumulated into `{nm}` (`{short(computed[0], 50)}`) are labelled with {obj}'s dtype "
                                   f"without re-inference: the result can hold values {obj}'s dtype does not admit")
                return (None, f"buffer `{nm}` under {obj}'s dtype not classified")
            c = comp_of(d)
            if c is not None and is_bool_expr(c.elt):
                if any(pol and short(t) in (f"{obj}._dtype and {obj}._dtype.kind is bool", f"{obj}._dtype.kind is bool")
                       for t, pol in res.guards(s.call)):
                    continue       # boolean results relabelled bool under a kind-is-bool guard
            if c is not None or isinstance(d, ast.BinOp) or (se and se[0] != obj):
                what = "computed" if c is not None else "concatenated" if isinstance(d, ast.BinOp) else f"{se[0]}'s"
                return (False, f"{what} values `{short(d, 60)}` are labelled with {obj}'s dtype without re-inference: the result "
                               f"can hold values {obj}'s dtype does not admit")
            root = d
            while isinstance(root, (ast.Subscript, ast.Attribute)):
                root = root.value
            if isinstance(root, ast.Name) and root.id not in ("self",) and root.id not in f.params:
                return (False, f"`{short(d, 60)}` (a locally built buffer, not {obj}'s own elements) is labelled with {obj}'s dtype "
                               f"without re-inference: padding or gathered values need not fit it")
            return (None, f"data `{short(d, 50)}` under {obj}'s dtype not classified")
        return (True, f"OF({obj}) over {obj}'s own elements")
    if isinstance(dt, ast.Call) and not (isinstance(dt.func, ast.Name) and dt.func.id in ("infer_dtype", "DataType")):
        for d in datas:
            if isinstance(d, str):
                continue
            root = d
            while isinstance(root, (ast.Subscript, ast.Attribute)):
                root = root.value
            if isinstance(root, ast.Name) and root.id != "self" and root.id not in f.params and not same_elements_of(d):
                return (False, f"`{short(d, 50)}` (a locally built buffer) is typed by `{short(dt, 60)}` instead of by inference over its "
                               f"own values: padding or gathered values need not fit a dtype computed elsewhere")
    return (None, "dtype expression not recognised")


def _copy_sources_only(d, obj: str, f: FuncInfo, res=None, at=None, depth: int = 0) -> bool:
    """Is the data of Vector.copy built only from its `new_values` parameter and obj's own storage?"""
    if isinstance(d, str):
        return True                     # the parameter itself
    if depth > 5:
        return False
    if isinstance(d, ast.Call) and short(d.func) in ("list", "tuple") and len(d.args) == 1:
        return _copy_sources_only(d.args[0], obj, f, res, at, depth + 1)
    if isinstance(d, ast.BoolOp):
        return all(_copy_sources_only(v, obj, f, res, at, depth + 1) for v in d.values)
    if isinstance(d, ast.IfExp):
        return _copy_sources_only(d.body, obj, f, res, at, depth + 1) and _copy_sources_only(d.orelse, obj, f, res, at, depth + 1)
    if isinstance(d, ast.Name):
        if d.id in f.params:
            return True
        if res is not None and at is not None:
            defs = [x for x in res.resolve(d, at) if x is not d]
            return bool(defs) and all(_copy_sources_only(x, obj, f, res, at, depth + 1) for x in defs)
        return False
    se = same_elements_of(d)
    return bool(se and se[0] == obj)


def _copy_site(ctx, res: Resolver, s: Site) -> None:
    f = s.func
    recv = short(s.call.func.value)
    if s.data is None or (isinstance(s.data, ast.Constant) and s.data.value is None):
        ctx.ob("a.copy-callers", f, f"copy:{_ord(ctx, f)}", True, f"{recv}.copy(): same elements", s.call)
        return
    datas = _data_defs(res, s)
    table = (f.cls == "Table" and recv == "self") or _ndims_guard(res, s.call, recv)
    if table:
        ctx.ob("a.copy-callers", f, f"copy:{_ord(ctx, f)}", True,
               f"{recv}.copy(<per-column results>) on a table (a Table has no dtype; columns are re-inferred)", s.call)
        return
    problems = []
    for d in datas:
        if isinstance(d, str):
            problems.append(f"{recv}.copy(<parameter>) relabels caller data with {recv}'s dtype")
            continue
        se = same_elements_of(d)
        if not (se and se[0] == recv):
            problems.append(f"`{recv}.copy({short(d, 60)})` labels values that are not {recv}'s own elements with {recv}'s dtype")
    ctx.ob("a.copy-callers", f, f"copy:{_ord(ctx, f)}", not problems, f"{recv}.copy({short(s.data, 40)}): {recv}'s own elements",
           s.call, message="; ".join(problems))


# ---- idioms --------------------------------------------------------------------------------------
def _passthrough(ctx, res, s, dts, datas):
    return True, "Vector.__new__ hands its own arguments to Table(...): a table construction"


def _cast_idiom(ctx, res: Resolver, s: Site, dts, datas):
    f = s.func
    d = Defs(f)
    problems = []
    # data: tuple(out)
    if not (isinstance(s.data, ast.Call) and short(s.data.func) == "tuple" and isinstance(s.data.args[0], ast.Name)):
        raise AnalysisError("cast: result data is not tuple(<buffer>)")
    out = s.data.args[0].id
    flag = None
    for dt in dts:
        if isinstance(dt, str):
            raise AnalysisError("cast: dtype from a parameter")
        if isinstance(dt, ast.Call) and short(dt.func) == "infer_dtype":
            if not (dt.args and isinstance(dt.args[0], ast.Name) and dt.args[0].id == out):
                problems.append(f"dtype inferred from `{short(dt.args[0])}`, not from the buffer `{out}`")
            continue
        cd = _const_dtype(dt)
        if cd is None or not isinstance(cd[1], ast.Name):
            raise AnalysisError(f"cast: dtype `{short(dt)}` is not DataType(<target>, nullable=<flag>)")
        flag = cd[1].id
    if flag:
        inits = d.values(flag)
        if not any(isinstance(v, ast.Constant) and v.value is False for v in inits):
            problems.append(f"`{flag}` does not start False")
        # every append(None) sits next to `flag = True`; every other append is in the not-None path
        for st in walk_stmts(f.body):
            for blk in ("body", "orelse"):
                for lst in [getattr(st, blk, None)]:
                    if not isinstance(lst, list):
                        continue
                    has_none_app = any(isinstance(x, ast.Expr) and isinstance(x.value, ast.Call)
                                       and attr_chain(x.value.func) == [out, "append"] and x.value.args
                                       and isinstance(x.value.args[0], ast.Constant) and x.value.args[0].value is None for x in lst)
                    sets_flag = any(isinstance(x, ast.Assign) and isinstance(x.targets[0], ast.Name) and x.targets[0].id == flag
                                    and isinstance(x.value, ast.Constant) and x.value.value is True for x in lst)
                    if has_none_app and not sets_flag:
                        problems.append(f"a None is appended to `{out}` without setting `{flag}`: the result would hold None "
                                        f"under a non-nullable dtype")
        for v in inits:
            if isinstance(v, ast.Constant) and v.value is True:
                pass
    return (not problems, "; ".join(problems) if problems else "cast idiom: DataType(target, nullable=has_none) with has_none set "
            "exactly where None is appended; otherwise inferred from the buffer")


def _fillna_idiom(ctx, res: Resolver, s: Site, dts, datas):
    f = s.func
    cfg = cfg_of(f)
    problems = []
    node = res.node_of(s.call)
    for dt in dts:
        if isinstance(dt, str):
            raise AnalysisError("fillna: dtype from a parameter")
        if isinstance(dt, ast.Constant) and dt.value is None:
            continue
        cd = _const_dtype(dt)
        if cd is not None:
            # promoted path: DataType(required_dtype.kind, nullable=False)
            K, nn = cd
            fo = [fill_of(d) for d in datas if not isinstance(d, str)]
            if nn is not False or not fo or any(x is None for x in fo):
                raise AnalysisError(f"fillna: promoted-path site `{short(s.call, 60)}` not recognised")
            obj, val = fo[0]
            if val != f.params[1]:
                problems.append(f"None is replaced by `{val}`, not by the fill value")
            if not any(pol and short(t).find(f"{f.params[1]} is not None") >= 0 for t, pol in res.guards(s.call)):
                problems.append("the non-nullable result is built although the fill value may be None")
            recv = obj.split(".")[0]
            rdefs = res.resolve(ast.Name(id=recv, ctx=ast.Load()), s.call)
            if not all(isinstance(x, ast.Call) and short(x.func) == "self.copy" for x in rdefs if not isinstance(x, str)):
                problems.append(f"`{recv}` is not a fresh copy of self")
            prom = [c for c in res.prog.calls_in(f) if isinstance(c.func, ast.Attribute) and c.func.attr == "_promote"
                    and short(c.func.value) == recv]
            if not prom or not K.startswith(short(prom[0].args[0]).split(".")[0]):
                problems.append(f"the result kind `{K}` is not the kind `{recv}` was promoted to")
            continue
        if isinstance(dt, ast.Call) and isinstance(dt.func, ast.Attribute) and dt.func.attr == "with_nullable":
            base = dt.func.value
            bdefs = res.resolve(base, s.call) if isinstance(base, ast.Name) else [base]
            if not all(_is_of(b) == "self" for b in bdefs if not isinstance(b, str)):
                problems.append(f"the dtype `{short(base)}` is not self's")
            arg = dt.args[0] if dt.args else kwarg(dt, "nullable")
            adefs = res.resolve(arg, s.call) if isinstance(arg, ast.Name) else [arg]
            okflag = False
            for a in adefs:
                if isinstance(a, ast.Call) and short(a.func) == "any" and a.args and isinstance(a.args[0], ast.GeneratorExp):
                    g = a.args[0]
                    if short(g.elt) == f"{g.generators[0].target.id} is None" and _same_expr(g.generators[0].iter, s.data):
                        okflag = True
            if not okflag:
                problems.append("the nullable flag is not `any(x is None for x in <the data stored>)`")
            fo = [fill_of(d) for d in datas if not isinstance(d, str)]
            if not fo or any(x is None or x[0] != "self" for x in fo):
                problems.append("the data are not `value if x is None else x` over self's elements")
            # the fill value has passed validate_scalar on every path to this site (or is None / dtype is None)
            handlers = [n for n in cfg.nodes if n.kind == "except" and n.ast.type is not None and short(n.ast.type) == "TypeError"]
            for h in handlers:
                if cfg.can_reach(h, node):
                    problems.append("a fill value rejected by validate_scalar can reach the standard (non-promoting) path")
            vs = [c for c in res.prog.calls_in(f) if short(c.func) == "validate_scalar"]
            if not vs or short(vs[0].args[0]) != f.params[1]:
                problems.append("the fill value is never validated against self's dtype")
            continue
        raise AnalysisError(f"fillna: dtype `{short(dt)}` not recognised")
    return (not problems, "; ".join(problems) if problems else "fillna idiom: validated fill value, nullable recomputed from the data")


def _new_idiom(ctx, res: Resolver, s: Site, dts, datas):
    f = s.func
    elem = f.params[1]
    problems = []
    for dt in dts:
        if isinstance(dt, str):
            continue
        base = dt
        stripped_nullable = False
        while isinstance(base, ast.Call) and isinstance(base.func, ast.Attribute) and base.func.attr in ("with_nullable", "with_default"):
            if base.func.attr == "with_nullable":
                a = base.args[0] if base.args else kwarg(base, "nullable")
                if isinstance(a, ast.Constant) and a.value is False:
                    stripped_nullable = True
                    # must be guarded by `<elem> is not None`
                    node_guards = res.guards(s.call)
            base = base.func.value
        if isinstance(base, ast.Name):
            for b in res.resolve(base, s.call):
                if isinstance(b, str):
                    continue
                bb = b
                while isinstance(bb, ast.Call) and isinstance(bb.func, ast.Attribute) and bb.func.attr in ("with_nullable", "with_default"):
                    if bb.func.attr == "with_nullable":
                        a = bb.args[0] if bb.args else kwarg(bb, "nullable")
                        if isinstance(a, ast.Constant) and a.value is False:
                            stripped_nullable = True
                            stripped_node = b
                    bb = bb.func.value
    # structural check on the whole function: every `.with_nullable(False)` must be under a test implying elem is not None
    for n in walk_no_nested(f.node):
        if isinstance(n, ast.Call) and isinstance(n.func, ast.Attribute) and n.func.attr == "with_nullable":
            a = n.args[0] if n.args else kwarg(n, "nullable")
            if isinstance(a, ast.Constant) and a.value is False:
                gs = res.guards(n)
                reaches = res.cfg.can_reach(res.node_of(n), res.node_of(s.call)) or res.node_of(n) is res.node_of(s.call)
                if reaches and not any(pol and f"{elem} is not None" in short(t) for t, pol in gs):
                    if s.data is not None:      # only the site that actually stores elements can lie
                        problems.append(f"Vector.new makes the dtype non-nullable (`{short(n, 50)}`) even when the element is None: "
                                        f"the vector would hold None under a non-nullable dtype")
    if s.data is not None:
        c = comp_of(s.data)
        if not (c is not None and isinstance(c.elt, ast.Name) and c.elt.id == elem):
            raise AnalysisError("Vector.new: data is not [element for _ in range(length)]")
    return (not problems, "; ".join(problems) if problems else "new idiom: dtype inferred from the repeated element")


def _inference_truthful(ctx) -> None:
    from .c04 import Automaton, fmt_state
    tags = CORE_TAGS + SUB_TAGS
    A = Automaton(ctx.prog, tags)
    states = A.reachable()
    seen: Dict[Tuple, Set[str]] = {s: set() for s in states}
    changed = True
    while changed:
        changed = False
        for s in states:
            for t in tags:
                n = A.delta(s, t)
                new = seen[s] | {t}
                if not new <= seen[n]:
                    seen[n] |= new
                    changed = True
    for i, s in enumerate(states):
        got = A.post_of(s)
        bad = sorted(t for t in seen[s] if isinstance(got, DT) and not fits(t, got))
        ctx.ob("d.inference-truthful", A.f, f"state:{fmt_state(s)}", isinstance(got, DT) and not bad,
               f"{fmt_state(s)} -> {got!r} admits {len(seen[s])} possible element types", A.loop,
               message=f"inference can answer {got!r} for a sequence that contains a value of type {bad[:3]} "
                       f"(state {fmt_state(s)}): the reported dtype would not admit its own elements")


# =========================================================================================== __setitem__
def _kinds() -> List[str]:
    ks = []
    for t in CORE_TAGS + SUB_TAGS:
        if t != "NoneType" and canon(t) not in ks:
            ks.append(canon(t))
    return ks + ["object"]


def _row_dtype(ctx) -> None:
    """A Row is a view over the table's columns as they are NOW: its dtype label is computed, at construction, from the columns'
    current dtypes (or is the constant <object?>) - never taken from a field remembered on the table.  Columns change dtype in place
    (a None written makes them nullable, a float promotes an int column) without the column tuple being replaced, so a label cached
    per column tuple goes stale."""
    from ..sites2 import interp_of, leaves_with_conds
    from ..symx import show, subterms
    prog = ctx.prog
    f = prog.functions.get("table.Row.__init__")
    if f is None or len(f.params) < 2:
        return
    it = interp_of(prog, f)
    T = ("param", f.params[1])
    stores = [e for e in it.events if e.kind == "store" and e.term[0] == "attr" and e.term[2] == "_dtype" and e.term[1] == ("param", f.params[0])]
    probs = []
    for e in stores:
        for leaf, _cs in leaves_with_conds(e.value):
            for x in subterms(leaf):
                if x[0] == "attr" and x[1] == T and x[2] not in ("_underlying", "_length", "_column_map", "_name"):
                    probs.append(f"`{show(leaf, it)[:50]}` reads table.{x[2]}: a label remembered on the table, not computed from the columns' "
                                 f"current dtypes - after t[0, 'a'] = None (or a promoting write) later rows report the stale dtype")
    written = [e for e in it.events if e.kind == "store" and e.term[0] == "attr" and e.term[1] == T]
    for e in written:
        probs.append(f"Row.__init__ stores table.{e.term[2]} (a cache on the table filled by building a row)")
    ctx.ob("a.site-typing", f, "row-dtype-fresh", bool(stores) and not probs, "a Row's dtype is computed from the columns' current dtypes", f.node,
           message="Row.__init__: " + "; ".join(sorted(set(probs))[:2]))


def validation_loop(prog):
    """(function holding the loop, the loop, statements before it, statements after it IN Vector.__setitem__ that apply the target).
    The loop may have moved into a private helper that __setitem__ calls (self._helper(...) returning the target): the statements
    that apply the target are then those after the call in __setitem__."""
    top = prog.func("vector.Vector.__setitem__")

    def loops_of(g):
        return [st for st in walk_stmts(g.body)
                if isinstance(st, ast.For) and any(isinstance(n, ast.Call) and short(n.func) == "validate_scalar" for n in walk_no_nested(st))]

    def holder_of(g, node):
        if node in g.body:
            return g.body
        for st in walk_stmts(g.body):
            for blk in ("body", "orelse"):
                lst = getattr(st, blk, None)
                if isinstance(lst, list) and node in lst:
                    return lst
        return None
    loops = loops_of(top)
    if len(loops) == 1:
        loop = loops[0]
        holder = holder_of(top, loop)
        if holder is None:
            raise AnalysisError("Vector.__setitem__: validation loop holder not found")
        i = holder.index(loop)
        return top, loop, holder[:i], holder[i + 1:]
    if not loops:
        # a helper called from __setitem__
        found = []
        for c in prog.calls_in(top):
            name = c.func.attr if isinstance(c.func, ast.Attribute) else (c.func.id if isinstance(c.func, ast.Name) else None)
            for q in (f"vector.Vector.{name}", f"vector.{name}"):
                g = prog.functions.get(q)
                if g is not None and g is not top and len(loops_of(g)) == 1 and (g, c) not in found:
                    found.append((g, c))
        if len({id(g) for g, _ in found}) == 1:
            g, call = found[0]
            loop = loops_of(g)[0]
            holder = holder_of(g, loop)
            # the statement of __setitem__ that receives the helper's result, and what follows it
            stmt = next((st for st in walk_stmts(top.body) if any(n is call for n in ast.walk(st)) and isinstance(st, ast.Assign)), None)
            th = holder_of(top, stmt) if stmt is not None else None
            if holder is None or th is None:
                raise AnalysisError("Vector.__setitem__: the validation helper's result is not bound by a plain assignment")
            i, j = holder.index(loop), th.index(stmt)
            return g, loop, holder[:i], th[j + 1:]
    raise AnalysisError(f"Vector.__setitem__: expected one validation loop calling validate_scalar, found {len(loops)}")


def _promote_hook(interp, recv, args, kw):
    k = args[0]
    if not isinstance(recv, Obj) or not isinstance(k, Cls):
        raise AnalysisError("abstract _promote: unexpected arguments")
    cur = recv.fields["_dtype"]
    if cur.kind == k.tag:
        return NONE
    if (cur.kind, k.tag) in PROMOTABLE:
        recv.fields["_dtype"] = DT(k.tag, cur.nullable)
        recv.fields["__promoted__"] = Const(True)
        return NONE
    raise Raised("SerifTypeError")


def _setitem(ctx, R_LOOP: str = "b.validation-loop", R_APPLIED: str = "b.target-applied") -> None:
    prog = ctx.prog
    f, loop, pre, post = validation_loop(prog)
    if isinstance(loop.target, ast.Name):
        val = loop.target.id
    else:
        # `for _, val in updates` / `for idx, val in updates`: the VALUE is the name of the target the body tests against None
        # (or the only one it reads at all); a position read alongside does not take part in the dtype decision
        names = [n.id for n in ast.walk(loop.target) if isinstance(n, ast.Name)]
        read = [x for x in names if any(isinstance(n, ast.Name) and n.id == x and isinstance(n.ctx, ast.Load)
                                        for st in loop.body for n in ast.walk(st))]
        none_tested = [x for x in names if any(isinstance(n, ast.Compare) and isinstance(n.left, ast.Name) and n.left.id == x
                                               and len(n.ops) == 1 and isinstance(n.ops[0], (ast.Is, ast.IsNot))
                                               and isinstance(n.comparators[0], ast.Constant) and n.comparators[0].value is None
                                               for st in loop.body for n in ast.walk(st))]
        pick = read if len(read) == 1 else none_tested
        if len(pick) != 1 or not all(isinstance(e_, ast.Name) for e_ in getattr(loop.target, "elts", [])):
            raise AnalysisError("validation loop target: the value variable could not be told")
        val = pick[0]
    I = Interp(prog)
    I.hooks["vector.Vector._promote"] = _promote_hook
    tags = CORE_TAGS + SUB_TAGS
    kinds = _kinds()
    n_cells = 0
    bad = 0
    applied_checked = 0
    # variables assigned in `pre` that the loop uses (target = self._dtype)
    for k0 in kinds:
        for n0 in (False, True):
            d0 = DT(k0, n0)
            selfobj = Obj("Vector", {"_dtype": d0})
            env0 = {"self": selfobj, "__module__": "vector"}
            # pre statements that are plain assignments (new_values = [...] is not evaluable: skip non-evaluable ones); a conditional
            # before the loop is executed too - a return there means that NO value is validated for this dtype
            skipped = None
            for st in pre:
                if isinstance(st, ast.Assign) and isinstance(st.targets[0], ast.Name):
                    try:
                        I.exec_stmt(st, env0, f)
                    except AnalysisError:
                        pass
                elif isinstance(st, ast.If):
                    try:
                        I.exec_stmt(st, env0, f)
                    except _Return as r_:
                        skipped = r_.value
                        break
                    except (AnalysisError, Raised):
                        pass
            if skipped is not None:
                for t in tags:
                    n_cells += 1
                    role = f"{d0!r}|{d0!r}|{t}"
                    okc = isinstance(skipped, DT) and fits(t, skipped)
                    if not okc:
                        bad += 1
                        if bad <= 8:
                            ctx.ob(R_LOOP, f, role, False, "", loop,
                                   message=f"vector {d0!r}: the validation is skipped altogether (a return before the loop hands back "
                                           f"{skipped!r}), so a {t} value is accepted with a target dtype that does not admit it"
                                           + (" - a None written into a non-nullable vector leaves it labelled non-nullable" if t == "NoneType" else ""))
                    else:
                        from .c04 import _OB
                        o = _OB(R_LOOP, f.qualname, role, True, "skipped: the dtype admits the value")
                        o.loc = "src/serif/vector.py"
                        ctx.obligations.append(o)
                continue
            loop_vars = sorted(k for k in env0 if k not in ("self", "__module__"))
            if not loop_vars:
                raise AnalysisError("validation loop: no running target variable initialised before the loop")
            # BFS over running states
            start = tuple((k, env0[k]) for k in loop_vars)
            seen = {start}
            order = [start]
            i = 0
            while i < len(order):
                state = order[i]
                i += 1
                for t in tags:
                    n_cells += 1
                    selfobj = Obj("Vector", {"_dtype": d0})
                    env = {"self": selfobj, "__module__": "vector", val: value_of_tag(t)}
                    env.update(dict(state))
                    tgt_before = _target_of(dict(state))
                    problems = []
                    outcome = "ok"
                    try:
                        I.exec_body(loop.body, env, f)
                    except _Continue:
                        pass
                    except _Break:
                        problems.append("the validation loop stops at this value: later values of the same assignment are never validated")
                    except _Return:
                        problems.append("the validation loop returns from __setitem__")
                    except Raised as r:
                        outcome = r.exc
                    if selfobj.fields != {"_dtype": d0}:
                        problems.append(f"self is written during validation (now {selfobj.fields}): a later rejected value leaves the vector changed")
                    if outcome != "ok":
                        promotable = t != "NoneType" and tgt_before.kind != "object" and (
                            canon(t) == tgt_before.kind or (canon(t), tgt_before.kind) in WIDENS or (tgt_before.kind, canon(t)) in PROMOTABLE)
                        if outcome != "SerifTypeError":
                            problems.append(f"rejects with {outcome}, must be SerifTypeError")
                        if promotable or t == "NoneType" or tgt_before.kind == "object":
                            problems.append(f"a {t} value is rejected although a {tgt_before!r} column can hold or be promoted for it")
                    else:
                        new_state = tuple((k, env[k]) for k in loop_vars)
                        tgt_after = _target_of(dict(new_state))
                        if not fits(t, tgt_after):
                            problems.append(f"a {t} value is accepted with target dtype {tgt_after!r}, which does not admit it")
                        if not geq(tgt_after, tgt_before):
                            problems.append(f"the target narrows from {tgt_before!r} to {tgt_after!r}: values accepted earlier no longer fit")
                        must_reject = t != "NoneType" and tgt_before.kind != "object" and not (
                            canon(t) == tgt_before.kind or (canon(t), tgt_before.kind) in WIDENS
                            or (tgt_before.kind, canon(t)) in PROMOTABLE) and tgt_after.kind != "object"
                        if must_reject:
                            problems.append(f"an incompatible {t} value is accepted into a {tgt_before!r} column")
                        if new_state not in seen:
                            seen.add(new_state)
                            order.append(new_state)
                    role = f"{d0!r}|{tgt_before!r}|{t}"
                    if problems:
                        bad += 1
                        if bad <= 8:
                            ctx.ob(R_LOOP, f, role, False, "", loop,
                                   message=f"vector {d0!r}, running target {tgt_before!r}, value of type {t}: " + "; ".join(problems))
                    else:
                        from .c04 import _OB
                        o = _OB(R_LOOP, f.qualname, role, True, outcome)
                        o.loc = "src/serif/vector.py"
                        ctx.obligations.append(o)
            # post-loop: dtype brought to target
            for state in order:
                tgt = _target_of(dict(state))
                selfobj = Obj("Vector", {"_dtype": d0})
                env = {"self": selfobj, "__module__": "vector", "underlying": NONE}
                env.update(dict(state))
                problems = []
                try:
                    for st in post:
                        if isinstance(st, ast.If):
                            I.exec_stmt(_strip_unevaluable(st), env, f)
                        else:
                            break
                except Raised as r:
                    problems.append(f"applying the target raises {r.exc} after validation succeeded")
                got = selfobj.fields["_dtype"]
                if got != tgt:
                    problems.append(f"vector {d0!r} with validated target {tgt!r} is left with dtype {got!r} at the store")
                applied_checked += 1
                ctx.ob(R_APPLIED, f, f"{d0!r}->{tgt!r}", not problems, f"self._dtype becomes {got!r}", post[0] if post else loop,
                       message="; ".join(problems))
    ctx.extra["validation_cells"] = n_cells
    if bad > 8:
        ctx.info(f"b.validation-loop: {bad} failing cells in total; first 8 reported")


def _strip_unevaluable(st: ast.If) -> ast.If:
    """Drop statements of the post-loop `if` blocks that only rebind locals to run-time data (underlying = self._underlying)."""
    import copy
    s2 = copy.copy(st)
    s2.body = [x for x in st.body if not (isinstance(x, ast.Assign) and isinstance(x.value, ast.Attribute)
                                          and x.value.attr == "_underlying")]
    return s2


def _target_of(state: dict) -> DT:
    dts = [v for v in state.values() if isinstance(v, DT)]
    if len(dts) != 1:
        raise AnalysisError(f"validation loop: expected exactly one running DataType variable, state is {state}")
    return dts[0]


# =========================================================================================== _promote
def _promote(ctx, rule: str = "b.promote") -> None:
    prog = ctx.prog
    f = prog.func("vector.Vector._promote")
    I = Interp(prog)
    kinds = _kinds()
    can = set()
    for a in kinds:
        for b in kinds:
            st, r = I.call("vector.Vector._can_promote", [Cls(a), Cls(b)])
            if st == "return" and isinstance(r, Const) and r.v is True and a != b:
                can.add((a, b))
    ctx.ob(rule, prog.func("vector.Vector._can_promote"), "table", can == PROMOTABLE,
           f"_can_promote accepts {sorted(can)}", prog.func("vector.Vector._can_promote").node,
           message=f"_can_promote accepts {sorted(can)}, the supported promotions are {sorted(PROMOTABLE)}")
    # branches of _promote: decided per (current kind, target kind) situation on the symx event log
    from ..symx import Interp as SInterp
    from ..symx import NONE as SNONE
    from ..symx import beval, show, simplify, single_element, substitute, subterms
    it = SInterp(prog, f)
    S = ("param", f.params[0])
    CK = ("attr", ("attr", S, "_dtype"), "kind")
    # the target-kind term: what CK is compared with in the identity test
    TK = None
    for e in it.events:
        for c, pol in e.conds:
            for t in subterms(c):
                if t[0] == "cmp" and t[1] == "Is" and CK in (t[2], t[3]):
                    o = t[3] if t[2] == CK else t[2]
                    if o[0] != "name" and any(x == ("param", f.params[1]) for x in subterms(o)):
                        TK = o
    if TK is None:
        raise AnalysisError("_promote: the test `self._dtype.kind is <target kind>` was not found")
    cmps = set()
    for e in it.events:
        for c, pol in e.conds:
            for t in subterms(c):
                if t[0] == "cmp" and t[1] in ("Is", "Eq", "In"):
                    cmps.add(t)

    def atoms_for(a: str, b: str) -> dict:
        val = {CK: a, TK: b}
        out = {}
        for t in cmps:
            l, r = t[2], t[3]
            if t[1] in ("Is", "Eq"):
                lv = val.get(l, l[1] if l[0] == "name" else None)
                rv = val.get(r, r[1] if r[0] == "name" else None)
                if lv is not None and rv is not None:
                    out[t] = lv == rv
            elif t[1] == "In" and l in val and r[0] == "tuple" and all(x[0] == "name" for x in r[1]):
                out[t] = val[l] in [x[1] for x in r[1]]
        return out
    conv_of = {
        "int": lambda x: ("call", ("name", "int"), (x,), ()),
        "float": lambda x: ("call", ("name", "float"), (x,), ()),
        "complex": lambda x: ("call", ("name", "complex"), (x,), ()),
        "datetime": lambda x: ("call", ("attr", ("name", "datetime"), "combine"),
                               (x, ("call", ("attr", ("attr", ("name", "datetime"), "min"), "time"), (), ())), ()),
    }
    pairs = set()
    problems = []
    late_raise = False
    und = ("attr", S, "_underlying")
    for a in kinds:
        for b in kinds:
            atoms = atoms_for(a, b)

            def active(e):
                for c, pol in e.conds:
                    v = beval(simplify(c, atoms), atoms)
                    if v is None:
                        if any(x in (CK, TK) for x in subterms(c)):
                            raise AnalysisError(f"_promote: condition `{show(c, it)[:60]}` not decided for ({a} -> {b})")
                        continue
                    if bool(v) != pol:
                        return False
                return True
            evs = [e for e in it.events if e.kind in ("store", "raise") and active(e)]
            # (the selection of the converter may live in a helper with guard-clause returns and a final raise: what follows the
            #  call is then not under the branch conditions any more - a raise whose conditions ALL hold in this situation is
            #  certainly reached, and nothing after it happens)
            def certain(e):
                n_dec = 0
                for c, pol in e.conds:
                    v = beval(simplify(c, atoms), atoms)
                    if v is None:
                        if any(x in (CK, TK) for x in subterms(c)):
                            return False
                        continue                     # (about the form of the argument, not about the two kinds: as in active())
                    if bool(v) != pol:
                        return False
                    n_dec += 1
                return n_dec >= 1
            stops = [e.seq for e in evs if e.kind == "raise" and certain(e)]
            if stops:
                evs = [e for e in evs if e.seq <= min(stops)]
            stores = [e for e in evs if e.kind == "store"]
            raises = [e for e in evs if e.kind == "raise"]
            raises = [r for r in raises if not any(x == ("name", "isinstance") for c, _ in r.conds[-1:] for x in subterms(c))]
            if a == b:
                if stores or raises:
                    problems.append(f"promoting {a} to itself is not a no-op")
                continue
            if raises and stores and min(x.seq for x in stores) < max(x.seq for x in raises):
                late_raise = True
            if not stores:
                if (a, b) in PROMOTABLE and raises:
                    pass
                continue
            pairs.add((a, b))
            if (a, b) not in PROMOTABLE:
                continue
            sub = {TK: ("name", b), CK: ("name", a)}
            dts = [e for e in stores if e.term == ("attr", S, "_dtype")]
            want_dt = ("call", ("name", "DataType"), (("name", b),), (("nullable", ("attr", ("attr", S, "_dtype"), "nullable")),))
            if len(dts) != 1 or simplify(substitute(dts[0].value, sub), atoms) != substitute(want_dt, {CK: ("name", a)}) \
                    and simplify(dts[0].value, atoms) not in (want_dt, substitute(want_dt, {("name", b): TK})):
                got = show(dts[0].value, it)[:60] if dts else "nothing"
                problems.append(f"branch {a} -> {b}: dtype becomes `{got}`, expected DataType({b}, nullable=self._dtype.nullable)")
            tups = [e for e in stores if e.term == und]
            okc = False
            why = "element conversion not recognised"
            if len(tups) == 1 and tups[0].value[0] == "call" and tups[0].value[1] == ("name", "tuple") and len(tups[0].value[2]) == 1:
                se = single_element(it, tups[0].value[2][0])
                if se is not None and len(se[0]) == 1:
                    (L,), extra, v, ev = se
                    if it.loops[L].iter != und or extra:
                        why = ("the new tuple is not built from ALL elements of self._underlying "
                               f"(`{show(it.loops[L].iter, it)[:40]}` filtered by {len(extra)} condition(s)): the vector would change length")
                    else:
                        x = ("elem", und, L)
                        v = simplify(v, atoms)
                        # resolve a converter selected into a local: call of a closure term
                        for t in list(subterms(v)):
                            if t[0] == "call" and t[1][0] in ("lam", "name") and t[1] not in (("name", "float"), ("name", "complex")):
                                r = it.call_value(t[1], t[2])
                                if r is not None:
                                    v = substitute(v, {t: r})
                        want = ("ifexp", ("cmp", "Is", x, SNONE), SNONE, conv_of[b](x))
                        if v == want:
                            okc = True
                        else:
                            why = f"elements are converted by `{show(v, it)[:70]}`, expected `{b}(x) if x is not None else None`"
            if not okc:
                problems.append(f"branch {a} -> {b}: {why}")
    if pairs != PROMOTABLE:
        problems.append(f"_promote supports {sorted(pairs)} but _can_promote/spec say {sorted(PROMOTABLE)}")
    seen = set()
    problems = [p for p in problems if not (p in seen or seen.add(p))]
    ctx.ob(rule, f, "branches", not problems, f"_promote converts exactly {sorted(pairs)}", f.node, message="; ".join(problems))
    # raise for unsupported: every raise precedes any store
    cfg = cfg_of(f)
    raises = [n for n in cfg.stmt_nodes() if isinstance(n.ast, ast.Raise)]
    stores = [n for n in cfg.stmt_nodes() if isinstance(n.ast, ast.Assign) and short(n.ast.targets[0]).startswith("self.")]
    late = [r for r in raises for s_ in stores if cfg.can_reach(s_, r)]
    ctx.ob(rule, f, "raise-before-store", not late and not late_raise and bool(raises), "every raise of _promote precedes its first store",
           raises[0].ast if raises else f.node, message="_promote can raise after it has already replaced storage/dtype")
    ctx.ob(rule, f, "identity", not any("no-op" in p for p in problems), "same kind: no-op", f.node,
           message="promoting a vector to its own kind is not a no-op")


# =========================================================================================== validate_scalar
def _validate_scalar(ctx) -> None:
    prog = ctx.prog
    I = Interp(prog)
    f = prog.func("typing.validate_scalar")
    bad = 0
    for k in _kinds():
        for n in (False, True):
            d = DT(k, n)
            for t in CORE_TAGS + SUB_TAGS:
                st, r = I.call(f.qualname, [value_of_tag(t), d])
                problems = []
                if st == "return":
                    if not fits(t, d):
                        problems.append(f"validate_scalar accepts a {t} value for {d!r}, which does not admit it")
                    else:
                        rt = "NoneType" if r == NONE else (r.tag if isinstance(r, Inst) else "?")
                        if rt != "NoneType" and d.kind != "object" and canon(rt) != d.kind and not (rt == t):
                            problems.append(f"validate_scalar coerces a {t} value to {rt} for {d!r}")
                elif r != "TypeError":
                    problems.append(f"validate_scalar raises {r}, callers catch TypeError")
                elif fits(t, d) and t in CORE_TAGS and d.kind != "object" and canon(t) == d.kind:
                    problems.append(f"validate_scalar rejects a {t} value for {d!r}")
                role = f"{d!r}<-{t}"
                if problems:
                    bad += 1
                    if bad <= 8:
                        ctx.ob("c.validate-scalar", f, role, False, "", f.node, message="; ".join(problems))
                else:
                    from .c04 import _OB
                    ctx.obligations.append(_OB("c.validate-scalar", f.qualname, role, True, f"{st} {r!r}"))
    if bad > 8:
        ctx.info(f"c.validate-scalar: {bad} failing cells; first 8 reported")


_V = "vector"
MUTANTS = [
    dict(id="cast-empty-labelled-with-raw-class", module=_V, old="			new_dtype = DataType(kind_of_type(py_target_type), nullable=has_none)",
         new="			new_dtype = DataType(py_target_type, nullable=has_none)", rules=["a.site-typing"], desc="reverts fix 6cb0117"),
    dict(id="kind-of-type-int-before-bool", module="typing", old="_BUILTIN_KINDS = (bool, int, float,", new="_BUILTIN_KINDS = (int, bool, float,",
         rules=["a.site-typing"]),
    dict(id="bool-rung-missing", module=_V, old="		if target_kind is int:\n			return kind is bool\n		if target_kind is float:\n			return kind in (bool, int)",
         new="		if target_kind is float:\n			return kind is int", rules=["b.promote", "b.validation-loop"],
         desc="the defect repaired by fix 64d31b9: a bool vector rejects an int value instead of promoting"),
    dict(id="cast-labels-with-raw-target-class", module=_V, old="		if isinstance(py_target_type, type) and all(x is None for x in out):",
         new="		if isinstance(py_target_type, type):", rules=["a.site-typing"], desc="the defect repaired by fix f52cec5"),
    dict(id="rshift-labels-columns-with-own-dtype", module=_V, old="			return Vector((self,) + (other,))",
         new="			return Vector((self,) + (other,), dtype=self._dtype)", rules=["a.site-typing"],
         desc="the defect repaired by fix eaff0dd"),
    # (two former mutants - cast(date) passing datetimes through, cast(int) passing int instances through - are no longer
    # violations of C03: since fix f52cec5 the requested type labels only an empty / all-None result and every other result is
    # typed by inference over the converted values, so an unconverted element is reported under its own kind)
    dict(id="elementwise-scalar-reuses-dtype", module=_V,
         old="			result_values = tuple(None if x is None else op_func(x, other) for x in self._underlying)\n			# Infer dtype from result (e.g., int * 0.1 = float)\n			result_dtype = infer_dtype(result_values)",
         new="			result_values = tuple(None if x is None else op_func(x, other) for x in self._underlying)\n			# Infer dtype from result (e.g., int * 0.1 = float)\n			result_dtype = self._dtype",
         rules=["a.site-typing"]),
    dict(id="isna-typed-int", module=_V, old="		return Vector(tuple(elem is None for elem in self._underlying), dtype=DataType(bool))",
         new="		return Vector(tuple(elem for elem in self._underlying), dtype=DataType(bool))", rules=["a.site-typing"]),
    dict(id="fillna-standard-path-non-nullable", module=_V, old="			new_dtype = dtype.with_nullable(nullable=new_nullable)",
         new="			new_dtype = dtype.with_nullable(nullable=False)", rules=["a.site-typing"]),
    dict(id="dropna-keeps-none", module=_V,
         old="		return Vector(tuple(elem for elem in self._underlying if elem is not None),\n			dtype=self._dtype.with_nullable(False) if self._dtype is not None else None,\n			name=self._name, as_row=self._display_as_row)",
         new="		return Vector(tuple(elem for elem in self._underlying),\n			dtype=self._dtype.with_nullable(False) if self._dtype is not None else None,\n			name=self._name, as_row=self._display_as_row)", rules=["a.site-typing"]),
    dict(id="dropna-fast-path", module=_V,
         old="		return Vector(tuple(elem for elem in self._underlying if elem is not None),\n			dtype=self._dtype.with_nullable(False) if self._dtype is not None else None,\n			name=self._name, as_row=self._display_as_row)",
         new="		if self._dtype is not None and not self._dtype.nullable:\n			return Vector(self._underlying, dtype=self._dtype.with_nullable(False))\n		return Vector(tuple(elem for elem in self._underlying if elem is not None),\n			dtype=self._dtype.with_nullable(False) if self._dtype is not None else None,\n			name=self._name, as_row=self._display_as_row)",
         rules=["a.site-typing"]),
    dict(id="compare-drops-bool", module=_V, count=2, nth=0,
         old="			result_values = tuple(False if (x is None or y is None) else bool(op(x, y)) for x, y in zip(self, other, strict=True))",
         new="			result_values = tuple(False if (x is None or y is None) else op(x, y) for x, y in zip(self, other, strict=True))",
         rules=["a.site-typing"]),
    dict(id="infer-from-other-data", module=_V, count=3, nth=1, old="Vector(vals, dtype=infer_dtype(vals), name=None",
         new="Vector(vals, dtype=infer_dtype(self._underlying), name=None", rules=["a.site-typing"]),
    dict(id="validation-loop-breaks", module=_V,
         old="					target = DataType(required_dtype.kind, nullable=target.nullable)\n",
         new="					target = DataType(required_dtype.kind, nullable=target.nullable)\n					break\n", rules=["b.validation-loop"]),
    dict(id="promotion-forgets-nullable", module=_V,
         old="					target = DataType(required_dtype.kind, nullable=target.nullable)\n", new="					target = required_dtype\n",
         rules=["b.validation-loop"]),
    dict(id="none-not-made-nullable", module=_V,
         old="					# None is always accepted; it makes the column nullable\n					target = target.with_nullable(True)\n					continue",
         new="					# None is always accepted\n					continue", rules=["b.validation-loop"]),
    dict(id="nullable-not-applied", module=_V,
         old="			if target.nullable and not self._dtype.nullable:\n				self._dtype = self._dtype.with_nullable(True)\n", new="",
         rules=["b.target-applied"]),
    dict(id="promote-inside-loop", module=_V,
         old="					target = DataType(required_dtype.kind, nullable=target.nullable)\n",
         new="					self._promote(required_dtype.kind)\n					target = DataType(required_dtype.kind, nullable=target.nullable)\n",
         rules=["b.validation-loop"], desc="a later rejected value leaves the vector promoted"),
    dict(id="validate-scalar-accepts-str-in-int", module="typing",
         old="    if dtype.kind is int and vtype is bool:", new="    if dtype.kind is int and vtype in (bool, str):", rules=["c.validate-scalar"]),
    dict(id="promote-nullable-lost", module=_V, count=1,
         old="			self._dtype = DataType(float, nullable=self._dtype.nullable)", new="			self._dtype = DataType(float)", rules=["b.promote"]),
    dict(id="promote-filters-none", module=_V,
         old="			new_tuple = tuple(datetime.combine(x, datetime.min.time()) if x is not None else None for x in self._underlying)",
         new="			new_tuple = tuple(datetime.combine(x, datetime.min.time()) for x in self._underlying if x is not None)", rules=["b.promote"]),
    dict(id="can-promote-bool-to-int", module=_V,
         old="		if target_kind is float:\n			return kind in (bool, int)", new="		if target_kind is float:\n			return kind in (bool, int, str)", rules=["b.promote", "b.validation-loop"]),
    dict(id="sort-by-maps-values", module=_V, old="		new_values = tuple(sorted(self._underlying, key=key_fn, reverse=reverse))",
         new="		new_values = tuple(str(x) for x in sorted(self._underlying, key=key_fn, reverse=reverse))", rules=["a.site-typing"]),
    dict(id="copy-caller-passes-computed", module=_V, old="			return self.copy(self._underlying[key], name=self._name)",
         new="			return self.copy([x for x in reversed(other)] if False else [str(x) for x in self._underlying[key]], name=self._name)",
         rules=["a.copy-callers"]),
    dict(id="twin-hoist-bool-dtype", module=_V, twin=True,
         old="		return Vector(tuple(elem is None for elem in self._underlying), dtype=DataType(bool))",
         new="		bool_dtype = DataType(bool, nullable=False)\n		return Vector(tuple(elem is None for elem in self._underlying), dtype=bool_dtype)"),
    dict(id="twin-rename-target", module=_V, twin=True, edits=[(_V, "target", "needed", 49)]),
]

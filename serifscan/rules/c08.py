"""C08 - in-place assignment matches list assignment, promotes or rejects, and is atomic.

Atomicity quantifies over every failure point inside the operation.  Structurally: on the CFG
of Vector.__setitem__ (and rename_columns) no statement that MAY RAISE is reachable from a
statement that MUTATES the receiver.  The accept / widen / reject table is the one C03
evaluates exactly (shared rule).
"""
from __future__ import annotations

import ast
from typing import List, Optional, Set, Tuple

from ..astutil import Defs
from ..cfg import cfg_of
from ..core import AnalysisError, FuncInfo, attr_chain, short, walk_no_nested, walk_stmts
from ..effects import effects_of
from . import c03


def run(ctx) -> None:
    ctx.rule("a.validate-then-mutate", "Vector.__setitem__: nothing that may raise (explicit raise, consumption of key/value, "
                                       "validation, any unaudited call) is reachable after the first write event on self", 1)
    ctx.rule("b.rename-atomic", "rename_columns: every raise and every consumption of the name lists precedes the first store "
                                "to a column name", 1)
    ctx.rule("c.key-forms", "the key dispatch covers bool mask, slice, int, int vector, int list/tuple and ends in raise "
                            "SerifTypeError; every index is normalised and range-checked BEFORE it enters the update list", 3)
    ctx.rule("d.untouched", "__setitem__ and _promote never store _name / _display_as_row; the vector keeps its length (C02.b)", 2)
    ctx.rule("e.accept-widen-reject", "per (column dtype, running target, value type): reject with SerifTypeError iff no promotion "
                                      "exists, else the value fits the widened target; None makes it nullable (exact, shared with C03.b)", 200)
    ctx.rule("e.target-applied", "the widened dtype is applied (promotion with element conversion, nullability) before the store", 23)
    ctx.rule("f.table-delegation", "Table.__setitem__ resolves all target columns before any store and every store is "
                                   "self._underlying[idx][rows] = value (delegation to the column's own atomic write)", 4)
    ctx.rule("g.slice-length", "typeutils.slice_length takes start/stop/step from slice.indices(n) and clamps a closed-form length "
                               "with max(0, ...) (or delegates to len(range(...))): without the clamp a slice whose start lies on the "
                               "wrong side of stop gets a non-zero length. NECESSARY condition only - the arithmetic itself is not decided", 1)
    ctx.rule("h.fresh-map", "Table.__setitem__ (and helpers it calls on self) read the accessor map only through "
                            "_current_column_map(): after a rename through a live column the wrong cells would be addressed", 1)
    ctx.section("slice-length", _slice_length, ctx)
    ctx.section("fresh-map", _fresh_map, ctx)
    ctx.section("atomic", _atomic, ctx)
    ctx.section("rename", _rename, ctx)
    ctx.section("keys", _keys, ctx)
    ctx.section("one-cell", _one_cell, ctx)
    ctx.section("untouched", _untouched, ctx)
    ctx.section("table", _table, ctx)
    ctx.section("promote-order", _promote_order, ctx)
    ctx.section("accept-widen-reject", c03._setitem, ctx, "e.accept-widen-reject", "e.target-applied")
    # (`promotes the whole column with existing elements converted`: the branches of _promote, shared with C03.b)
    ctx.section("promote-branches", c03._promote, ctx, "e.target-applied")
    ctx.not_decided += ["equality with Python list assignment as values (index arithmetic of slice_length / range is numeric)"]


def _slice_length(ctx) -> None:
    prog = ctx.prog
    f = prog.func("typeutils.slice_length")
    sp, n = f.params[0], f.params[1]
    problems = []
    unpack = [s for s in f.body if isinstance(s, ast.Assign) and isinstance(s.targets[0], ast.Tuple) and len(s.targets[0].elts) == 3
              and short(s.value) == f"{sp}.indices({n})"]
    rets = [s for s in walk_stmts(f.body) if isinstance(s, ast.Return)]
    delegated = any(short(r.value) in (f"len(range(*{sp}.indices({n})))",) for r in rets)
    if not delegated:
        if not unpack:
            problems.append(f"start/stop/step are not taken from {sp}.indices({n})")
        for r in rets:
            v = r.value
            if not (isinstance(v, ast.Call) and short(v.func) == "max" and len(v.args) == 2
                    and any(isinstance(a, ast.Constant) and a.value == 0 for a in v.args)):
                problems.append(f"`{short(r, 70)}` is not clamped with max(0, ...): a slice like v[3:1] would get a non-zero (or negative) length")
        if len(rets) == 1 and isinstance(rets[0].value, ast.Call) and rets[0].value.args:
            body = [a for a in rets[0].value.args if not isinstance(a, ast.Constant)]
            names = {x.id for a in body for x in ast.walk(a) if isinstance(x, ast.Name)}
            if unpack:
                want = {e.id for e in unpack[0].targets[0].elts}
                if not want <= names:
                    problems.append(f"the length formula ignores {sorted(want - names)}")
    ctx.ob("g.slice-length", f, "clamp", not problems, "slice length = max(0, closed form over slice.indices) or len(range(...))", f.node,
           message="slice_length: " + "; ".join(problems))


def _fresh_map(ctx) -> None:
    prog = ctx.prog
    f = prog.func("table.Table.__setitem__")
    todo, seen = [f], set()
    bad = []
    while todo:
        g = todo.pop()
        if g.qualname in seen:
            continue
        seen.add(g.qualname)
        for n in walk_no_nested(g.node):
            if isinstance(n, ast.Attribute) and n.attr == "_column_map" and isinstance(n.ctx, ast.Load) \
                    and g.qualname != "table.Table._current_column_map":
                bad.append(f"{g.qualname}:{n.lineno} reads `{short(n)}` directly")
        for c in prog.calls_in(g):
            kind, tgt = prog.resolve_call(g, c)
            if kind == "method" and tgt is not None and tgt.cls == "Table" and isinstance(c.func, ast.Attribute) \
                    and short(c.func.value) == "self" and tgt.name not in ("__getitem__",):
                todo.append(tgt)
    ctx.ob("h.fresh-map", f, "map-reads", not bad, f"accessor map read only through _current_column_map() ({len(seen)} functions followed)", f.node,
           message="Table.__setitem__ resolves column names in a possibly stale accessor map: " + "; ".join(bad[:3]))


# ---------------------------------------------------------------------------------------------
SAFE_CALLS = {"list", "tuple", "id", "len", "isinstance", "range", "enumerate", "zip"}


def _mutation_event(prog, f: FuncInfo, node, eff) -> Optional[str]:
    st = node.ast
    if node.kind != "stmt" or st is None:
        return None
    if isinstance(st, (ast.Assign, ast.AugAssign, ast.AnnAssign)):
        tg = st.targets if isinstance(st, ast.Assign) else [st.target]
        for t in tg:
            base = t
            while isinstance(base, (ast.Attribute, ast.Subscript)):
                if isinstance(base, ast.Attribute) and isinstance(base.value, ast.Name) and base.value.id == "self":
                    return f"store to self.{base.attr}"
                base = base.value
    for n in walk_no_nested(st):
        if isinstance(n, ast.Call):
            ch = attr_chain(n.func)
            if ch and ch[0] == "self" and len(ch) == 2:
                m = prog.method(f.cls, ch[1]) if f.cls else None
                if m is not None:
                    s = eff.summaries.get(m.qualname)
                    if s and any(w.root == m.params[0] and w.kind == "content" for w in s.writes if m.params):
                        return f"call self.{ch[1]}() which writes self"
                    if ch[1] in ("_invalidate_fp",):
                        return f"call self.{ch[1]}()"
            if ch and len(ch) == 2 and ch[1] in ("register", "unregister") and ch[0] in ("_alias", "_ALIAS_TRACKER"):
                return f"tracker {ch[1]}"
    return None


def _may_raise(prog, f: FuncInfo, node, after_mutation_ok: Set[str]) -> Optional[str]:
    st = node.ast
    if st is None:
        return None
    if node.kind == "stmt" and isinstance(st, ast.Raise):
        return f"`{short(st, 60)}`"
    exprs = [st] if node.kind in ("stmt",) else [st] if node.kind == "test" else [st.iter] if node.kind == "for" else []
    for e in exprs:
        for n in walk_no_nested(e) if not isinstance(e, (ast.FunctionDef,)) else []:
            if isinstance(n, ast.Call):
                ch = attr_chain(n.func)
                name = ".".join(ch) if ch else short(n.func, 30)
                if name in after_mutation_ok or (ch and ch[-1] in ("register", "unregister", "_invalidate_fp", "with_nullable")):
                    continue
                if name in SAFE_CALLS and all(isinstance(a, ast.Name) for a in n.args):
                    continue
                if name == "self._promote":
                    continue          # its raises precede its stores (C03.b.promote) and _can_promote has already said yes
                return f"call `{short(n, 50)}` (may raise)"
    return None


def _atomic(ctx) -> None:
    """Vector.__setitem__ on its symx event log (helpers in line): after the first write to self nothing can follow that may
    raise - an explicit raise, or a call other than the bookkeeping calls (tracker, fingerprint, promotion whose own raises precede
    its stores) and builtins applied to values the function built itself."""
    from ..sites2 import interp_of
    from ..symx import show, subterms
    prog = ctx.prog
    eff = effects_of(prog)
    f = prog.func("vector.Vector.__setitem__")
    it = interp_of(prog, f)
    SELF = ("param", f.params[0])
    user = {("param", p_) for p_ in f.params[1:]}

    def rooted_in_self(t) -> bool:
        while t[0] in ("attr", "sub"):
            t = t[1]
        return t == SELF

    def mutation(e) -> Optional[str]:
        if e.kind == "store" and e.term[0] in ("attr", "sub") and rooted_in_self(e.term):
            return f"store to {show(e.term, it)[:40]}"
        if e.kind == "call" and e.term[1][0] == "attr":
            recv, m = e.term[1][1], e.term[1][2]
            if recv == SELF:
                tgt = prog.method(f.cls, m) if f.cls else None
                if m == "_invalidate_fp":
                    return "call self._invalidate_fp()"
                if tgt is not None:
                    sm = eff.summaries.get(tgt.qualname)
                    if sm and tgt.params and any(w.root == tgt.params[0] and w.kind == "content" for w in sm.writes):
                        return f"call self.{m}() which writes self"
            if m in ("register", "unregister") and recv[0] == "name" and recv[1] in ("_alias", "_ALIAS_TRACKER"):
                return f"tracker {m}"
        return None

    def may_raise(e) -> Optional[str]:
        if e.kind == "raise":
            return f"`raise {show(e.term, it)[:50]}`"
        if e.kind != "call":
            return None
        fn = e.term[1]
        nm = fn[2] if fn[0] == "attr" else fn[1] if fn[0] == "name" else None
        if nm in ("register", "unregister", "_invalidate_fp", "with_nullable"):
            return None
        if fn == ("attr", SELF, "_promote"):
            return None               # its raises precede its stores (C03.b.promote) and _can_promote has already said yes
        if fn[0] == "name" and nm in SAFE_CALLS and not any(x in user for a in e.term[2] for x in subterms(a)):
            return None
        if fn[0] == "name" and nm in ("DataType", "<except>"):
            return None
        return f"call `{show(e.term, it)[:50]}` (may raise)"
    muts = [(e, mutation(e)) for e in it.events]
    muts = [(e, why) for e, why in muts if why]
    if not muts:
        raise AnalysisError("Vector.__setitem__: no write event on self found")
    problems = []
    for m, why in muts:
        for e in it.events:
            if e is m or mutation(e):
                continue
            r = may_raise(e)
            if r and _can_follow(m, e):
                problems.append(f"after `{show(m.term, it)[:40]}` (line {getattr(m.node, 'lineno', '?')}: {why}) the operation can still fail at "
                                f"line {getattr(e.node, 'lineno', '?')}: {r} - the vector would be left changed by a failed assignment")
                break
        if problems:
            break
    first = min(muts, key=lambda x: x[0].seq)
    ctx.ob("a.validate-then-mutate", f, "atomic", not problems,
           f"{len(muts)} write events on self, first at line {getattr(first[0].node, 'lineno', '?')} ({first[1]}); nothing that may raise "
           f"follows any of them", first[0].node, message="; ".join(problems))


def _promote_order(ctx) -> None:
    """Vector._promote (called from __setitem__ before the storage is replaced): every element is converted BEFORE the first write to
    self - a conversion can fail (float() of an int no float can hold), and the vector must then be exactly as it was."""
    from ..sites2 import interp_of
    from ..symx import show, subterms
    prog = ctx.prog
    f = prog.func("vector.Vector._promote")
    it = interp_of(prog, f)
    SELF = ("param", f.params[0])
    und = ("attr", SELF, "_underlying")
    writes = [e for e in it.events if (e.kind == "store" and e.term[0] == "attr" and e.term[1] == SELF)
              or (e.kind == "call" and e.term[1][0] == "attr" and e.term[1][2] in ("register", "unregister"))]
    convs = [e for e in it.events if e.kind == "call" and e.loops and any(
        a_[0] == "elem" and a_[1] in (und, SELF) for a_ in e.term[2])]
    problems = []
    for w in writes:
        for c_ in convs:
            if _can_follow(w, c_):
                problems.append(f"`{show(c_.term, it)[:40]}` (line {getattr(c_.node, 'lineno', '?')}) converts an element after `{show(w.term, it)[:40]}` "
                                f"(line {getattr(w.node, 'lineno', '?')}) has already changed the vector: if the conversion fails the vector is left "
                                f"re-labelled / half swapped by a failed assignment")
                break
        if problems:
            break
    ctx.ob("a.validate-then-mutate", f, "promote-converts-first", not problems and bool(convs) and bool(writes),
           f"{len(convs)} element conversions, all before the {len(writes)} writes of their branch", f.node, message="; ".join(problems[:1]))


def _rename(ctx) -> None:
    """rename_columns on its symx event log (helpers in line): no raise can follow a store to a column name, and before the first
    such store the pairs are replayed on a scratch list of names (a loop over the old names that raises for a missing one and
    records each rename in the scratch list, so that chains a->b, b->c are judged like the real renames)."""
    from ..sites2 import interp_of
    from ..symx import deep_subterms, show, subterms
    prog = ctx.prog
    f = prog.func("table.Table.rename_columns")
    it = interp_of(prog, f)
    OLD = ("param", f.params[1])
    stores = [e for e in it.events if e.kind == "store" and e.term[0] == "attr" and e.term[2] == "_name"]
    if not stores:
        raise AnalysisError("rename_columns: no store to a column name found")
    problems = []
    for m in stores:
        for e in it.events:
            if e.kind == "raise" and _can_follow(m, e):
                problems.append(f"`raise {show(e.term, it)[:50]}` (line {getattr(e.node, 'lineno', '?')}) is reachable after the first rename "
                                f"has been applied (line {getattr(m.node, 'lineno', '?')}): a failed rename_columns leaves the table "
                                f"half-renamed")
                break
        if problems:
            break
    first = min(s_.seq for s_ in stores)

    def over_old(L) -> bool:
        lp = it.loops[L]
        dom = lp.domain if lp.domain is not None else lp.iter
        return dom is not None and (dom == OLD or (dom[0] == "tuple" and OLD in dom[1]) or any(x == OLD for x in subterms(dom)))
    sim = False
    for r in it.events:
        if r.kind != "raise" or r.seq > first:
            continue
        for L in r.loops:
            if not over_old(L):
                continue
            # the scratch list is updated in the same loop
            if any(e.kind in ("store", "call") and L in e.loops and e.seq < first
                   and ((e.kind == "store" and e.term[0] == "sub" and e.term[1][0] == "obj")
                        or (e.kind == "call" and e.term[1][0] == "attr" and e.term[1][1][0] == "obj"
                            and e.term[1][2] in ("remove", "append", "insert", "pop", "__setitem__")))
                   for e in it.events):
                sim = True
    if not sim:
        problems.append("the failing lookup of an old name is not simulated on a scratch list before the renames are applied")
    ctx.ob("b.rename-atomic", f, "atomic", not problems, "all raises precede the first store to a column name", stores[0].node,
           message="; ".join(problems[:2]))


def _keys(ctx) -> None:
    """Vector.__setitem__ key forms, on the symx event log: every position recorded for the write phase that comes from the KEY
    (int key, int vector, int list / tuple) is the key value normalised (`idx + n if idx < 0`) and range-checked (a raising
    `not 0 <= idx < n` on the way); positions from masks / slices come from enumerate / range; unsupported key types raise."""
    from ..sites2 import interp_of
    from ..symx import NONE as SNONE
    from ..symx import const, flatten_conds, show, subterms
    prog = ctx.prog
    f = prog.func("vector.Vector.__setitem__")
    it = interp_of(prog, f)
    SELF = ("param", f.params[0])
    keyp = ("param", f.params[1])
    N = ("call", ("name", "len"), (SELF,), ())
    # the recorded updates: appends of (position, value) pairs into one list of the function
    recs = [e for e in it.events if e.kind == "call" and e.term[1][0] == "attr" and e.term[1][2] == "append" and e.term[1][1][0] == "obj"
            and len(e.term[2]) == 1 and e.term[2][0][0] == "tuple" and len(e.term[2][0][1]) == 2]
    if not recs:
        raise AnalysisError("Vector.__setitem__: no recorded (position, value) update found")
    classes = set()
    for e in it.events:
        for t, pol in flatten_conds(e.conds):
            for x in subterms(t):
                if x[0] == "call" and x[1] == ("name", "isinstance") and len(x[2]) == 2 and any(y == keyp for y in subterms(x[2][0])):
                    c = x[2][1]
                    for n_ in ([c] if c[0] == "name" else list(c[1]) if c[0] == "tuple" else []):
                        if n_[0] == "name":
                            classes.add(n_[1])
    # [] is the index list of no position (v[[i for i in idx if cond]] = 0 with nothing to overwrite): on a vector of 3 it does not
    # certainly reach a refusal (all() of no element makes it a mask of the wrong length)
    from .c07 import certainly_raised_for_empty_list
    n_r, refused = certainly_raised_for_empty_list(prog, "vector.Vector.__setitem__", self_len=3, errors=("Error",))
    ctx.ob("c.key-forms", f, "empty-index-list", not refused, f"{n_r} raise(s) judged, none certainly reached by key = [] on a vector of 3",
           (refused[0].node if refused else f.node),
           message=f"Vector.__setitem__: v[[]] = x on a non-empty vector certainly reaches the refusal at line "
                   f"{getattr(refused[0].node, 'lineno', 0) if refused else 0} ([] is classified as a boolean mask - all() of no element is True - and "
                   f"fails the mask length check) while v[()] = x and v[Vector([])] = x address nothing and succeed")
    # a one-shot iterator (generator, map, zip) is a value like any other iterable for list assignment: it has no len() - no
    # `len(value)` may be applied to the raw parameter when it is one (evaluated for that kind of value: a rebinding
    # `value = list(value) if isinstance(value, Iterator) else value` resolves to the list)
    valp = ("param", f.params[2])
    raw_vals = (valp, ("call", ("attr", SELF, "_check_duplicate"), (valp,), ()))

    def it_truth(c):
        if c[0] == "call" and c[1] == ("name", "isinstance") and len(c[2]) == 2 and c[2][0] in raw_vals:
            names = {x[1] for x in subterms(c[2][1]) if x[0] == "name"}
            if names & {"Iterator", "Iterable", "Generator"}:
                return True
            return False if names and names <= {"str", "bytes", "bytearray", "complex", "Enum", "Vector", "list", "tuple", "Mapping", "dict", "int", "float", "range",
                                                "Sized", "Sequence", "Collection", "Table"} else None
        if c[0] == "un" and c[1] == "Not":
            r = it_truth(c[2])
            return None if r is None else not r
        if c[0] == "bool":
            rs = [it_truth(x) for x in c[2]]
            if c[1] == "and":
                return False if False in rs else (None if None in rs else True)
            return True if True in rs else (None if None in rs else False)
        return None

    def it_resolve(t):
        while t[0] == "ifexp":
            r = it_truth(t[1])
            if r is None:
                return None
            t = t[2] if r else t[3]
        return t
    len_of_iterator = []
    for e in it.events:
        if any(it_truth(c) is (not pol) for c, pol in flatten_conds(e.conds)):
            continue                                     # not reached for an iterator value
        for t in [e.term, e.value] + [c for c, _ in e.conds]:
            if t is None:
                continue
            for x in subterms(t):
                if x[0] == "call" and x[1] == ("name", "len") and len(x[2]) == 1 and it_resolve(x[2][0]) in raw_vals:
                    len_of_iterator.append(e)
    ctx.ob("c.key-forms", f, "iterator-value", not len_of_iterator, "no len() of the raw value is reached when the value is a one-shot iterator",
           (len_of_iterator[0].node if len_of_iterator else f.node),
           message=f"Vector.__setitem__ takes len(value) (line {getattr(len_of_iterator[0].node, 'lineno', 0) if len_of_iterator else 0}) of a value that "
                   f"may be a generator / map / zip: v[0:2] = (x for x in [7, 8]) raises a bare TypeError 'object of type generator has no len()' "
                   f"although list assignment takes any iterable and t[:, 'a'] = generator works")
    ok = {"Vector", "slice", "int"} <= classes and bool({"list", "tuple"} & classes)
    ctx.ob("c.key-forms", f, "dispatch", ok, f"key classes dispatched on: {sorted(classes)}", f.node,
           message=f"the key dispatch tests {sorted(classes)}; expected mask, slice, int, int vector, int list/tuple")
    raises = [e for e in it.events if e.kind == "raise" and e.depth == 0 and not e.loops and e.term[0] == "call"
              and e.term[1] == ("name", "SerifTypeError")
              and sum(1 for t, pol in flatten_conds(e.conds) if not pol and any(x[0] == "call" and x[1] == ("name", "isinstance")
                                                                                 for x in subterms(t))) >= 3]
    ctx.ob("c.key-forms", f, "final-else", bool(raises), "unsupported key types raise SerifTypeError", raises[0].node if raises else f.node,
           message="an unsupported key type does not raise SerifTypeError (the assignment would silently do nothing)")
    # the untyped empty vector (schema() is None) is a key too: v[Vector([])] selects nothing, so v[Vector([])] = x assigns nothing -
    # it must not reach the final raise (sibling agreement with __getitem__, which has this branch)
    def val(t):
        """abstract value of a key-derived term for key = Vector([]): 'V0' (that vector), 'T0' (the empty tuple), None (unknown)"""
        if t == keyp or (t[0] == "call" and t[1][0] == "attr" and t[1][2] == "_check_duplicate" and t[2] == (keyp,)):
            return "V0"
        if t == ("tuple", ()):
            return "T0"
        if t[0] == "ifexp":
            c = truth(t[1])
            return val(t[2]) if c is True else (val(t[3]) if c is False else None)
        return None

    def truth(t):
        """truth of a path condition for key = Vector([]) (a Vector, no schema, length 0); None = not determined"""
        k = t[0]
        if k == "const" and isinstance(t[2], bool):
            return t[2]
        if k == "ifexp":                              # (a predicate helper evaluated in line: guard clauses become a conditional)
            c = truth(t[1])
            if c is None:
                a_, b_ = truth(t[2]), truth(t[3])
                return a_ if a_ == b_ else None
            return truth(t[2] if c else t[3])
        if k == "bool":
            vs = [truth(x) for x in t[2]]
            if t[1] == "and":
                return False if any(v is False for v in vs) else (True if all(v is True for v in vs) else None)
            return True if any(v is True for v in vs) else (False if all(v is False for v in vs) else None)
        if k == "un" and t[1] == "Not":
            v = truth(t[2])
            return None if v is None else (not v)
        if k == "call" and t[1] == ("name", "isinstance") and len(t[2]) == 2:
            v = val(t[2][0])
            c = t[2][1]
            names = {n_[1] for n_ in ([c] if c[0] == "name" else list(c[1]) if c[0] == "tuple" else []) if n_[0] == "name"}
            return None if v is None else (("Vector" in names) if v == "V0" else ("tuple" in names))
        if k == "call" and t[1] in (("name", "all"), ("name", "any")) and len(t[2]) == 1 and t[2][0][0] == "obj":
            evs = [e for e in it.events if e.kind == "elem" and e.term == t[2][0]]
            srcs = {val(it.loops[L].iter) for e in evs for L in e.loops if it.loops[L].iter is not None} - {None}
            if srcs:
                return t[1][1] == "all"
            return None
        if k == "cmp" and t[1] in ("Is", "IsNot") and t[3] == ("const", "NoneType", None) and t[2][0] == "call" and t[2][1][0] == "attr" \
                and t[2][1][2] == "schema" and val(t[2][1][1]) == "V0":
            return t[1] == "Is"
        if k == "cmp" and t[1] in ("Eq", "NotEq") and ("const", "int", 0) in (t[2], t[3]) and any(
                x[0] == "call" and x[1] == ("name", "len") and len(x[2]) == 1 and val(x[2][0]) is not None for x in (t[2], t[3])):
            return t[1] == "Eq"
        return None
    reach = [r_ for r_ in raises if all((truth(t) if pol else (None if truth(t) is None else not truth(t))) is not False
                                        for t, pol in r_.conds)]
    tested, reaches = True, bool(reach)
    ctx.ob("c.key-forms", f, "untyped-empty-key", tested and not reaches, "an untyped empty vector key addresses nothing (no raise)", f.node,
           message="Vector.__setitem__ has no branch for a key vector without a schema (Vector([])): v[Vector([])] = x raises SerifTypeError "
                   "although v[Vector([])] reads as the empty selection")
    # a Row is a read-only view: its item assignment refuses before anything changes (Vector.__setitem__ would promote the dtype and
    # then fail on the read-only storage)
    rs = prog.cls("Row").methods.get("__setitem__") if prog.cls("Row") is not None else None
    okr = False
    if rs is not None:
        from ..symx import Interp as _RI
        ri = _RI(prog, rs)
        okr = not ri.falls_through and not [e for e in ri.events if e.kind in ("store", "return")] \
            and any(e.kind == "raise" for e in ri.events)
    ctx.ob("c.key-forms", f, "row-read-only", okr, "Row.__setitem__ only raises", (rs.node if rs is not None else f.node),
           message="Row does not define an item assignment that only refuses: row[0] = None runs Vector.__setitem__, which makes the dtype "
                   "nullable and then fails with AttributeError on the Row's read-only storage - a failed assignment that changed the Row")
    n_idx = 0
    for e in recs:
        pos = e.term[2][0][1][0]
        from_key = any(x == keyp for x in subterms(pos)) and not any(x[0] == "call" and x[1][0] == "attr" and x[1][2] == "indices"
                                                                     for x in subterms(pos))
        if not from_key or any(x[0] == "idx" for x in subterms(pos)) and not any(x[0] == "elem" for x in subterms(pos)):
            continue                  # positions produced by enumerate (mask) or range (slice)
        if pos[0] == "elem" and pos[1][0] == "obj":
            continue                  # positions taken from a list the function computed (mask -> list of true positions)
        n_idx += 1
        problems = []
        fc = flatten_conds(e.conds)
        normal = pos[0] == "ifexp" and pos[1][0] == "cmp" and pos[1][1] == "Lt" and pos[1][3] == const(0) and pos[3] == pos[1][2] \
            and pos[2] in (("bin", "Add", pos[1][2], N), ("bin", "Add", N, pos[1][2]))
        if not normal:
            problems.append(f"position `{show(pos, it)[:60]}` is recorded before negative values are normalised (idx + len(self) if idx < 0)")
        checked = (("cmp", "LtE", const(0), pos), True) in fc and (("cmp", "Lt", pos, N), True) in fc
        if not checked:
            problems.append(f"position `{show(pos, it)[:60]}` is recorded without a range check: a bad index would fail (or wrap) during "
                            f"the write phase")
        ctx.ob("c.key-forms", f, f"index:{n_idx}", not problems, "index normalised and range-checked before it is recorded", e.node,
               message="; ".join(problems))
    if n_idx < 2:
        raise AnalysisError(f"Vector.__setitem__: expected recorded positions taken from an int key and from index vectors, found {n_idx}")


def _untouched(ctx) -> None:
    from ..sites2 import interp_of
    from ..symx import show
    prog = ctx.prog
    for q in ("vector.Vector.__setitem__", "vector.Vector._promote"):
        f = prog.func(q)
        it = interp_of(prog, f)
        SELF = ("param", f.params[0])
        bad = [show(e.term, it)[:40] for e in it.events
               if e.kind == "store" and e.term[0] == "attr" and e.term[1] == SELF and e.term[2] in ("_name", "_display_as_row", "name", "_length")]
        bad += [show(e.term, it)[:40] for e in it.events
                if e.kind == "call" and show(e.term[1], it) in ("object.__setattr__", "setattr") and len(e.term[2]) >= 2
                and e.term[2][0] == SELF and e.term[2][1][0] == "const" and e.term[2][1][2] in ("_name", "_display_as_row", "name", "_length")]
        ctx.ob("d.untouched", f, "no-name-store", not bad, "no store to _name/_display_as_row", f.node,
               message=f"{q} changes the vector's name/orientation: {bad}")


def _compatible(c1, c2) -> bool:
    """can both path conditions hold on one execution?  (no literal of one is false under the literals of the other)"""
    from ..symx import beval, flatten_conds
    for a, b in ((c1, c2), (c2, c1)):
        atoms = {}
        for t, pol in flatten_conds(b):
            atoms[t] = pol
        for t, pol in flatten_conds(a):
            v = beval(t, atoms)
            if isinstance(v, bool) and v != pol:
                return False
    return True


def _can_follow(a, b) -> bool:
    """event b can execute after event a on one run of the function"""
    if not _compatible(a.conds, b.conds):
        return False
    return b.seq > a.seq or bool(set(a.loops) & set(b.loops))


def _table(ctx) -> None:
    """Table.__setitem__ on its symx event log (private helpers in line): which cells are stored, that no failure can follow a
    store, and that every value sequence paired with the target columns was length-checked against them."""
    from ..sites2 import interp_of
    from ..symx import deep_subterms, flatten_conds, show, subterms
    prog = ctx.prog
    f = prog.func("table.Table.__setitem__")
    it = interp_of(prog, f)
    SELF, KEY, VALUE = ("param", f.params[0]), ("param", f.params[1]), ("param", f.params[2])
    cols = (("attr", SELF, "_underlying"), ("call", ("attr", SELF, "cols"), (), ()))
    stores = [e for e in it.events if e.kind == "store" and e.term[0] == "sub"]
    cell_stores = [e for e in stores if e.term[1][0] == "sub" and e.term[1][1] in cols]
    if not cell_stores:
        raise AnalysisError("Table.__setitem__: cell stores not found")
    problems = []
    rows = {e.term[2] for e in cell_stores}
    for e in stores:
        if e not in cell_stores and any(x in cols for x in deep_subterms(it, e.term)):
            problems.append(f"`{show(e.term, it)[:60]} = ...` is not a write of the addressed rows of one of the table's own columns")
    if len(rows) != 1:
        problems.append(f"the stores address different row specs: {sorted(show(r, it)[:30] for r in rows)}")
    else:
        r = next(iter(rows))
        if not any(x == KEY for x in subterms(r)):
            problems.append(f"the row spec `{show(r, it)[:40]}` does not come from the key")
    ctx.ob("f.table-delegation", f, "store-shape", not problems, f"{len(cell_stores)} stores, each self._underlying[idx][row_spec] = value",
           cell_stores[0].node, message="; ".join(problems[:2]))
    # nothing that reports a bad key / shape can follow a store
    late = []
    for m in cell_stores:
        for e in it.events:
            if e.kind == "raise" and _can_follow(m, e):
                late.append(f"`raise {show(e.term, it)[:50]}` can follow the store `{show(m.term, it)[-40:]} = ...` (line "
                            f"{getattr(m.node, 'lineno', '?')}): a failed assignment would leave cells written")
                break
    ctx.ob("f.table-delegation", f, "resolve-first", not late, "column resolution and shape errors precede every store", f.node,
           message="; ".join(late[:2]))
    # a value sequence paired position-by-position with the target columns was length-checked against them
    missing = []
    n_paired = 0
    for e in cell_stores:
        v = e.value
        paired = None
        for L in e.loops:
            lp = it.loops[L]
            dom = lp.domain if lp.domain is not None else lp.iter
            if v[0] == "sub" and v[2] == ("idx", L):
                paired = (v[1], dom if dom[0] != "tuple" else dom[1][0])
            elif v[0] == "elem" and v[2] == L and dom is not None and dom[0] == "tuple" and len(dom[1]) == 2 and v[1] in dom[1]:
                other = [d for d in dom[1] if d != v[1]]
                paired = (v[1], other[0]) if other else None
        if paired is None:
            continue
        n_paired += 1
        seq, tgt = paired
        ln = lambda c: ("call", ("name", "len"), (c,), ())
        ok = any(pol and t[0] == "cmp" and t[1] == "Eq" and {t[2], t[3]} == {ln(seq), ln(tgt)} for t, pol in flatten_conds(e.conds))
        if not ok:
            missing.append(f"`... = {show(v, it)[:40]}` pairs `{show(seq, it)[:30]}` with the target columns without a raising "
                           f"`len(...) != len(<targets>)` check before it")
    ctx.ob("f.table-delegation", f, "shape-guards", not missing and n_paired >= 1,
           f"{n_paired} position-paired stores, each after a raising length comparison with the target columns", f.node,
           message="; ".join(missing[:2]) or "Table.__setitem__ has no row / table / list assignment form any more")
    # a column given BY NAME is resolved like t[name]: the exact stored name first (first occurrence), only then the accessor names -
    # otherwise t[0, 'first name'] = x is "not found" and, with columns 'A' and 'a', t[0, 'a'] = x lands in 'A'
    from ..symx import NONE as SNONE
    MAP = ("call", ("attr", SELF, "_current_column_map"), (), ())
    und_ = ("attr", SELF, "_underlying")

    def exact_search(t, x) -> bool:
        """t is the position of the first column whose stored name == x (a helper call verified below, or the search in line)"""
        if t == ("call", ("attr", SELF, "_stored_name_index"), (x,), ()):
            return True
        if t[0] == "first" and t[3] == SNONE:
            lp = it.loops[t[1]]
            dom = lp.domain if lp.domain is not None else lp.iter
            el = ("elem", und_, t[1])
            eq = (("cmp", "Eq", ("attr", el, "_name"), x), True)
            return dom == und_ and t[2] == ("idx", t[1]) and [tuple(flatten_conds(c)) for c in lp.found] in ([(eq,)],)
        return False
    nm_problems = []
    n_lookups = 0
    for e in it.events:
        if e.kind == "call" and e.term[1] == ("attr", MAP, "get") and e.term[2]:
            x = e.term[2][0]
            base = x[1][1] if (x[0] == "call" and x[1][0] == "attr" and x[1][2] == "lower" and not x[2]) else x
            n_lookups += 1
            if not any(pol and t[0] == "cmp" and t[1] == "Is" and t[3] == SNONE and exact_search(t[2], base) for t, pol in flatten_conds(e.conds)):
                nm_problems.append(f"`{show(e.term, it)[:50]}` (line {getattr(e.node, 'lineno', '?')}) consults the accessor map without having "
                                   f"looked for the exactly named column first")
    hp = prog.cls("Table").methods.get("_stored_name_index")
    if hp is not None:
        from ..symx import Interp as _SI
        hi = _SI(prog, hp)
        HS, HN = ("param", hp.params[0]), ("param", hp.params[1])
        hel = lambda L: ("elem", ("attr", HS, "_underlying"), L)
        okh = len(hi.returns) == 2 and not hi.falls_through and hi.returns[1] == ((), SNONE) and hi.returns[0][1][0] == "idx" \
            and hi.returns[0][0] == ((("cmp", "Eq", ("attr", hel(hi.returns[0][1][1]), "_name"), HN), True),)
        if not okh:
            nm_problems.append("_stored_name_index is not `first position whose stored name == name, else None`")
    seen_ = set()
    nm_problems = [p_ for p_ in nm_problems if not (p_ in seen_ or seen_.add(p_))]
    ctx.ob("f.table-delegation", f, "exact-name-first", not nm_problems and n_lookups >= 1,
           f"{n_lookups} accessor-map lookups, each after the exact stored-name search", f.node, message="; ".join(nm_problems[:2]))
    # value forms: a same-length sequence given as a VECTOR reaches the column's own assignment too (not only list / tuple)
    def item_alts(t):
        """A list built item by item from ONE source sequence - a comprehension `[f(v) for v in src]`, or an empty list filled by
        `.append(f(v))` calls in a `for v in src` loop: (src, item term, [(what is stored for the item, the conditions that select
        it)]); None for anything else."""
        if t[0] != "obj":
            return None
        o = it.objs[t[1]]
        from ..sites2 import leaves_with_conds as _lw
        if o.kind == "listcomp":
            evs = [e for e in it.events if e.kind == "elem" and e.term == t]
            if len(evs) != 1 or not evs[0].loops:
                return None
            L = [x for x in evs[0].loops if x not in o.loops]
            if len(L) != 1:
                return None
            src = it.loops[L[0]].iter
            return src, ("elem", src, L[0]), list(_lw(evs[0].value)), evs[0]
        if o.kind == "list" and not o.init and not isinstance(o.node, ast.Call):
            from ..symx import elements as _els
            evs = _els(it, t)
            if not evs or any(not (e.kind == "call" and e.term[1][2] == "append" and len(e.term[2]) == 1) for e in evs):
                return None
            Ls = {tuple(x for x in e.loops if x not in o.loops) for e in evs}
            if len(Ls) != 1 or len(next(iter(Ls))) != 1:
                return None
            L = next(iter(Ls))[0]
            src = it.loops[L].iter
            alts = []
            for e in evs:
                own = tuple(flatten_conds(tuple(e.conds[len(o.conds):])))
                for v, cs in _lw(e.term[2][0]):
                    alts.append((v, own + tuple(cs)))
            return src, ("elem", src, L), alts, evs[0]
        return None

    def is_value(t) -> bool:
        """the assigned value, possibly snapshotted: value / value.copy() / list(value) / [v.copy() if ... else v for v in value]"""
        if t == VALUE:
            return True
        if t[0] == "ifexp":
            return is_value(t[2]) and is_value(t[3])
        if t[0] == "call" and t[1][0] == "attr" and t[1][2] == "copy" and is_value(t[1][1]) and not t[2] and not t[3]:
            return True
        if t[0] == "call" and t[1] in (("name", "list"), ("name", "tuple")) and len(t[2]) == 1 and not t[3]:
            return is_value(t[2][0])
        if t[0] == "obj" and it.objs[t[1]].kind == "list" and isinstance(it.objs[t[1]].node, ast.Call) and len(it.objs[t[1]].init) == 1:
            return is_value(it.objs[t[1]].init[0])
        ia = item_alts(t)
        if ia is not None and is_value(ia[0]):
            x = ia[1]

            def item_ok(v):
                """the item itself, its copy, or - a one-shot iterator among the items - the list of what it yields"""
                if v == x or v == ("call", ("attr", x, "copy"), (), ()):
                    return True
                if v[0] == "call" and v[1] in (("name", "list"), ("name", "tuple")) and v[2] == (x,) and not v[3]:
                    return True
                return v[0] == "obj" and it.objs[v[1]].kind == "list" and isinstance(it.objs[v[1]].node, ast.Call) and it.objs[v[1]].init == (x,)
            return all(item_ok(v) for v, _ in ia[2])
        return False
    # unsupported values raise
    fin = [e for e in it.events if e.kind == "raise" and e.term[0] == "call" and e.term[1] == ("name", "SerifTypeError")
           and any(x == VALUE for t, pol in flatten_conds(e.conds) for x in deep_subterms(it, t))
           and all(not _compatible(m.conds, e.conds) for m in cell_stores)]
    # all or nothing: when several columns are written one after the other, a value that a later column refuses must be refused
    # before the first column is written - the whole assignment is rehearsed on scratch copies of the target columns
    multi = [m for m in cell_stores if m.loops]
    rehearsal = None
    for e in it.events:
        if e.kind == "call" and e.term[1][0] == "attr" and e.term[1][1][0] == "call" and e.term[1][1][1] == ("name", "Table") \
                and e.seq < min(m.seq for m in cell_stores):
            recv_cols = e.term[1][1][2][0] if e.term[1][1][2] else None
            copies = False
            if recv_cols is not None and recv_cols[0] == "obj":
                evs = [x for x in it.events if x.kind == "elem" and x.term == recv_cols]
                copies = bool(evs) and all(x.value[0] == "call" and x.value[1][0] == "attr" and x.value[1][2] == "copy" and x.value[1][1][0] == "sub"
                                           and x.value[1][1][1] in cols for x in evs)
            real = [x for x in it.events if x.kind == "inline" and x.depth == 0 and x.term[0] == "call" and x.term[1][0] == "name"
                    and x.term[1][1].endswith("." + e.term[1][2])]
            same_args = bool(real) and all(tuple(x.term[2][2:]) == tuple(e.term[2][1:]) for x in real)
            # every store to the table happens inside that helper (after the rehearsal, before the helper's inline event closes)
            inside = bool(real) and all(m.depth >= 1 and e.seq < m.seq < max(x.seq for x in real) for m in cell_stores)
            if copies and same_args and inside:
                rehearsal = e
    ctx.ob("f.table-delegation", f, "all-or-nothing", not multi or rehearsal is not None,
           "several target columns: the assignment is rehearsed on copies of the target columns (same row spec, same value) before the "
           "first column is written", (multi[0].node if multi else f.node),
           message="Table.__setitem__ writes several target columns one after the other without rehearsing the assignment on copies first: "
                   "t[0, :] = [10, 'x'] (second column refuses its value) leaves the first column written - a failed assignment must "
                   "change nothing")
    snap = all(is_value(m.value) or (m.value[0] in ("sub", "elem") and any(is_value(x) for x in subterms(m.value))) for m in cell_stores)
    snapped = any(x[0] == "call" and x[1][0] == "attr" and x[1][2] == "copy" and is_value(x[1][1]) and not x[2]
                  for m in cell_stores for x in deep_subterms(it, m.value))
    # ... for EVERY form the value can arrive in: evaluated by kind (a vector; a list / tuple of columns; a one-shot iterator of
    # columns - reversed([t.a, t.b]), a generator, map), the sequence whose items are written column after column must hold copies
    # of the vectors in it, not the (possibly live) vectors themselves
    def kval(t, K, depth=0):
        if depth > 60:
            return None
        if t == VALUE:
            return ("raw", K)
        if t[0] == "ifexp":
            tr = ktruth(t[1], K, depth + 1)
            if tr is None:
                a_, b_ = kval(t[2], K, depth + 1), kval(t[3], K, depth + 1)
                return a_ if a_ == b_ else None
            return kval(t[2] if tr else t[3], K, depth + 1)
        if t[0] == "call" and t[1][0] == "attr" and t[1][2] == "copy" and not t[2]:
            return "snap" if kval(t[1][1], K, depth + 1) == ("raw", "Vector") else None
        inner = None
        if t[0] == "call" and t[1] in (("name", "list"), ("name", "tuple")) and len(t[2]) == 1 and not t[3]:
            inner = t[2][0]
        elif t[0] == "obj" and it.objs[t[1]].kind == "list" and isinstance(it.objs[t[1]].node, ast.Call) and len(it.objs[t[1]].init) == 1:
            inner = it.objs[t[1]].init[0]
        if inner is not None:
            kv = kval(inner, K, depth + 1)
            if kv == "list-snap":
                return kv
            return "list-shared" if kv is not None and (kv == "list-shared" or kv[0] == "raw") else None
        ia = item_alts(t)
        if ia is not None:
            if True:
                if True:
                    src, x = ia[0], ia[1]
                    kv = kval(src, K, depth + 1)
                    copies = True
                    for v, cs in ia[2]:
                        if v == ("call", ("attr", x, "copy"), (), ()):
                            continue
                        # the item itself: only where it is known not to be a vector
                        if v == x and any((not pol) and c[0] == "call" and c[1] == ("name", "isinstance") and c[2][0] == x
                                          and any(y == ("name", "Vector") for y in subterms(c[2][1])) for c, pol in cs):
                            continue
                        # a one-shot iterator among the items, materialised (it is not a vector)
                        mat = (v[0] == "call" and v[1] in (("name", "list"), ("name", "tuple")) and v[2] == (x,)) or \
                              (v[0] == "obj" and it.objs[v[1]].kind == "list" and isinstance(it.objs[v[1]].node, ast.Call) and it.objs[v[1]].init == (x,))
                        if mat and any(pol and c[0] == "call" and c[1] == ("name", "isinstance") and c[2][0] == x
                                       and any(y == ("name", "Iterator") for y in subterms(c[2][1])) for c, pol in cs):
                            continue
                        copies = False
                    if kv is not None and kv != "snap":
                        return "list-snap" if copies else "list-shared"
        return None

    KINDS = {"Vector": {"Vector", "Iterable", "Sized", "Collection", "Sequence"}, "list": {"list", "Iterable", "Sequence", "Sized", "Collection"},
             "tuple": {"tuple", "Iterable", "Sequence", "Sized", "Collection"}, "Iterator": {"Iterator", "Iterable"},
             "deque": {"deque", "Iterable", "Sequence", "MutableSequence", "Sized", "Collection", "Reversible"},
             "Mapping": {"Mapping", "dict", "Iterable", "Sized", "Collection", "Container"},
             "IntFlag": {"int", "Iterable", "Hashable", "Flag", "IntFlag", "Enum"},
             "Flag": {"Iterable", "Hashable", "Flag", "Enum"}}       # (an int whose class is iterable: enum.Flag since 3.11)

    # the list of target column positions (an object of __setitem__ handed to the writer): its length can be assumed per question
    NT = [None]
    ti_terms = {x.term[2][1] for x in it.events if x.kind == "inline" and x.term[0] == "call" and x.term[1][0] == "name"
                and x.term[1][1].endswith("._write_columns") and len(x.term[2]) >= 2}
    ti_terms |= {("param", "target_indices")}

    def ktruth(c, K, depth=0):
        if NT[0] is not None and c[0] == "cmp" and len(c) == 4 and c[1] in ("Eq", "NotEq", "Gt", "GtE", "Lt", "LtE"):
            for a_, b_, flip_ in ((c[2], c[3], False), (c[3], c[2], True)):
                if a_[0] == "call" and a_[1] == ("name", "len") and len(a_[2]) == 1 and a_[2][0] in ti_terms and b_[0] == "const" \
                        and isinstance(b_[2], int) and not isinstance(b_[2], bool):
                    n_, k_ = (NT[0], b_[2]) if not flip_ else (b_[2], NT[0])
                    return {"Eq": n_ == k_, "NotEq": n_ != k_, "Gt": n_ > k_, "GtE": n_ >= k_, "Lt": n_ < k_, "LtE": n_ <= k_}[c[1]]
        if c[0] == "un" and c[1] == "Not":
            r = ktruth(c[2], K, depth + 1)
            return None if r is None else not r
        if c[0] == "bool":
            rs = [ktruth(x, K, depth + 1) for x in c[2]]
            if c[1] == "and":
                return False if False in rs else (None if None in rs else True)
            return True if True in rs else (None if None in rs else False)
        if c[0] == "call" and c[1] == ("name", "isinstance") and len(c[2]) == 2:
            kv = kval(c[2][0], K, depth + 1)
            if kv is None:
                return None
            mine = KINDS["list"] if kv in ("list-snap", "list-shared") else KINDS["Vector"] if kv == "snap" else KINDS[kv[1]]
            ts = c[2][1]
            items = list(ts[1]) if ts[0] == "tuple" else [ts]
            names = [x[1] for x in items if x[0] == "name"]
            if any(n in mine for n in names):
                return True
            known = {"Vector", "list", "tuple", "Iterator", "Iterable", "Sequence", "str", "bytes", "bytearray", "complex", "Enum", "int", "range", "dict", "Mapping",
                     "float", "complex", "bool", "Sized", "Collection", "set", "frozenset", "Enum", "Flag", "IntFlag"}
            if kv != "snap" and kv != ("raw", "Vector"):
                known |= {"Table", "Row"}
            if len(names) == len(items) and all(n in known for n in names):
                return False
            return None              # (a subclass the kind leaves open: Table, Row, _Int ...)
        return None
    # a list / tuple of target columns: every item becomes a target or is refused - no feasible path through one iteration of the
    # loop over the items reaches the next item without an append to the target list or a raise (an item that is skipped lets the
    # assignment succeed on the other columns: a bad index must fail it)
    from ..cfg import cfg_of as _cfg_of, flag_paths as _flag_paths
    cfgf = _cfg_of(f)
    item_loops = []
    for n_ in ast.walk(f.node):
        if isinstance(n_, ast.For):
            apps = {c.func.value.id for c in ast.walk(n_) if isinstance(c, ast.Call) and isinstance(c.func, ast.Attribute)
                    and c.func.attr == "append" and isinstance(c.func.value, ast.Name)}
            if apps:
                item_loops.append((n_, apps))
    for lp_, apps in item_loops:
        hdr = cfgf.node_of(lp_)

        def is_app(n, apps=apps) -> bool:
            st = n.ast
            return n.kind == "stmt" and isinstance(st, ast.Expr) and isinstance(st.value, ast.Call) \
                and isinstance(st.value.func, ast.Attribute) and st.value.func.attr == "append" \
                and isinstance(st.value.func.value, ast.Name) and st.value.func.value.id in apps
        starts = [(hdr, s_) for s_, lab in hdr.succ if lab == "iter"]
        wit = _flag_paths(cfgf, starts, [hdr], lambda n: is_app(n) or isinstance(n.ast, ast.Raise), ())
        ctx.ob("f.table-delegation", f, f"every-item-a-target:{sorted(apps)[0]}", wit is None,
               f"`for {ast.unparse(lp_.target)} in {ast.unparse(lp_.iter)}`: every path through one iteration appends to {sorted(apps)} or raises", lp_,
               message="Table.__setitem__: an item of a list of target columns can be skipped silently (no branch for an item that is neither a "
                       "name nor a position): t[:, ['a', 1.0]] = 0 overwrites column a and reports success - witness: "
                       + (cfgf.fmt_path(wit) if wit else ""))
    # value forms: a same-length sequence that is not a list - a VECTOR (the natural way to replace a column's cells), a deque, an
    # array - reaches the column's own assignment too: some store of the whole value is feasible for a value of that kind
    def feasible(m, K, ntargets=None):
        NT[0] = ntargets
        try:
            return all(ktruth(c, K) is not (not pol) for c, pol in flatten_conds(m.conds))
        finally:
            NT[0] = None
    refused_kinds = [K for K in ("Vector", "deque") if not any(is_value(m.value) and feasible(m, K, 1) for m in cell_stores)]
    ctx.ob("f.table-delegation", f, "vector-value", not refused_kinds, "one target column accepts a vector, and any other sequence, of values", f.node,
           message=f"Table.__setitem__ hands a value to a single target column only when it is a list or tuple (or one of a few listed "
                   f"types): a {' / '.join(refused_kinds)} of values - `t[:, 'a'] = Vector([...])`, `t[:, 'a'] = deque([...])` - is refused as "
                   f"an unsupported value type although the column's own assignment accepts it")
    # the per-column items of a list / tuple value are read TWICE when several columns are written (rehearsal on scratch copies, then
    # the real pass): an item that is a one-shot iterator must be materialised with the snapshot, or the rehearsal uses it up and the
    # real pass fails half way - after the earlier columns were written
    from ..sites2 import leaves_with_conds as _lwc2
    raw_iter_items = []
    n_snap = 0
    for o_id, o in it.objs.items():
        ia_ = item_alts(("obj", o_id))
        if ia_ is None or not is_value(ia_[0]):
            continue
        x_ = ia_[1]
        if not any(v == ("call", ("attr", x_, "copy"), (), ()) for v, _ in ia_[2]):
            continue                                   # (not the snapshot of the items)
        n_snap += 1
        for v, cs in ia_[2]:
            if v == x_ and not any((not pol) and c[0] == "call" and c[1] == ("name", "isinstance") and c[2][0] == x_
                                   and any(y == ("name", "Iterator") for y in subterms(c[2][1])) for c, pol in cs):
                raw_iter_items.append(ia_[3])
    if rehearsal is not None:
        ctx.ob("f.table-delegation", f, "iterator-items-materialised", n_snap >= 1 and not raw_iter_items,
               "a one-shot iterator among the items of a list / tuple value is materialised with the snapshot (the value is read twice)",
               (raw_iter_items[0].node if raw_iter_items else f.node),
               message="Table.__setitem__ rehearses a several-column assignment and then runs it with the SAME value: a one-shot iterator among "
                       "the items of a list / tuple value is used up by the rehearsal - t[:, ['a', 'b']] = [[10, 20, 30], iter([40, 50, 60])] "
                       "raises after column a was written (a failed assignment must change nothing)")
    # a mapping is refused in every form (iterating it yields its KEYS: t[0] = {'b': 'B', 'a': 'A'} made the row ('b', 'a')); a number
    # is one cell even where its class is iterable (a composite IntFlag member must not be unrolled into a row); and with several
    # target columns any sequence of columns - a deque, dict.values() - is written column by column like a list of them
    map_stores = [m for m in cell_stores if feasible(m, "Mapping")]
    ctx.ob("f.table-delegation", f, "mapping-refused", not map_stores, "no cell store is reachable for a mapping value",
           (map_stores[0].node if map_stores else f.node),
           message=f"Table.__setitem__: a cell store (line {getattr(map_stores[0].node, 'lineno', 0) if map_stores else 0}) is reachable for a "
                   f"mapping value: t[0] = {{'b': 'B', 'a': 'A'}} writes the KEYS into the row, while the same value on a slice or a "
                   f"column is refused")
    unrolled = [m for m in cell_stores if feasible(m, "IntFlag") and not is_value(m.value)]
    whole = [m for m in cell_stores if feasible(m, "IntFlag") and is_value(m.value)]
    ctx.ob("f.table-delegation", f, "number-is-one-cell", bool(whole) and not unrolled,
           "a number whose class is iterable (a composite IntFlag member) is stored as one cell", (unrolled[0].node if unrolled else f.node),
           message="Table.__setitem__ tells a scalar from a row of values by isinstance(value, Iterable) alone: an int whose class is iterable "
                   "(enum.IntFlag since Python 3.11) is unrolled into a row - t[0, 'f'] = t[0, 'f'] raises 'Row assignment length mismatch' "
                   "for an <int> column holding Perm.R | Perm.W")
    ROWP = lambda c: c[0] == "call" and c[1] == ("name", "isinstance") and len(c[2]) == 2 and c[2][1] == ("name", "int") and c[2][0] != VALUE
    deque_multi = [m for m in cell_stores if m.loops and feasible(m, "deque", 2)
                   and not any(pol and ROWP(c) for c, pol in flatten_conds(m.conds))]       # (not the single-row form, which takes any iterable)
    ctx.ob("f.table-delegation", f, "sequence-of-columns", bool(deque_multi),
           "several target columns accept any sequence of columns (a deque, dict.values()), not only list / tuple / generator", f.node,
           message="Table.__setitem__: with several target columns no column-by-column store is reachable for a sequence that is not a list "
                   "or tuple: t[:, ['a', 'b']] = deque([col_a, col_b]) is refused as an unsupported value type while the same columns as a "
                   "list, tuple or generator are accepted")
    shared = []
    for m in cell_stores:
        if not m.loops:
            continue
        for x in subterms(m.value):
            if x[0] in ("sub", "elem") and is_value(x[1]) if len(x) > 2 else False:
                for K in ("list", "tuple", "Iterator", "deque"):
                    NT[0] = 2                  # (stores inside the per-column loop: several target columns)
                    try:
                        if not all(ktruth(c, K) is not (not pol) for c, pol in flatten_conds(m.conds)):
                            continue               # this store is not reached for a value of that kind
                        kv = kval(x[1], K)
                    finally:
                        NT[0] = None
                    if kv == "list-shared" or (kv is not None and kv[0] == "raw"):
                        shared.append((K, m))
    snapped = snapped and not shared
    if shared:
        K_, m_ = shared[0]
        ctx.ob("f.table-delegation", f, "key-value-snapshot", False, "", m_.node,
               message=f"Table.__setitem__: a value given as a {'one-shot iterator' if K_ == 'Iterator' else K_} of columns is written item by item "
                       f"without its vectors being copied first: t[:, ['a', 'b']] = "
                       f"{'reversed([t.a, t.b])' if K_ == 'Iterator' else ('deque([t.b, t.a])' if K_ == 'deque' else '[t.b, t.a]')} sets both "
                       f"columns to the old b (what is written first changes what is read next)")
    else:
        ctx.ob("f.table-delegation", f, "key-value-snapshot", snap and snapped,
               "a Vector key / value (possibly a live column of this table) is copied before the first column is written", f.node,
               message="Table.__setitem__ reads its key / value while writing column after column: t[:, ['a', 'b']] = [t.b, t.a] sets both "
                       "columns to b (the value is not snapshotted with .copy() before the first write)")
    # (when the stores live in a private helper evaluated in line, it is the helper that must not run off its end)
    falls = it.falls_through
    if min(m.depth for m in cell_stores) >= 1:
        # the helper evaluated in line directly from __setitem__ that contains the stores: its inline event closes after the last store
        last = max(m.seq for m in cell_stores)
        inl = sorted((x for x in it.events if x.kind == "inline" and x.depth == 0 and x.term[0] == "call" and x.term[1][0] == "name"
                      and x.seq > last and x.term[1][1] in prog.functions), key=lambda x: x.seq)
        if inl:
            from ..symx import Interp as _SI2
            helper = prog.functions[inl[0].term[1][1]]
            falls = _SI2(prog, helper).falls_through
            if falls:
                # running off the end AFTER the cells were written is a return like any other: what must not happen is a path from the
                # entry to the end that passes no cell store, no raise and no return (an unsupported value silently ignored)
                hcfg = _cfg_of(helper)

                def ends_path(n) -> bool:
                    a_ = n.ast
                    if isinstance(a_, (ast.Raise, ast.Return)):
                        return True
                    if isinstance(a_, ast.Assign) and n.kind == "stmt":
                        return any(isinstance(t_, ast.Subscript) for t_ in a_.targets)
                    if isinstance(a_, (ast.For, ast.While)):
                        return any(isinstance(x, ast.Assign) and any(isinstance(t_, ast.Subscript) for t_ in x.targets) for x in ast.walk(a_))
                    return False
                starts_ = [(hcfg.entry, s_) for s_, _lab in hcfg.entry.succ]
                falls = _flag_paths(hcfg, starts_, [hcfg.exit], ends_path, ()) is not None
    ctx.ob("f.table-delegation", f, "final-raise", bool(fin) and not falls,
           "unsupported value types raise SerifTypeError", f.node, message="Table.__setitem__ does not end by raising for unsupported values")


def _one_cell(ctx) -> None:
    """Sibling agreement of every `one cell or a sequence of cells?` test (serifscan/onecell.py): each exempts text, numbers and enum
    members - since Python 3.11 an enum.Flag member iterates over its bits, so an unexempted test adds / stores the bits pairwise."""
    from ..onecell import REQUIRED, sites
    ss = sites(ctx.prog)
    bad = [s_ for s_ in ss if not s_[3]]
    f = ctx.prog.func("vector.Vector._elementwise_operation")
    ctx.ob("c.key-forms", f, "one-cell-exemptions", len(ss) >= 3 and not bad,
           f"{len(ss)} scalar-or-sequence tests, each exempting {sorted(REQUIRED)}", f.node,
           message="; ".join(f"{q} (line {ln}) exempts only {sorted(names)} from its Iterable test: a number or enum member whose class is "
                             f"iterable (enum.IntFlag: Perm.R | Perm.W) is taken for a sequence of its bits there" for q, ln, names, _ok in bad[:3]))

    # column assignment by attribute (t.a = value replaces the column): the value is a SEQUENCE of cells - a string, a number or a
    # mapping is one value and must not be unrolled into a column (`Vector('xy')` iterates the characters).  Evaluated by kind of the
    # value: no replacement of the column is reachable for a str / Mapping / IntFlag value
    from ..sites2 import interp_of as _iof
    from ..symx import flatten_conds as _fc, subterms as _st
    from ..tv import tv as _tv
    sa = ctx.prog.func("table.Table.__setattr__")
    si = _iof(ctx.prog, sa)
    SV = ("param", sa.params[2])
    SS = ("param", sa.params[0])
    KN = {"str": ({"str", "Iterable", "Sequence", "Sized", "Collection"}, {"Vector", "Table", "Row", "list", "tuple", "bytes", "bytearray", "int",
                                                                            "float", "complex", "Enum", "Mapping", "dict", "Iterator"}),
          "Mapping": ({"Mapping", "Iterable", "Sized", "Collection"}, {"Vector", "Table", "Row", "list", "tuple", "str", "bytes", "bytearray", "int",
                                                                        "float", "complex", "Enum", "Iterator", "Sequence"}),
          "IntFlag": ({"int", "Iterable", "Enum", "Flag", "IntFlag"}, {"Vector", "Table", "Row", "list", "tuple", "str", "bytes", "bytearray", "float",
                                                                       "complex", "Mapping", "dict", "Iterator", "Sequence", "Sized"})}

    def feasible_for(e, kind):
        yes, no = KN[kind]

        def atom(x):
            if x[0] == "call" and x[1] == ("name", "isinstance") and len(x[2]) == 2 and x[2][0] == SV:
                names = {y[1] for y in _st(x[2][1]) if y[0] == "name"}
                if names & yes:
                    return True
                return False if names and names <= no else None
            return None
        return not any(_tv(c, atom) is (not pol) for c, pol in _fc(e.conds))
    repl = [e for e in si.events if (e.kind == "call" and e.term[1] == ("attr", SS, "_replace_column"))
            or (e.kind == "call" and e.term[1] == ("attr", ("name", "object"), "__setattr__") and len(e.term[2]) >= 2
                and e.term[2][1] == ("const", "str", "_underlying"))
            or (e.kind == "store" and e.term == ("attr", SS, "_underlying"))]
    unrolled = sorted({k for k in KN for e in repl if feasible_for(e, k)})
    ctx.ob("c.key-forms", sa, "attribute-column-value", bool(repl) and not unrolled,
           f"{len(repl)} column replacement(s) in Table.__setattr__, none reachable for a string / number / mapping value", sa.node,
           message=f"Table.__setattr__ replaces a column by `Vector(value)` of a {' / '.join(unrolled)} value: t.a = 'xy' on a two-row table "
                   f"stores the characters ['x', 'y'] (a mapping its keys) - a string, a number or a mapping is ONE value, as in "
                   f"t[:, 'a'] = 'xy' and t >> {{'a': 'xy'}}")


_V, _T = "vector", "table"
MUTANTS = [
    dict(id="attribute-column-from-a-string", module="table", count=2, nth=1,
         old="					if not isinstance(value, Iterable) or isinstance(value, (str, bytes, bytearray, int, float, complex, Enum, Mapping)):\n						raise SerifTypeError(f\"Cannot assign column '{attr}': expected",
         new="					if False:\n						raise SerifTypeError(f\"Cannot assign column '{attr}': expected", rules=["c.key-forms"], desc="reverts fix 83a5df7 (plain accessor branch)"),
    dict(id="flag-value-stored-bit-by-bit", module="vector", old="			and not isinstance(value, (str, bytes, bytearray, int, float, complex, Enum))\n		)",
         new="			and not isinstance(value, (str, bytes, bytearray))\n		)", rules=["c.key-forms"], desc="reverts fix 46d03df in Vector.__setitem__"),
    dict(id="iterator-items-used-up-by-the-rehearsal", module="table",
         old="			value = [v.copy() if isinstance(v, Vector) else (list(v) if isinstance(v, Iterator) else v) for v in value]",
         new="			value = [v.copy() if isinstance(v, Vector) else v for v in value]", rules=["f.table-delegation"], desc="reverts fix 49afb45"),
    dict(id="row-from-a-mapping", module="table", old="		if isinstance(value, Mapping):\n			raise SerifTypeError(f\"Unsupported assignment value type: {type(value)}\")\n\n", new="",
         rules=["f.table-delegation"], desc="reverts fix d53abfc"),
    dict(id="intflag-cell-unrolled", module="table", old="isinstance(value, (str, bytes, bytearray, int, float, complex, Enum)):\n			for col_idx in target_indices:",
         new="isinstance(value, (str, bytes, bytearray)):\n			for col_idx in target_indices:", rules=["f.table-delegation"], desc="reverts fix 02e6bcc"),
    dict(id="deque-of-columns-refused", module="table", old="		elif len(target_indices) > 1 and isinstance(value, Iterable) \\\n", new="		elif False and isinstance(value, Iterable) \\\n",
         rules=["f.table-delegation"], desc="reverts fix e579789"),
    dict(id="iterator-value-has-no-len", module="vector", old="		if isinstance(value, Iterator):\n			value = list(value)\n\n		# Is the incoming value iterable?",
         new="		# Is the incoming value iterable?", rules=["c.key-forms"], desc="reverts fix 0571bca"),
    dict(id="invalid-target-item-skipped", module="table",
         old="				else:\n					# (not skipped: the assignment would silently succeed on the other columns)\n					raise SerifTypeError(f\"Invalid column index type: {type(c)}\")\n",
         new="", rules=["f.table-delegation"], desc="reverts fix a545ea3"),
    dict(id="empty-index-list-taken-for-mask", module="vector", count=2, nth=1,
         old="		if (isinstance(key, list) or (isinstance(key, Vector) and key.schema() is None)) and len(key) == 0:",
         new="		if isinstance(key, Vector) and key.schema() is None and len(key) == 0:", rules=["c.key-forms"], desc="reverts fix a2b9f72 (setitem)"),
    dict(id="iterator-value-not-snapshotted", module="table",
         old="		if isinstance(value, Iterator):\n			value = list(value)\n		elif len(target_indices) > 1 and isinstance(value, Iterable) \\\n				and not isinstance(value, (Vector, list, tuple, str, bytes, bytearray, Mapping, int, float, complex, Enum)):\n			# (several target columns: any other sequence - a deque, dict.values() - is the list of\n			# its items, one per column, like a list, a tuple or a generator of them)\n			value = list(value)\n		if isinstance(value, Vector):\n			value = value.copy()\n		elif isinstance(value, (list, tuple)):\n			# (a one-shot iterator among the items is materialised too: the rehearsal below would use it up)\n			value = [v.copy() if isinstance(v, Vector) else (list(v) if isinstance(v, Iterator) else v) for v in value]\n",
         new="		if isinstance(value, Vector):\n			value = value.copy()\n		elif isinstance(value, (list, tuple)):\n			# (a one-shot iterator among the items is materialised too: the rehearsal below would use it up)\n			value = [v.copy() if isinstance(v, Vector) else (list(v) if isinstance(v, Iterator) else v) for v in value]\n		if isinstance(value, Iterator):\n			value = list(value)\n		elif len(target_indices) > 1 and isinstance(value, Iterable) \\\n				and not isinstance(value, (Vector, list, tuple, str, bytes, bytearray, Mapping, int, float, complex, Enum)):\n			# (several target columns: any other sequence - a deque, dict.values() - is the list of\n			# its items, one per column, like a list, a tuple or a generator of them)\n			value = list(value)\n",
         rules=["f.table-delegation"], desc="reverts fix 79c529c"),
    dict(id="setitem-no-untyped-empty-key", module="vector",
         old="		if (isinstance(key, list) or (isinstance(key, Vector) and key.schema() is None)) and len(key) == 0:\n			key = ()\n",
         new="		if isinstance(key, list) and len(key) == 0:\n			key = ()\n", rules=["c.key-forms"],
         desc="reverts fix a9219f6"),
    dict(id="row-setitem-inherited", module="table", old="	def __setitem__(self, key, value):\n		# A Row is a read-only snapshot",
         new="	def _unused_setitem(self, key, value):\n		# A Row is a read-only snapshot", rules=["c.key-forms"], desc="reverts fix 63aaa1a"),
    dict(id="table-setitem-no-rehearsal", module="table",
         old="		if len(target_indices) > 1:\n			with warnings.catch_warnings():\n				warnings.simplefilter(\"ignore\")\n				scratch = Table([self._underlying[col_idx].copy() for col_idx in target_indices])\n				scratch._write_columns(list(range(len(target_indices))), row_spec, value)\n",
         new="", rules=["f.table-delegation"], desc="reverts fix 07c3d22: t[0, :] = [10, 'x'] leaves the first column written"),
    dict(id="table-setitem-rehearses-other-value", module="table",
         old="				scratch._write_columns(list(range(len(target_indices))), row_spec, value)",
         new="				scratch._write_columns(list(range(len(target_indices))), row_spec, None)", rules=["f.table-delegation"],
         desc="the rehearsal does not try the value that is written"),
    dict(id="table-setitem-no-snapshot", module="table",
         old="		if isinstance(value, Vector):\n			value = value.copy()\n		elif isinstance(value, (list, tuple)):\n			# (a one-shot iterator among the items is materialised too: the rehearsal below would use it up)\n			value = [v.copy() if isinstance(v, Vector) else (list(v) if isinstance(v, Iterator) else v) for v in value]\n",
         new="", rules=["f.table-delegation"],
         desc="reverts fix 2bfa5e1: t[:, ['a', 'b']] = [t.b, t.a] sets both columns to b"),
    dict(id="column-assignment-refuses-deques", module="table", old="		if len(target_indices) == 1 and not isinstance(value, (list, tuple, Mapping)):",
         new="		if len(target_indices) == 1 and isinstance(value, (Vector, range)):", rules=["f.table-delegation"], desc="reverts fix d2e5e29"),
    dict(id="column-assignment-refuses-vectors", module="table",
         old="		if len(target_indices) == 1 and not isinstance(value, (list, tuple, Mapping)):\n			self._underlying[target_indices[0]][row_spec] = value\n			return\n",
         new="", rules=["f.table-delegation"], desc="the defect repaired by fix 23cf839"),
    dict(id="table-setitem-name-via-map-only", module="table",
         old="			idx = self._stored_name_index(col_spec)\n			if idx is None:\n				column_map = self._current_column_map()\n				idx = column_map.get(col_spec) or column_map.get(col_spec.lower())",
         new="			column_map = self._current_column_map()\n			idx = column_map.get(col_spec) or column_map.get(col_spec.lower())",
         rules=["f.table-delegation"], desc="the defect repaired by fix 63e9640"),
    dict(id="slice-length-unclamped", module="typeutils",
         old="    return max(0, (stop - start + (step - (1 if step > 0 else -1))) // step)",
         new="    return (stop - start + (step - (1 if step > 0 else -1))) // step", rules=["g.slice-length"],
         desc="v[3:1] = [] then sees a negative length; v[3:1] = [x] is compared against -1"),
    dict(id="slice-length-abs", module="typeutils",
         old="    return max(0, (stop - start + (step - (1 if step > 0 else -1))) // step)",
         new="    return abs((stop - start + (step - (1 if step > 0 else -1))) // step)", rules=["g.slice-length"]),
    dict(id="twin-slice-length-range", module="typeutils", twin=True,
         old="    start, stop, step = s.indices(sequence_length)\n    return max(0, (stop - start + (step - (1 if step > 0 else -1))) // step)",
         new="    return len(range(*s.indices(sequence_length)))"),
    dict(id="table-setitem-stale-map", module="table",
         old="			if idx is None:\n				column_map = self._current_column_map()\n				idx = column_map.get(col_spec) or",
         new="			if idx is None:\n				column_map = self._column_map\n				idx = column_map.get(col_spec) or", rules=["h.fresh-map"]),
    dict(id="promote-before-index-checks", module=_V,
         old="		n = len(self)\n		underlying = self._underlying  # local bind",
         new="		n = len(self)\n		if isinstance(value, float) and self._dtype is not None and self._dtype.kind is int:\n			self._promote(float)\n		underlying = self._underlying  # local bind",
         rules=["a.validate-then-mutate"]),
    dict(id="setitem-clears-name", module=_V, old="		self._underlying = new_tuple\n		self._invalidate_fp()",
         new="		self._underlying = new_tuple\n		self._name = None\n		self._invalidate_fp()", rules=["d.untouched"]),
    dict(id="rename-applies-in-simulation", module=_T,
         old="			simulated[idx] = new  # simulate rename\n", new="			simulated[idx] = new  # simulate rename\n			self._underlying[idx]._name = new\n",
         rules=["b.rename-atomic"]),
    dict(id="rename-no-simulation", module=_T,
         old="		for old, new in zip(old_names, new_names):\n			try:\n				idx = simulated.index(old)\n			except ValueError:\n				raise _missing_col_error(old)\n			simulated[idx] = new  # simulate rename\n",
         new="		for old in old_names:\n			if old not in simulated:\n				raise _missing_col_error(old)\n", rules=["b.rename-atomic"]),
    dict(id="index-list-no-range-check", module=_V, count=4, nth=2,
         old="					if not (0 <= idx < n):\n						raise SerifIndexError(f\"Index {idx} out of range.\")\n", new="", rules=["c.key-forms"]),
    dict(id="final-else-returns", module=_V,
         old="		else:\n			raise SerifTypeError(\n				f\"Invalid key type: {type(key)}. Must be boolean mask, slice, int, \"\n				\"integer vector, or list/tuple of ints.\"\n			)",
         new="		else:\n			return", rules=["c.key-forms"]),
    dict(id="invalidate-then-validate-length", module=_V,
         old="		new_tuple = tuple(data_list)\n		old_id = id(underlying)",
         new="		new_tuple = tuple(data_list)\n		if len(new_tuple) != n:\n			raise SerifValueError('length changed')\n		old_id = id(underlying)",
         rules=["a.validate-then-mutate"], desc="a raise after the promotion/dtype write"),
    dict(id="table-setitem-direct-storage", module=_T,
         old="			for col_idx in target_indices:\n				self._underlying[col_idx][row_spec] = value\n			return",
         new="			for col_idx in target_indices:\n				cols = list(self._underlying)\n				cols[col_idx] = Vector([value] * self._length)\n			return",
         rules=["f.table-delegation"]),
    dict(id="validation-loop-breaks", module=_V,
         old="					target = DataType(required_dtype.kind, nullable=target.nullable)\n",
         new="					target = DataType(required_dtype.kind, nullable=target.nullable)\n					break\n", rules=["e.accept-widen-reject"]),
    dict(id="twin-rename-updates", module=_V, twin=True, edits=[(_V, "updates", "pending", 6)]),
]

"""Rule bodies shared by C06.c, C12, C13 and C18.g (group aggregators, partition, expansion, naming).

All rules are stated over the semantic GroupModel (groupsx.py) read off the symx event log: they do not depend on the
statement shapes, helper functions or local names of Table.aggregate / Table.window."""
from __future__ import annotations

import ast
from typing import Dict, List, Optional, Tuple

from ..aggfacts import SPEC, compare_with_spec, facts_of
from ..core import AnalysisError, FuncInfo, attr_chain, cshort, kwarg, short, walk_no_nested, walk_stmts
from ..groupsx import BUILTINS, GroupModel, Output
from ..symx import NONE, callee, const, elements, show, show_conds, subterms
from .joinrules import _canon, determinism_of_function


def vector_reduction_facts(prog, name: str) -> dict:
    """Facts of Vector.<name> read from the NORMAL FORM of its scalar (1-D) result: helpers inlined, locals propagated, the
    per-column recursion of tables left out."""
    from ..symx import Interp as SInterp
    from ..symx import normalised_function, subterms
    f = prog.func(f"vector.Vector.{name}")
    it = SInterp(prog, f)
    rets = [e for e in it.events if e.kind == "return" and e.depth == 0]

    def is_table_recursion(t) -> bool:
        for x in subterms(t):
            if x[0] == "call" and x[1][0] == "attr" and x[1][2] in ("copy", "cols") or (x[0] == "attr" and x[2] == "T"):
                return True
            if x[0] == "call" and x[1] in (("name", "Vector"), ("name", "Table")):
                return True
        return False
    from ..symx import flatten_conds

    def table_branch(e) -> bool:
        """the return is taken only for a 2-D receiver (`self.ndims() == 2`): the per-column recursion, whatever helper does it"""
        for t, pol in flatten_conds(e.conds):
            if pol and t[0] == "cmp" and t[1] == "Eq" and ("const", "int", 2) in (t[2], t[3]) \
                    and any(x[0] == "call" and x[1][0] == "attr" and x[1][2] == "ndims" for x in subterms(t)):
                return True
        return False
    scalar = [e for e in rets if not is_table_recursion(e.term) and not table_branch(e)]
    fn = normalised_function(it, scalar, name)
    return facts_of(fn, "self._underlying")


def fmt(facts: dict) -> str:
    return ", ".join(f"{k}={facts.get(k)!r}" for k in ("kind", "filter", "empty", "min_count", "divisor") + (("square",) if "square" in facts else ()))


def _one(gm: GroupModel, name: str) -> Tuple[Optional[Output], List[str]]:
    outs = gm.builtin_outputs().get(f"{name}_over", [])
    if not outs:
        return None, []
    if len(outs) > 1:
        return outs[0], [f"{len(outs)} output columns are produced per {name}_over column"]
    return outs[0], []


def aggregator_table(ctx, gm: GroupModel, rule: str) -> None:
    """Each built-in aggregator: wiring param <-> loop <-> function facts <-> suffix, facts == spec."""
    for name in BUILTINS:
        p = f"{name}_over"
        o, problems = _one(gm, name)
        if o is None:
            ctx.ob(rule, gm.f, f"{name}", False, "", gm.f.node,
                   message=f"{gm.which}: no output column is produced for `{p}` - the {name} aggregate is not computed")
            continue
        problems = problems + list(o.problems)
        nf = gm.name_kernel_facts(o)
        suffix = nf[4] if nf else None
        if not o.problems:
            if suffix != name:
                problems.append(f"the {p} output is labelled '{suffix}', must be '{name}'")
            if not o.facts:
                problems.append("aggregator function not found: " + "; ".join(o.flow_problems[:1]))
            else:
                problems += [f"{name}: {x}" for x in compare_with_spec(name, o.facts)]
                if o.facts.get("kind") == "?":
                    problems.append(f"aggregator not recognised: `{o.facts.get('detail')}`")
            if not o.length_guard:
                problems.append(f"no `len(col) != nrows` guard before a column of `{p}` is aggregated")
            if o.extra:
                problems.append(f"the {name} output is produced only under `{show_conds(o.extra, gm.it)[:70]}`")
        ctx.ob(rule, gm.f, f"{name}", not problems, f"{gm.which}.{p}: {fmt(o.facts)}, suffix '{suffix}'", o.node,
               message=f"{gm.which}({p}=...): " + "; ".join(problems))
    extra = set(gm.builtin_outputs()) - {f"{n}_over" for n in BUILTINS}
    if extra:
        ctx.info(f"{gm.which}: additional aggregator outputs {sorted(extra)} are not covered by the statement")
    unknown = [o for o in gm.outputs if o.kind == "?"]
    for i, o in enumerate(unknown):
        ctx.ob(rule, gm.f, f"unclassified-output-{i}", False, "", o.node,
               message=f"{gm.which}: a result column is neither a key column, a built-in aggregate of one parameter nor an apply entry: "
                       + "; ".join(o.problems))


def outputs(ctx, gm: GroupModel, rule: str) -> None:
    """window: every aggregate output is its own column's group values expanded to the rows, named after its own column."""
    for p, outs in gm.builtin_outputs().items():
        o = outs[0]
        problems = list(o.problems) + list(o.flow_problems)
        nf = gm.name_kernel_facts(o)
        if nf is not None and not (nf[0] and nf[1]):
            problems.append("the output is not named after its own column")
        if o.uniq is None:
            problems.append("the output name does not pass through uniquify")
        ctx.ob(rule, gm.f, p, not problems, f"{p}: output = group values of its own column expanded to the rows", o.node,
               message=f"{gm.which}({p}=...): " + "; ".join(problems))


def siblings(ctx, agg: GroupModel, win: GroupModel, rule: str, with_vector: bool = True) -> None:
    for name in BUILTINS:
        a, _ = _one(agg, name)
        w, _ = _one(win, name)
        if a is None or w is None:
            continue
        fa = {k: v for k, v in a.facts.items() if k != "detail"}
        fw = {k: v for k, v in w.facts.items() if k != "detail"}
        ctx.ob(rule, win.f, f"window~aggregate:{name}", fa == fw and fa.get("kind") not in ("?", None),
               f"{name}: window and aggregate aggregators are fact-equal ({fmt(fa)})", w.node,
               message=f"window's {name} aggregator differs from aggregate's: aggregate {fmt(fa)} vs window {fmt(fw)}"
                       + (f" [window: `{w.facts.get('detail')}`]" if fw.get("kind") == "?" else "")
                       + (f" [aggregate: `{a.facts.get('detail')}`]" if fa.get("kind") == "?" else "")
                       + " - rows of a group would not receive the value aggregate computes")
        if with_vector and name != "count":
            fv = vector_reduction_facts(ctx.prog, name)
            fvc = {k: v for k, v in fv.items() if k != "detail"}
            cmp_a = dict(fa)
            if name == "stdev" and fvc.get("divisor") == "n-1+population":
                fvc["divisor"] = "n-1"
            ctx.ob(rule, ctx.prog.func(f"vector.Vector.{name}"), f"vector~aggregate:{name}", fvc == cmp_a,
                   f"Vector.{name} agrees with the {name} aggregator", ctx.prog.func(f"vector.Vector.{name}").node,
                   message=f"Vector.{name}() differs from aggregate's {name}: Vector {fmt(fv)} vs aggregate {fmt(fa)}"
                           + (f" [`{fv.get('detail')}`]" if fv.get("kind") == "?" else ""))


def group_value_flow(ctx, gm: GroupModel, rule: str) -> None:
    """Each aggregate sees its group's values, unfiltered, in row order, exactly once per group, and ITS result is the
    group's value (no path around the aggregate function)."""
    if gm.partition_error:
        raise AnalysisError(gm.partition_error)
    problems = []
    node = gm.f.node
    n = 0
    for p, outs in gm.builtin_outputs().items():
        for o in outs:
            n += 1
            for x in o.flow_problems:
                problems.append(f"{p}: {x}")
                node = o.node
    if n == 0:
        problems.append("no built-in aggregate output found")
    role = "aggregate_col" if gm.which == "aggregate" else "compute_group_values"
    seen = set()
    problems = [x for x in problems if not (x in seen or seen.add(x))]
    ctx.ob(rule, gm.f, role, not problems, f"{gm.which}: per group: gather rows in order -> fn(vals) once -> the group's value ({n} outputs)",
           node, message=f"{gm.which}: " + "; ".join(problems[:4]))


def apply_block(ctx, gm: GroupModel, rule: str) -> None:
    outs = gm.apply_outputs()
    if not outs:
        ctx.ob(rule, gm.f, "apply", False, "", gm.f.node, message=f"{gm.which}: no output column is produced for apply entries")
        return
    problems = []
    if gm.partition_error:
        raise AnalysisError(gm.partition_error)
    if len(outs) != 1:
        problems.append(f"{len(outs)} output columns per apply entry")
    o = outs[0]
    it = gm.it
    problems += o.problems + o.flow_problems
    if not o.length_guard:
        problems.append("no length guard on the apply column")
    if o.extra:
        problems.append(f"apply outputs are produced only under `{show_conds(o.extra, it)[:60]}`")
    if o.name_base != ("key", ("param", "apply"), o.loop):
        problems.append(f"apply output is named `{gm.sh(o.name, 50)}`, expected uniquify(<the entry's name>)")
    ctx.ob(rule, gm.f, "apply", not problems, f"{gm.which}: apply receives each group's values (None included, row order) once", o.node,
           message=f"{gm.which}(apply=...): " + "; ".join(problems))


def single_exit(ctx, gm: GroupModel, rule: str) -> None:
    """aggregate / window have exactly one return: the table of all result columns (no special case for empty input)."""
    extra = [e for e in gm.returns if e is not gm.final]
    ok = not extra
    ctx.ob(rule, gm.f, "single-exit", ok, f"{gm.which}: the only return is Table(<all result columns>)", extra[0].node if extra else gm.f.node,
           message=f"{gm.which}: " + (f"`return {gm.sh(extra[0].term, 50)}` (line {extra[0].node.lineno}) returns early: key columns / aggregate "
                                      f"columns are not produced for that input (e.g. a zero-row table must still give the key and "
                                      f"aggregate columns)" if extra else ""))


def key_columns(ctx, gm: GroupModel, rule: str) -> None:
    f, it = gm.f, gm.it
    problems = []
    if gm.partition_error and gm.which == "aggregate":
        raise AnalysisError(gm.partition_error)
    keys = gm.key_outputs()
    node = f.node
    if len(keys) != 1:
        problems.append(f"expected one key output column per key, found {len(keys)} per key")
    else:
        o = keys[0]
        node = o.node
        problems += o.problems
        if gm.outputs.index(o) != 0:
            problems.append("key columns are appended after an aggregate column")
        if o.extra:
            problems.append(f"key columns are produced only under `{show_conds(o.extra, it)[:60]}`")
        col = o.col
        OVER = gm.over_list()
        lp = it.loops[o.loop]
        src = lp.domain if (lp.domain is not None and lp.domain[0] != "tuple") else lp.iter
        if OVER is None or src != OVER:
            problems.append("key columns are not produced by one pass over the resolved key columns")
        data = o.data
        if gm.which == "aggregate":
            ok = False
            if data is not None and data[0] == "obj":
                evs = elements(it, data)
                if len(evs) == 1 and not it.objs[data[1]].init:
                    e = evs[0]
                    lps = [x for x in e.loops if x not in o.ev.loops]
                    v = e.value if e.kind == "elem" else (e.term[2][0] if e.term[2] else None)
                    if len(lps) == 1 and gm.group_loop(lps[0]) and v is not None and v[0] == "sub" and v[1] in gm.group_key(lps[0]) \
                            and v[2] == ("idx", o.loop) and not e.conds[len(o.ev.conds):]:
                        ok = True
            if not ok:
                problems.append(f"key column k holds `{gm.sh(data, 70)}`, expected [key[k] for key, _ in groups] (one value per group, in "
                                f"group order)")
        else:
            okd = False
            if data is not None:
                d = data
                if d[0] == "obj" and it.objs[d[1]].kind == "list" and isinstance(it.objs[d[1]].node, ast.Call) and len(it.objs[d[1]].init) == 1:
                    d = it.objs[d[1]].init[0]
                elif d[0] == "call" and d[1] in (("name", "list"), ("name", "tuple")) and len(d[2]) == 1:
                    d = d[2][0]
                okd = d in (col, ("attr", col, "_underlying"))
            if not okd:
                problems.append(f"key column is `{gm.sh(data, 60)}`, expected the key column unchanged (list(col))")
        # the stored name, 'key' only for an UNNAMED column: evaluated for the three kinds of stored name (None, '', a word)
        N = ("attr", col, "_name")
        got = {case: _name_value(o.name_base, N, case) for case in (None, "", "w")}
        if o.uniq is None or got[None] != "key" or got["w"] != "w" or got[""] not in ("", "key"):
            problems.append(f"key column is named `{gm.sh(o.name, 60)}`, expected uniquify(<stored name>, or 'key' for an unnamed column)")
        elif got[""] == "key":
            problems.append(f"key column is named `{gm.sh(o.name_base, 60)}`: a column whose stored name is '' comes out renamed to 'key' "
                            f"(a falsy test where `is None` is meant)")
        # a key keeps its OWN stored name: the first key of each stored name keeps it as it is, and the names of all keys are in the
        # uniquifier's set before the first synthetic name ('key' for an unnamed key, a numbered repeat) is chosen - made unique left
        # to right, an unnamed key placed before a key named 'key' takes that name and the real column comes back as 'key2'
        from ..symx import flatten_conds as _fc
        keep_ok = False
        if o.name_keep is not None:
            cnd, kept = o.name_keep
            flip = {"Is": "IsNot", "IsNot": "Is", "In": "NotIn", "NotIn": "In", "Eq": "NotEq", "NotEq": "Eq"}
            conj = [c if pol else (("cmp", flip[c[1]]) + tuple(c[2:]) if c[0] == "cmp" and c[1] in flip else ("un", "Not", c))
                    for c, pol in _fc(((cnd, True),))]
            not_none = any(c == ("cmp", "IsNot", N, NONE) for c in conj)
            seen_sets = [c[3] for c in conj if c[0] == "cmp" and c[1] == "NotIn" and c[2] == N and c[3][0] == "obj"
                         and it.objs[c[3][1]].kind == "set" and not it.objs[c[3][1]].init and o.loop not in it.objs[c[3][1]].loops]
            recorded = any(e.kind == "call" and e.term[1][0] == "attr" and e.term[1][2] == "add" and e.term[1][1] in seen_sets
                           and e.term[2] == (N,) and o.loop in e.loops and any(c == (cnd, True) or c[0] == cnd for c in e.conds)
                           for e in it.events)
            keep_ok = kept == N and not_none and bool(seen_sets) and recorded and len(conj) == 2
        reserved = False
        for e in it.events:
            if e.kind == "call" and e.term[1][0] == "attr" and e.term[1][2] == "update" and e.term[1][1][0] == "obj" and e.seq < o.ev.seq \
                    and o.loop not in e.loops and len(e.term[2]) == 1 and e.term[2][0][0] == "obj":
                els = [x for x in it.events if x.kind == "elem" and x.term == e.term[2][0]]
                if len(els) == 1 and els[0].loops and OVER is not None:
                    lp2 = it.loops[els[0].loops[-1]]
                    src2 = lp2.domain if (lp2.domain is not None and lp2.domain[0] != "tuple") else lp2.iter
                    n2 = ("attr", ("elem", lp2.iter, lp2.id), "_name")
                    filt = [c for c, pol in _fc(els[0].conds[len(lp2.conds):])]
                    if src2 == OVER and els[0].value == n2 and all(c in (("cmp", "IsNot", n2, NONE), ("cmp", "Is", n2, NONE)) for c in filt):
                        reserved = True
        if not (keep_ok and reserved):
            problems.append("key names are made unique left to right instead of the keys' own stored names being taken first ("
                            + ("the first key of a stored name does not keep it as it is" if not keep_ok else
                               "the stored names of all keys are not put into the uniquifier's set before the key loop")
                            + "): an unnamed key placed before a key named 'key' takes that name and the real column comes back as 'key2'")
        if gm.which != "aggregate" and getattr(ctx, "prop", "") == "C13":
            from ..symx import kw as _kw
            dt = _kw(o.ev.term, "dtype") if o.ev.term[0] == "call" else None
            vec = o.vec if o.vec is not None and o.vec[0] == "call" else None
            dt = dt if dt is not None else (_kw(vec, "dtype") if vec is not None else None)
            if dt != ("attr", col, "_dtype"):
                problems.append("the key column is rebuilt without its dtype (re-inferred from the same elements: <int?> without a None left "
                                "comes out <int>, an all-None typed key <object?>): 'reproduces the partition key columns unchanged'")
    ctx.ob(rule, f, "key-columns", not problems, f"{gm.which}: key columns first, one per key, named uniquify(name, 'key' if unnamed)"
           + (", dtype kept" if gm.which != "aggregate" and getattr(ctx, "prop", "") == "C13" else ""),
           node, message=f"{gm.which}: " + "; ".join(problems))


_UNKNOWN = object()


def _name_value(t, N, case):
    """value of the name expression t when the stored name N is `case` (None, '' or a non-empty word); _UNKNOWN outside the fragment"""
    if t is None:
        return _UNKNOWN
    if t == N:
        return case
    k = t[0]
    if k == "const":
        return t[2]
    if k == "bool":
        vals = [_name_value(x, N, case) for x in t[2]]
        if any(v is _UNKNOWN for v in vals):
            return _UNKNOWN
        for v in vals[:-1]:
            if (t[1] == "or" and v) or (t[1] == "and" and not v):
                return v
        return vals[-1]
    if k == "un" and t[1] == "Not":
        v = _name_value(t[2], N, case)
        return _UNKNOWN if v is _UNKNOWN else (not v)
    if k == "cmp" and t[1] in ("Is", "IsNot", "Eq", "NotEq"):
        a, b = _name_value(t[2], N, case), _name_value(t[3], N, case)
        if a is _UNKNOWN or b is _UNKNOWN:
            return _UNKNOWN
        if t[1] in ("Is", "IsNot"):
            same = (a is b) or (isinstance(a, str) and isinstance(b, str) and a == b)
            return same if t[1] == "Is" else not same
        return (a == b) if t[1] == "Eq" else (a != b)
    if k == "ifexp":
        c = _name_value(t[1], N, case)
        if c is _UNKNOWN:
            return _UNKNOWN
        return _name_value(t[2] if c else t[3], N, case)
    return _UNKNOWN


def key_length_guards(ctx, gm: GroupModel, rule: str) -> None:
    it = gm.it
    OVER = gm.over_list()
    ok = False
    if OVER is not None:
        for lp in it.loops.values():
            src = lp.domain if (lp.domain is not None and lp.domain[0] != "tuple") else lp.iter
            if src == OVER and not lp.parents and lp.kind == "for":
                if gm.length_guarded(("elem", OVER, lp.id), 10 ** 9, lp.id):
                    first_use = min((e.seq for e in it.events if gm.part_loop is not None and gm.part_loop in e.loops), default=10 ** 9)
                    if gm.length_guarded(("elem", OVER, lp.id), first_use, lp.id):
                        ok = True
    ctx.ob(rule, gm.f, "key-lengths", ok, f"{gm.which}: every key column is length-checked against the table", gm.f.node,
           message=f"{gm.which}: partition keys are not length-checked before the rows are partitioned (a key vector not stored in the "
                   f"table could be shorter)")
    ctx.ob(rule, gm.f, "key-resolution", OVER is not None, f"{gm.which}: keys resolved through _resolve_column", gm.f.node,
           message=f"{gm.which}: partition keys are not resolved through _resolve_column (names -> stored-name lookup)")


def expansion(ctx, gm: GroupModel, rule: str) -> None:
    """window: row i receives the value of the group it was partitioned into, for every row, in row order."""
    problems = []
    node = gm.f.node
    for o in gm.outputs:
        if o.kind in ("builtin", "apply"):
            for x in o.flow_problems:
                if x.startswith(("row values", "the output is not filled", "the output column holds")):
                    problems.append(f"{o.param}: {x}")
                    node = o.node
    seen = set()
    problems = [x for x in problems if not (x in seen or seen.add(x))]
    ctx.ob(rule, gm.f, "expand_to_rows", not problems, "row i receives group_map[row_keys[i]] for every row i in row order", node,
           message="window: " + "; ".join(problems[:3]))


def naming_kernel(ctx, agg: GroupModel, win: GroupModel, rule: str) -> None:
    us = {}
    for gm in (agg, win):
        uniqs = {o.uniq for o in gm.outputs if o.uniq is not None}
        missing = [o for o in gm.outputs if o.uniq is None]
        ok = len(uniqs) == 1 and not missing
        ctx.ob(rule, gm.f, "one-uniquifier", ok, f"{gm.which}: every output name passes through one uniquifier", 
               missing[0].node if missing else gm.f.node,
               message=f"{gm.which}: " + (f"{len(missing)} output name(s) do not pass through the uniquifier" if missing else
                                          f"{len(uniqs)} different uniquifiers are used (names unique only per uniquifier)"))
        if len(uniqs) >= 1:
            c = gm.it.closures[sorted(uniqs)[0][1]]
            us[gm.which] = c
    if "aggregate" in us and "window" in us:
        ua, uw = us["aggregate"], us["window"]
        ca, cw = _canon(ua.node.body), _canon(uw.node.body)
        fw = uw.finfo or win.f
        ctx.ob(rule, fw, "uniquify-siblings", ca == cw, "window.uniquify is alpha-equal to aggregate.uniquify", uw.node,
               message=f"window's uniquify differs from aggregate's:\n--- aggregate\n{ca}\n--- window\n{cw}")
    for gm in (agg, win):
        c = us.get(gm.which)
        if c is None:
            continue
        u = c.finfo
        if u is None:
            raise AnalysisError(f"{gm.which}: the uniquifier closure is not an indexed function")
        problems = uniquify_problems(u)
        ctx.ob(rule, u, "uniquify-shape", not problems, f"{gm.which}.uniquify returns an unused name and records it", u.node,
               message=f"{gm.which}.uniquify: " + "; ".join(problems))
    fa = {n: (agg.name_kernel_facts(_one(agg, n)[0]) if _one(agg, n)[0] is not None else None) for n in BUILTINS}
    fw_ = {n: (win.name_kernel_facts(_one(win, n)[0]) if _one(win, n)[0] is not None else None) for n in BUILTINS}
    good = all(fa[n] == fw_[n] == (True, True, True, True, n) for n in BUILTINS)
    bad = [n for n in BUILTINS if not (fa[n] == fw_[n] == (True, True, True, True, n))]
    ctx.ob(rule, win.f, "agg-name-siblings", good, "output names: f'{sanitise(col._name or \'col\') or \'col\'}_{suffix}' in both", win.f.node,
           message=f"aggregate/window output naming kernel deviates for {bad}: (own-column base, sanitised, fallback 'col', f'{{s}}_{{suffix}}', "
                   f"suffix) aggregate {[fa[n] for n in bad]} vs window {[fw_[n] for n in bad]}")


def uniquify_problems(u) -> List[str]:
    name = u.params[0]
    probs = []
    body = [s for s in u.body if not (isinstance(s, ast.Expr) and isinstance(s.value, ast.Constant))]
    first = body[0] if body else None
    used = None
    if isinstance(first, ast.If) and isinstance(first.test, ast.Compare) and isinstance(first.test.ops[0], ast.NotIn) \
            and short(first.test.left) == name:
        used = short(first.test.comparators[0])
        txt = [short(s) for s in first.body]
        if txt != [f"{used}.add({name})", f"return {name}"]:
            probs.append(f"a free name is handled by {txt}, expected to be recorded and returned")
    else:
        probs.append("does not start with `if name not in used:`")
        return probs
    loops = [s for s in body if isinstance(s, ast.While)]
    if len(loops) != 1 or not (isinstance(loops[0].test, ast.Compare) and isinstance(loops[0].test.ops[0], ast.In)
                               and short(loops[0].test.comparators[0]) == used):
        probs.append("taken names are not probed in a loop `while <candidate> in used`")
    else:
        cand = short(loops[0].test.left)
        rets = [s for s in body if isinstance(s, ast.Return)]
        d = {s.targets[0].id: s.value for s in body if isinstance(s, ast.Assign) and isinstance(s.targets[0], ast.Name)}
        if not rets or short(d.get(short(rets[-1].value), rets[-1].value)) != cand:
            probs.append(f"the returned name is not the probed candidate `{cand}`")
        adds = [short(s) for s in body if isinstance(s, ast.Expr)]
        if not any(a.startswith(f"{used}.add(") for a in adds):
            probs.append("the generated name is not recorded as used")
    return probs



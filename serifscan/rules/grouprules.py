"""Rule bodies shared by C06.c, C12 and C13 (group aggregators, partition, expansion)."""
from __future__ import annotations

import ast
from typing import Dict, List, Optional, Tuple

from ..aggfacts import SPEC, compare_with_spec, facts_of
from ..astutil import Defs
from ..core import AnalysisError, attr_chain, cshort, kwarg, short, walk_no_nested, walk_stmts
from ..grouping import BUILTINS, GroupFacts, vector_reduction_facts
from .joinrules import _canon, determinism_of_function


def fmt(facts: dict) -> str:
    return ", ".join(f"{k}={facts.get(k)!r}" for k in ("kind", "filter", "empty", "min_count", "divisor"))


def aggregator_table(ctx, gf: GroupFacts, rule: str) -> None:
    """Each built-in aggregator: wiring param <-> loop <-> function facts <-> suffix, facts == spec."""
    for name in BUILTINS:
        p = f"{name}_over"
        b = gf.blocks.get(p)
        if b is None:
            ctx.ob(rule, gf.f, f"{name}", False, "", gf.f.node, message=f"{gf.which}: no `if {p}:` block - the {name} aggregate is not computed")
            continue
        problems = list(b.problems)
        if not problems:
            if b.suffix != name:
                problems.append(f"the {p} block labels its output '{b.suffix}', must be '{name}'")
            problems += [f"{name}: {x}" for x in compare_with_spec(name, b.facts)]
            if b.facts.get("kind") == "?":
                problems.append(f"aggregator not recognised: `{b.facts.get('detail')}`")
            if not b.length_guard:
                problems.append(f"no `len(col) != nrows` guard before column `{b.loop_var}` is aggregated")
        ctx.ob(rule, gf.f, f"{name}", not problems, f"{gf.which}.{p}: {fmt(b.facts)}, suffix '{b.suffix}'", b.guard,
               message=f"{gf.which}({p}=...): " + "; ".join(problems))
    extra = set(gf.blocks) - {f"{n}_over" for n in BUILTINS}
    if extra:
        ctx.info(f"{gf.which}: additional aggregator blocks {sorted(extra)} are not covered by the statement")


def siblings(ctx, agg: GroupFacts, win: GroupFacts, rule: str, with_vector: bool = True) -> None:
    for name in BUILTINS:
        a = agg.blocks.get(f"{name}_over")
        w = win.blocks.get(f"{name}_over")
        if a is None or w is None:
            continue
        fa = {k: v for k, v in a.facts.items() if k != "detail"}
        fw = {k: v for k, v in w.facts.items() if k != "detail"}
        ctx.ob(rule, win.f, f"window~aggregate:{name}", fa == fw and fa.get("kind") != "?",
               f"{name}: window and aggregate aggregators are fact-equal ({fmt(fa)})", w.guard,
               message=f"window's {name} aggregator differs from aggregate's: aggregate {fmt(fa)} vs window {fmt(fw)}"
                       + (f" [window: `{w.facts.get('detail')}`]" if fw.get("kind") == "?" else "")
                       + (f" [aggregate: `{a.facts.get('detail')}`]" if fa.get("kind") == "?" else "")
                       + " - rows of a group would not receive the value aggregate computes")
        if with_vector and name != "count":
            fv = vector_reduction_facts(ctx.prog, name)
            fvc = {k: v for k, v in fv.items() if k != "detail"}
            cmp_a = dict(fa)
            if name == "stdev" and fvc.get("divisor") == "n-1+population":
                fvc["divisor"] = "n-1"
            ctx.ob(rule, ctx.prog.func(f"vector.Vector.{name}"), f"vector~aggregate:{name}", fvc == cmp_a,
                   f"Vector.{name} agrees with the {name} aggregator", ctx.prog.func(f"vector.Vector.{name}").node,
                   message=f"Vector.{name}() differs from aggregate's {name}: Vector {fmt(fv)} vs aggregate {fmt(fa)}"
                           + (f" [`{fv.get('detail')}`]" if fv.get("kind") == "?" else ""))


def group_value_flow(ctx, gf: GroupFacts, rule: str) -> None:
    """Each aggregate sees its group's values, unfiltered, in row order, exactly once per group."""
    prog = ctx.prog
    if gf.partition_error:
        raise AnalysisError(gf.partition_error)
    gi = gf.group_items[0] if gf.group_items else "?"
    if gf.which == "aggregate":
        h = gf.helper("aggregate_col")
        if len(h.params) != 3:
            ctx.ob(rule, h, "aggregate_col", False, "", h.node,
                   message=f"aggregate_col takes {h.params}: extra parameters let a group's value bypass the aggregate function")
            return
        col, func, suffix = h.params
        problems = []
        body = [s for s in h.body if not (isinstance(s, ast.Expr) and isinstance(s.value, ast.Constant))]
        d = Defs(h)
        data = [n for n, lst in d.assigns.items() if any(v is not None and short(v) == f"{col}._underlying" for v, _, _ in lst)]
        loops = [s for s in body if isinstance(s, ast.For)]
        if len(loops) != 1 or short(loops[0].iter) != gi or not data:
            problems.append(f"aggregate_col does not iterate `{gi}` over the column's storage")
        else:
            lp = loops[0]
            rows = lp.target.elts[1].id if isinstance(lp.target, ast.Tuple) and len(lp.target.elts) == 2 else None
            texts = [short(s, 200) for s in lp.body]
            gather = f"[{data[0]}[_0] for _0 in {rows}]"
            vals = [s.targets[0].id for s in lp.body if isinstance(s, ast.Assign) and cshort(s.value) == gather]
            calls = [n for n in walk_no_nested(lp) if isinstance(n, ast.Call) and short(n.func) == func]
            if not vals:
                problems.append(f"the group's values are not gathered as `{gather}` (all rows of the group, in row order, None included)")
            elif len(calls) != 1 or short(calls[0].args[0]) != vals[0] or len(calls[0].args) != 1:
                problems.append(f"the aggregate function is not called exactly once per group on the gathered values "
                                f"(`{[short(c) for c in calls]}`)")
            if any(isinstance(s, ast.For) for s in lp.body):
                problems.append("nested loop inside the per-group loop")
            apps = [n for n in walk_no_nested(lp) if isinstance(n, ast.Call) and isinstance(n.func, ast.Attribute) and n.func.attr == "append"]
            if len(apps) != 1:
                problems.append("not exactly one result per group")
            elif len(calls) == 1:
                arg = apps[0].args[0] if len(apps[0].args) == 1 else None
                if isinstance(arg, ast.Name):
                    src = [s.value for s in lp.body if isinstance(s, ast.Assign) and len(s.targets) == 1
                           and isinstance(s.targets[0], ast.Name) and s.targets[0].id == arg.id]
                    arg = src[0] if len(src) == 1 else None
                if arg is not calls[0]:
                    problems.append(f"the value appended for a group (`{short(apps[0], 80)}`) is not the aggregate function's result itself "
                                    f"(a pass-through of the group's own value would leak a None)")
                if any(not isinstance(s, (ast.Assign, ast.Expr)) for s in lp.body):
                    problems.append("the per-group loop body branches: some group can by-pass the aggregate function")
        fin = [n for n in walk_no_nested(h.node) if isinstance(n, ast.Call) and short(n.func) == f"{gf.result_list}.append"]
        if len(fin) != 1 or not (isinstance(fin[0].args[0], ast.Call) and short(fin[0].args[0].func) == "Vector"):
            problems.append("aggregate_col does not append exactly one result column")
        else:
            v = fin[0].args[0]
            nm = kwarg(v, "name")
            nmv = d.resolve(nm) if isinstance(nm, ast.Name) else nm
            if short(nmv) != f"uniquify(make_agg_name({col}, {suffix}))":
                problems.append(f"the output column is named `{short(nmv)}`, expected uniquify(make_agg_name({col}, {suffix}))")
            if kwarg(v, "dtype") is not None:
                problems.append("the output column is given an explicit dtype")
        ctx.ob(rule, h, "aggregate_col", not problems, "per group: gather rows in order -> func(vals) once -> one output value", h.node,
               message="aggregate_col: " + "; ".join(problems))
    else:
        h = gf.helper("compute_group_values")
        if len(h.params) != 2:
            ctx.ob(rule, h, "compute_group_values", False, "", h.node,
                   message=f"compute_group_values takes {h.params}: extra parameters (flags, caches) let a group's value bypass the "
                           f"aggregate function fn(values of the group)")
            return
        col, fn = h.params
        d = Defs(h)
        problems = []
        data = [n for n, lst in d.assigns.items() if any(v is not None and short(v) == f"{col}._underlying" for v, _, _ in lst)]
        loops = [s for s in h.body if isinstance(s, ast.For)]
        rets = [s for s in walk_stmts(h.body) if isinstance(s, ast.Return)]
        if len(loops) != 1 or short(loops[0].iter) != gi or not data or len(rets) != 1:
            problems.append(f"compute_group_values does not iterate `{gi}` over the column's own storage")
        else:
            lp = loops[0]
            key, rows = (lp.target.elts[0].id, lp.target.elts[1].id) if isinstance(lp.target, ast.Tuple) else (None, None)
            gather = f"[{data[0]}[_0] for _0 in {rows}]"
            vals = [s.targets[0].id for s in lp.body if isinstance(s, ast.Assign) and cshort(s.value) == gather]
            outv = short(rets[0].value)
            st = [s for s in lp.body if isinstance(s, ast.Assign) and isinstance(s.targets[0], ast.Subscript)
                  and short(s.targets[0].value) == outv]
            if not vals:
                problems.append(f"the group's values are not gathered as `{gather}`")
            elif not (len(st) == 1 and short(st[0].targets[0].slice) == key and short(st[0].value) == f"{fn}({vals[0]})"):
                problems.append(f"the group value is not stored as out[<group key>] = fn(<gathered values>)")
            if len(lp.body) != 2:
                problems.append("extra statements in the per-group loop (caching / filtering?)")
            init = d.single(outv)
            if not (isinstance(init, ast.Dict) and not init.keys):
                problems.append("the group map does not start empty on every call")
        if len([s for s in h.body if not isinstance(s, (ast.Assign, ast.For, ast.Return))]) > 0:
            problems.append("compute_group_values has extra statements (memo / early return?)")
        ctx.ob(rule, h, "compute_group_values", not problems, "group map: key -> fn(values of the group in row order), fresh per call",
               h.node, message="compute_group_values: " + "; ".join(problems))


def apply_block(ctx, gf: GroupFacts, rule: str) -> None:
    b = gf.apply_block
    if b is None:
        ctx.ob(rule, gf.f, "apply", False, "", gf.f.node, message=f"{gf.which}: apply block not found")
        return
    problems = []
    if gf.partition_error:
        raise AnalysisError(gf.partition_error)
    gi = gf.group_items[0] if gf.group_items else "?"
    loops = [s for s in b.body if isinstance(s, ast.For)]
    if len(loops) != 1 or ".items()" not in short(loops[0].iter):
        problems.append("not a loop over apply.items()")
    else:
        lp = loops[0]
        tg = [n.id for n in ast.walk(lp.target) if isinstance(n, ast.Name)]
        if len(tg) != 3:
            problems.append("loop target is not name, (col, fn)")
        else:
            nm, col, fn = tg
            d_res = [s for s in lp.body if isinstance(s, ast.Assign) and short(s.value) == f"self._resolve_column({col})"]
            if not d_res:
                problems.append("the column is not resolved through _resolve_column")
            else:
                rc = d_res[0].targets[0].id
                if not any(isinstance(s, ast.If) and short(s.test) in (f"len({rc}) != {n}" for n in gf.nrows) for s in lp.body):
                    problems.append("no length guard on the apply column")
                data = [s.targets[0].id for s in lp.body if isinstance(s, ast.Assign) and short(s.value) == f"{rc}._underlying"]
                if not data:
                    problems.append("the apply column's storage is not read")
                else:
                    txt = " ".join(cshort(s) for s in lp.body)
                    gather_call = f"{fn}([{data[0]}[_"
                    inline = gather_call in txt
                    two_step = any(isinstance(s, ast.For) and short(s.iter) == gi for s in lp.body)
                    if not (inline or two_step):
                        problems.append("the user function does not receive the gathered group values")
                    if two_step:
                        il = [s for s in lp.body if isinstance(s, ast.For) and short(s.iter) == gi][0]
                        rows = il.target.elts[1].id
                        g = f"[{data[0]}[_0] for _0 in {rows}]"
                        vals = [s.targets[0].id for s in il.body if isinstance(s, ast.Assign) and cshort(s.value) == g]
                        calls = [n for n in walk_no_nested(il) if isinstance(n, ast.Call) and short(n.func) == fn]
                        if not vals or len(calls) != 1 or short(calls[0].args[0]) != vals[0]:
                            problems.append(f"the user function must be called once per group on `{g}` (None included, row order)")
                    if inline:
                        comps = [n for n in walk_no_nested(lp) if isinstance(n, ast.DictComp)]
                        if not (comps and short(comps[0].generators[0].iter) == gi and not comps[0].generators[0].ifs):
                            problems.append(f"group values for apply are not computed for every entry of `{gi}`")
                # name
                apps = [n for n in walk_no_nested(lp) if isinstance(n, ast.Call) and short(n.func) == f"{gf.result_list}.append"]
                if len(apps) != 1:
                    problems.append("not exactly one output column per apply entry")
                else:
                    v = apps[0].args[0]
                    n_e = kwarg(v, "name") if isinstance(v, ast.Call) else None
                    if n_e is None or short(n_e) != f"uniquify({nm})":
                        problems.append(f"apply output is named `{short(n_e) if n_e is not None else '?'}`, expected uniquify({nm})")
    ctx.ob(rule, gf.f, "apply", not problems, f"{gf.which}: apply receives each group's values (None included, row order) once", b,
           message=f"{gf.which}(apply=...): " + "; ".join(problems))


def single_exit(ctx, gf: GroupFacts, rule: str) -> None:
    """aggregate / window have exactly one return: the table of all result columns (no special case for empty input)."""
    rets = [s for s in walk_stmts(gf.f.body) if isinstance(s, ast.Return)]
    ok = len(rets) == 1 and rets[0] is gf.body[-1] and short(rets[0].value) == f"Table({gf.result_list})"
    extra = [r for r in rets if r is not gf.body[-1]]
    ctx.ob(rule, gf.f, "single-exit", ok, f"{gf.which}: the only return is Table(<all result columns>)", extra[0] if extra else gf.f.node,
           message=f"{gf.which}: " + (f"`{short(extra[0], 60)}` (line {extra[0].lineno}) returns early: key columns / aggregate columns are not "
                                      f"produced for that input (e.g. a zero-row table must still give the key and aggregate columns)"
                                      if extra else "the final return is not Table(<result columns>)"))


def key_columns(ctx, gf: GroupFacts, rule: str) -> None:
    f = gf.f
    over = gf.over
    problems = []
    if gf.partition_error and gf.which == "aggregate":
        raise AnalysisError(gf.partition_error)
    gi = gf.group_items[0] if gf.group_items else "?"
    loops = [s for s in gf.body if isinstance(s, ast.For) and (short(s.iter) in (over, f"enumerate({over})"))
             and any(isinstance(n, ast.Call) and short(n.func) == f"{gf.result_list}.append" for n in walk_no_nested(s))]
    if len(loops) != 1:
        problems.append("key-column loop not found")
    else:
        lp = loops[0]
        # precedes every aggregator block
        pos = gf.body.index(lp)
        firsts = [gf.body.index(b.guard) for b in gf.blocks.values()] + ([gf.body.index(gf.apply_block)] if gf.apply_block is not None else [])
        if firsts and pos > min(firsts):
            problems.append("key columns are appended after an aggregate column")
        app = [n for n in walk_no_nested(lp) if isinstance(n, ast.Call) and short(n.func) == f"{gf.result_list}.append"][0]
        v = app.args[0]
        if gf.which == "aggregate":
            tg = [n.id for n in ast.walk(lp.target) if isinstance(n, ast.Name)]
            idx, col = (tg + ["?", "?"])[:2]
            d = Defs(f)
            dat = v.args[0] if isinstance(v, ast.Call) and v.args else None
            dv = None
            for s in lp.body:
                if isinstance(s, ast.Assign) and isinstance(dat, ast.Name) and short(s.targets[0]) == dat.id:
                    dv = s.value
            if dv is None or cshort(dv) != f"[_0[{idx}] for _0, _1 in {gi}]":
                problems.append(f"key column {idx} holds `{short(dv) if dv is not None else short(dat) if dat is not None else '?'}`, "
                                f"expected [key[{idx}] for key, _ in {gi}] (one value per group, in group order)")
        else:
            col = lp.target.id if isinstance(lp.target, ast.Name) else "?"
            dat = v.args[0] if isinstance(v, ast.Call) and v.args else None
            if dat is None or short(dat) not in (f"list({col})", f"list({col}._underlying)", f"{col}._underlying"):
                problems.append(f"key column is `{short(dat) if dat is not None else '?'}`, expected the key column unchanged (list({col}))")
        nm = kwarg(v, "name") if isinstance(v, ast.Call) else None
        if nm is None or short(nm) != f"uniquify({col}._name or 'key')":
            problems.append(f"key column is named `{short(nm) if nm is not None else '?'}`, expected uniquify({col}._name or 'key')")
    ctx.ob(rule, f, "key-columns", not problems, f"{gf.which}: key columns first, one per key, named uniquify(name or 'key')",
           loops[0] if loops else f.node, message=f"{gf.which}: " + "; ".join(problems))


def key_length_guards(ctx, gf: GroupFacts, rule: str) -> None:
    over = gf.over
    ok = False
    for s in gf.body:
        if isinstance(s, ast.For) and short(s.iter) in (f"enumerate({over})", over):
            for x in s.body:
                if isinstance(x, ast.If) and any(short(x.test) == f"len(col) != {n}" for n in gf.nrows) and any(isinstance(b, ast.Raise) for b in x.body):
                    ok = True
    ctx.ob(rule, gf.f, "key-lengths", ok, f"{gf.which}: every key column is length-checked against the table", gf.f.node,
           message=f"{gf.which}: partition keys are not length-checked (a key vector not stored in the table could be shorter)")
    # keys resolved through _resolve_column
    res = [s for s in gf.body if isinstance(s, ast.Assign) and short(s.targets[0]) == over
           and short(s.value) == f"[self._resolve_column(col) for col in {over}]"]
    ctx.ob(rule, gf.f, "key-resolution", bool(res), f"{gf.which}: keys resolved through _resolve_column", gf.f.node,
           message=f"{gf.which}: partition keys are not resolved through _resolve_column (names -> stored-name lookup)")


def expansion(ctx, gf: GroupFacts, rule: str) -> None:
    h = gf.helper("expand_to_rows")
    gm = h.params[0]
    rets = [s for s in walk_stmts(h.body) if isinstance(s, ast.Return)]
    rk = gf.row_keys[0] if gf.row_keys else "?"
    want = [f"[{gm}[{rk}[_0]] for _0 in range({n})]" for n in gf.nrows]
    ok = len(rets) == 1 and cshort(rets[0].value) in want and len([s for s in h.body if not (isinstance(s, ast.Expr))]) == 1
    ctx.ob(rule, h, "expand_to_rows", ok, f"row i receives group_map[row_keys[i]] for i in range(nrows)", h.node,
           message=f"expand_to_rows returns `{short(rets[0].value) if rets else '?'}`, expected {want[0] if want else '?'}: every row, in row "
                   f"order, gets the value of the group it was partitioned into")


def naming_kernel(ctx, agg: GroupFacts, win: GroupFacts, rule: str) -> None:
    ua, uw = agg.helper("uniquify"), win.helper("uniquify")
    ca, cw = _canon(ua.node.body), _canon(uw.node.body)
    ctx.ob(rule, uw, "uniquify-siblings", ca == cw, "window.uniquify is alpha-equal to aggregate.uniquify", uw.node,
           message=f"window's uniquify differs from aggregate's:\n--- aggregate\n{ca}\n--- window\n{cw}")
    for gf in (agg, win):
        u = gf.helper("uniquify")
        problems = uniquify_problems(u)
        ctx.ob(rule, u, "uniquify-shape", not problems, f"{gf.which}.uniquify returns an unused name and records it", u.node,
               message=f"{gf.which}.uniquify: " + "; ".join(problems))
    ma, sw = agg.helper("make_agg_name"), win.helper("sanitize")
    fa, fw = _name_facts(ma), _name_facts(sw)
    ctx.ob(rule, sw, "agg-name-siblings", fa == fw and fa is not None, f"output names: {fa}", sw.node,
           message=f"window names its outputs differently from aggregate: aggregate {fa} vs window {fw}")


def uniquify_problems(u) -> List[str]:
    name = u.params[0]
    probs = []
    body = [s for s in u.body if not (isinstance(s, ast.Expr) and isinstance(s.value, ast.Constant))]
    first = body[0] if body else None
    used = None
    if isinstance(first, ast.If) and isinstance(first.test, ast.Compare) and isinstance(first.test.ops[0], ast.NotIn) \
            and short(first.test.left) == name:
        used = short(first.test.comparators[0])
        txt = [short(s) for s in first.body]
        if txt != [f"{used}.add({name})", f"return {name}"]:
            probs.append(f"a free name is handled by {txt}, expected to be recorded and returned")
    else:
        probs.append("does not start with `if name not in used:`")
        return probs
    loops = [s for s in body if isinstance(s, ast.While)]
    if len(loops) != 1 or not (isinstance(loops[0].test, ast.Compare) and isinstance(loops[0].test.ops[0], ast.In)
                               and short(loops[0].test.comparators[0]) == used):
        probs.append("taken names are not probed in a loop `while <candidate> in used`")
    else:
        cand = short(loops[0].test.left)
        rets = [s for s in body if isinstance(s, ast.Return)]
        d = {s.targets[0].id: s.value for s in body if isinstance(s, ast.Assign) and isinstance(s.targets[0], ast.Name)}
        if not rets or short(d.get(short(rets[-1].value), rets[-1].value)) != cand:
            probs.append(f"the returned name is not the probed candidate `{cand}`")
        adds = [short(s) for s in body if isinstance(s, ast.Expr)]
        if not any(a.startswith(f"{used}.add(") for a in adds):
            probs.append("the generated name is not recorded as used")
    return probs


def _name_facts(h) -> Optional[tuple]:
    """(base expr, sanitiser, fallback, format) of make_agg_name / sanitize."""
    col, suffix = h.params
    from ..aggfacts import expand, _inline
    body = [s for s in h.body if not (isinstance(s, ast.Expr) and isinstance(s.value, ast.Constant))]
    rets = [s for s in body if isinstance(s, ast.Return)]
    if len(rets) != 1:
        return None
    txt = " | ".join(short(s, 120) for s in body)
    base_ok = f"{col}._name or 'col'" in txt
    san_ok = "_sanitize_user_name(" in txt
    fallback_ok = ("or 'col'" in txt.split("_sanitize_user_name(")[-1]) or ("is None" in txt and "= 'col'" in txt)
    fmt_ok = short(rets[0].value).replace("'", '"') == 'f"{s}_{' + suffix + '}"'.replace("'", '"') or short(rets[0].value) == f"f'{{s}}_{{{suffix}}}'"
    return (base_ok, san_ok, fallback_ok, fmt_ok)

"""Rule bodies shared by C06.c, C12, C13 and C18.g (group aggregators, partition, expansion, naming).

All rules are stated over the semantic GroupModel (groupsx.py) read off the symx event log: they do not depend on the
statement shapes, helper functions or local names of Table.aggregate / Table.window."""
from __future__ import annotations

import ast
from typing import Dict, List, Optional, Tuple

from ..aggfacts import SPEC, compare_with_spec, facts_of
from ..core import AnalysisError, FuncInfo, attr_chain, cshort, kwarg, short, walk_no_nested, walk_stmts
from ..groupsx import BUILTINS, GroupModel, Output
from ..symx import NONE, callee, const, elements, show, show_conds, subterms
from .joinrules import _canon, determinism_of_function


def vector_reduction_facts(prog, name: str) -> dict:
    """Facts of Vector.<name> read from the NORMAL FORM of its scalar (1-D) result: helpers inlined, locals propagated, the
    per-column recursion of tables left out."""
    from ..symx import Interp as SInterp
    from ..symx import normalised_function, subterms
    f = prog.func(f"vector.Vector.{name}")
    it = SInterp(prog, f)
    rets = [e for e in it.events if e.kind == "return" and e.depth == 0]

    def is_table_recursion(t) -> bool:
        for x in subterms(t):
            if x[0] == "call" and x[1][0] == "attr" and x[1][2] in ("copy", "cols") or (x[0] == "attr" and x[2] == "T"):
                return True
            if x[0] == "call" and x[1] in (("name", "Vector"), ("name", "Table")):
                return True
        return False
    from ..symx import flatten_conds

    def table_branch(e) -> bool:
        """the return is taken only for a 2-D receiver (`self.ndims() == 2`): the per-column recursion, whatever helper does it"""
        for t, pol in flatten_conds(e.conds):
            if pol and t[0] == "cmp" and t[1] == "Eq" and ("const", "int", 2) in (t[2], t[3]) \
                    and any(x[0] == "call" and x[1][0] == "attr" and x[1][2] == "ndims" for x in subterms(t)):
                return True
        return False
    scalar = [e for e in rets if not is_table_recursion(e.term) and not table_branch(e)]
    fn = normalised_function(it, scalar, name)
    return facts_of(fn, "self._underlying")


def fmt(facts: dict) -> str:
    return ", ".join(f"{k}={facts.get(k)!r}" for k in ("kind", "filter", "empty", "min_count", "divisor") + (("square",) if "square" in facts else ()))


def _one(gm: GroupModel, name: str) -> Tuple[Optional[Output], List[str]]:
    outs = gm.builtin_outputs().get(f"{name}_over", [])
    if not outs:
        return None, []
    if len(outs) > 1:
        return outs[0], [f"{len(outs)} output columns are produced per {name}_over column"]
    return outs[0], []


def aggregator_table(ctx, gm: GroupModel, rule: str) -> None:
    """Each built-in aggregator: wiring param <-> loop <-> function facts <-> suffix, facts == spec."""
    for name in BUILTINS:
        p = f"{name}_over"
        o, problems = _one(gm, name)
        if o is None:
            ctx.ob(rule, gm.f, f"{name}", False, "", gm.f.node,
                   message=f"{gm.which}: no output column is produced for `{p}` - the {name} aggregate is not computed")
            continue
        problems = problems + list(o.problems)
        nf = gm.name_kernel_facts(o)
        suffix = nf[4] if nf else None
        if not o.problems:
            if suffix != name:
                problems.append(f"the {p} output is labelled '{suffix}', must be '{name}'")
            if not o.facts:
                problems.append("aggregator function not found: " + "; ".join(o.flow_problems[:1]))
            else:
                problems += [f"{name}: {x}" for x in compare_with_spec(name, o.facts)]
                if o.facts.get("kind") == "?":
                    problems.append(f"aggregator not recognised: `{o.facts.get('detail')}`")
            if not o.length_guard:
                problems.append(f"no `len(col) != nrows` guard before a column of `{p}` is aggregated")
            if o.extra:
                problems.append(f"the {name} output is produced only under `{show_conds(o.extra, gm.it)[:70]}`")
        ctx.ob(rule, gm.f, f"{name}", not problems, f"{gm.which}.{p}: {fmt(o.facts)}, suffix '{suffix}'", o.node,
               message=f"{gm.which}({p}=...): " + "; ".join(problems))
    extra = set(gm.builtin_outputs()) - {f"{n}_over" for n in BUILTINS}
    if extra:
        ctx.info(f"{gm.which}: additional aggregator outputs {sorted(extra)} are not covered by the statement")
    unknown = [o for o in gm.outputs if o.kind == "?"]
    for i, o in enumerate(unknown):
        ctx.ob(rule, gm.f, f"unclassified-output-{i}", False, "", o.node,
               message=f"{gm.which}: a result column is neither a key column, a built-in aggregate of one parameter nor an apply entry: "
                       + "; ".join(o.problems))


def outputs(ctx, gm: GroupModel, rule: str) -> None:
    """window: every aggregate output is its own column's group values expanded to the rows, named after its own column."""
    for p, outs in gm.builtin_outputs().items():
        o = outs[0]
        problems = list(o.problems) + list(o.flow_problems)
        nf = gm.name_kernel_facts(o)
        if nf is not None and not (nf[0] and nf[1]):
            problems.append("the output is not named after its own column")
        if o.uniq is None:
            problems.append("the output name does not pass through uniquify")
        ctx.ob(rule, gm.f, p, not problems, f"{p}: output = group values of its own column expanded to the rows", o.node,
               message=f"{gm.which}({p}=...): " + "; ".join(problems))


def siblings(ctx, agg: GroupModel, win: GroupModel, rule: str, with_vector: bool = True) -> None:
    for name in BUILTINS:
        a, _ = _one(agg, name)
        w, _ = _one(win, name)
        if a is None or w is None:
            continue
        fa = {k: v for k, v in a.facts.items() if k != "detail"}
        fw = {k: v for k, v in w.facts.items() if k != "detail"}
        ctx.ob(rule, win.f, f"window~aggregate:{name}", fa == fw and fa.get("kind") not in ("?", None),
               f"{name}: window and aggregate aggregators are fact-equal ({fmt(fa)})", w.node,
               message=f"window's {name} aggregator differs from aggregate's: aggregate {fmt(fa)} vs window {fmt(fw)}"
                       + (f" [window: `{w.facts.get('detail')}`]" if fw.get("kind") == "?" else "")
                       + (f" [aggregate: `{a.facts.get('detail')}`]" if fa.get("kind") == "?" else "")
                       + " - rows of a group would not receive the value aggregate computes")
        if with_vector and name != "count":
            fv = vector_reduction_facts(ctx.prog, name)
            fvc = {k: v for k, v in fv.items() if k != "detail"}
            cmp_a = dict(fa)
            if name == "stdev" and fvc.get("divisor") == "n-1+population":
                fvc["divisor"] = "n-1"
            ctx.ob(rule, ctx.prog.func(f"vector.Vector.{name}"), f"vector~aggregate:{name}", fvc == cmp_a,
                   f"Vector.{name} agrees with the {name} aggregator", ctx.prog.func(f"vector.Vector.{name}").node,
                   message=f"Vector.{name}() differs from aggregate's {name}: Vector {fmt(fv)} vs aggregate {fmt(fa)}"
                           + (f" [`{fv.get('detail')}`]" if fv.get("kind") == "?" else ""))


def group_value_flow(ctx, gm: GroupModel, rule: str) -> None:
    """Each aggregate sees its group's values, unfiltered, in row order, exactly once per group, and ITS result is the
    group's value (no path around the aggregate function)."""
    if gm.partition_error:
        raise AnalysisError(gm.partition_error)
    problems = []
    node = gm.f.node
    n = 0
    for p, outs in gm.builtin_outputs().items():
        for o in outs:
            n += 1
            for x in o.flow_problems:
                problems.append(f"{p}: {x}")
                node = o.node
    if n == 0:
        problems.append("no built-in aggregate output found")
    role = "aggregate_col" if gm.which == "aggregate" else "compute_group_values"
    seen = set()
    problems = [x for x in problems if not (x in seen or seen.add(x))]
    ctx.ob(rule, gm.f, role, not problems, f"{gm.which}: per group: gather rows in order -> fn(vals) once -> the group's value ({n} outputs)",
           node, message=f"{gm.which}: " + "; ".join(problems[:4]))


def apply_block(ctx, gm: GroupModel, rule: str) -> None:
    outs = gm.apply_outputs()
    if not outs:
        ctx.ob(rule, gm.f, "apply", False, "", gm.f.node, message=f"{gm.which}: no output column is produced for apply entries")
        return
    problems = []
    if gm.partition_error:
        raise AnalysisError(gm.partition_error)
    if len(outs) != 1:
        problems.append(f"{len(outs)} output columns per apply entry")
    o = outs[0]
    it = gm.it
    problems += o.problems + o.flow_problems
    if not o.length_guard:
        problems.append("no length guard on the apply column")
    if o.extra:
        problems.append(f"apply outputs are produced only under `{show_conds(o.extra, it)[:60]}`")
    if o.name_base != ("key", ("param", "apply"), o.loop):
        problems.append(f"apply output is named `{gm.sh(o.name, 50)}`, expected uniquify(<the entry's name>)")
    ctx.ob(rule, gm.f, "apply", not problems, f"{gm.which}: apply receives each group's values (None included, row order) once", o.node,
           message=f"{gm.which}(apply=...): " + "; ".join(problems))


def single_exit(ctx, gm: GroupModel, rule: str) -> None:
    """aggregate / window have exactly one return: the table of all result columns (no special case for empty input)."""
    extra = [e for e in gm.returns if e is not gm.final]
    ok = not extra
    ctx.ob(rule, gm.f, "single-exit", ok, f"{gm.which}: the only return is Table(<all result columns>)", extra[0].node if extra else gm.f.node,
           message=f"{gm.which}: " + (f"`return {gm.sh(extra[0].term, 50)}` (line {extra[0].node.lineno}) returns early: key columns / aggregate "
                                      f"columns are not produced for that input (e.g. a zero-row table must still give the key and "
                                      f"aggregate columns)" if extra else ""))


def key_columns(ctx, gm: GroupModel, rule: str) -> None:
    f, it = gm.f, gm.it
    problems = []
    if gm.partition_error and gm.which == "aggregate":
        raise AnalysisError(gm.partition_error)
    keys = gm.key_outputs()
    node = f.node
    if len(keys) != 1:
        problems.append(f"expected one key output column per key, found {len(keys)} per key")
    else:
        o = keys[0]
        node = o.node
        problems += o.problems
        if gm.outputs.index(o) != 0:
            problems.append("key columns are appended after an aggregate column")
        if o.extra:
            problems.append(f"key columns are produced only under `{show_conds(o.extra, it)[:60]}`")
        col = o.col
        OVER = gm.over_list()
        lp = it.loops[o.loop]
        src = lp.domain if (lp.domain is not None and lp.domain[0] != "tuple") else lp.iter
        if OVER is None or src != OVER:
            problems.append("key columns are not produced by one pass over the resolved key columns")
        data = o.data
        if gm.which == "aggregate":
            ok = False
            from ..sites2 import strip_seq as _strip_seq
            if data is not None:
                data = _strip_seq(it, data)          # (list(<generator>) / tuple(<comprehension>) is the comprehension)
            if data is not None and data[0] == "obj":
                evs = elements(it, data)
                if len(evs) == 1 and not it.objs[data[1]].init:
                    e = evs[0]
                    lps = [x for x in e.loops if x not in o.ev.loops]
                    v = e.value if e.kind == "elem" else (e.term[2][0] if e.term[2] else None)
                    if len(lps) == 1 and gm.group_loop(lps[0]) and v is not None and v[0] == "sub" and v[1] in gm.group_key(lps[0]) \
                            and v[2] == ("idx", o.loop) and not e.conds[len(o.ev.conds):]:
                        ok = True
            if not ok:
                problems.append(f"key column k holds `{gm.sh(data, 70)}`, expected [key[k] for key, _ in groups] (one value per group, in "
                                f"group order)")
        else:
            okd = False
            if data is not None:
                d = data
                if d[0] == "obj" and it.objs[d[1]].kind == "list" and isinstance(it.objs[d[1]].node, ast.Call) and len(it.objs[d[1]].init) == 1:
                    d = it.objs[d[1]].init[0]
                elif d[0] == "call" and d[1] in (("name", "list"), ("name", "tuple")) and len(d[2]) == 1:
                    d = d[2][0]
                okd = d in (col, ("attr", col, "_underlying"))
            if not okd:
                problems.append(f"key column is `{gm.sh(data, 60)}`, expected the key column unchanged (list(col))")
        # the name of a key column, evaluated by cases of its stored name N (None, '', a word) and of whether a key of that name came
        # before: an unnamed key is uniquify('key'); the FIRST key of a stored name keeps it as it is ('' is a name like any other); a
        # repeated name is uniquify(N); and the names of all keys are in the uniquifier's set before the first synthetic name is chosen
        # (made unique left to right, an unnamed key placed before a key named 'key' takes that name and the real column is renamed)
        from ..symx import flatten_conds as _fc
        N = ("attr", col, "_name")
        is_u = lambda t: gm.uniq_call(t) is not None
        seen_sets = set()

        def kcond(c, nval, repeated):
            if c[0] == "cmp" and c[1] in ("Is", "IsNot") and c[2] == N and c[3] == NONE:
                return (nval is None) == (c[1] == "Is")
            if c[0] == "cmp" and c[1] in ("In", "NotIn") and c[2] == N and c[3][0] == "obj" and it.objs[c[3][1]].kind == "set":
                seen_sets.add(c[3])
                return repeated == (c[1] == "In")
            if c == N:
                return bool(nval)                          # (a truth test of the name: '' counts as unnamed - judged by the cases)
            if c[0] == "un" and c[1] == "Not":
                r = kcond(c[2], nval, repeated)
                return None if r is None else not r
            if c[0] == "bool":
                rs = []
                for x in c[2]:
                    r = kcond(x, nval, repeated)
                    rs.append(r)
                    if (c[1] == "and" and r is False) or (c[1] == "or" and r is True):
                        break
                if c[1] == "and":
                    return False if False in rs else (None if None in rs else True)
                return True if True in rs else (None if None in rs else False)
            return None

        def kname(t, nval, repeated):
            if t == N:
                return ("N", nval)
            if t[0] == "const":
                return ("C", t[2])
            if t[0] == "ifexp":
                r = kcond(t[1], nval, repeated)
                return None if r is None else kname(t[2] if r else t[3], nval, repeated)
            if t[0] == "bool" and t[1] == "or" and len(t[2]) == 2:      # N or 'key'
                a_ = kname(t[2][0], nval, repeated)
                if a_ is None:
                    return None
                return a_ if a_[1] else kname(t[2][1], nval, repeated)
            if is_u(t):
                inner = kname(t[2][0], nval, repeated)
                return None if inner is None else ("U", inner)
            return None
        want = {(None, False): ("U", ("C", "key")), (None, True): ("U", ("C", "key")),
                ("w", False): ("N", "w"), ("", False): ("N", ""), ("w", True): ("U", ("N", "w")), ("", True): ("U", ("N", ""))}
        got = {k_: kname(o.name, k_[0], k_[1]) if o.name is not None else None for k_ in want}
        bad = [k_ for k_ in want if got[k_] != want[k_]]
        if bad:
            k_ = bad[0]
            if got[("", False)] in (("U", ("C", "key")),) or got[("", True)] == ("U", ("C", "key")):
                problems.append(f"key column is named `{gm.sh(o.name_base, 60)}`: a column whose stored name is '' comes out renamed to 'key' "
                                f"(a falsy test where `is None` is meant)")
            elif got[("w", False)] == ("U", ("N", "w")):
                problems.append("key names are made unique left to right instead of the keys' own stored names being taken first (the first key "
                                "of a stored name does not keep it as it is): an unnamed key placed before a key named 'key' takes that name and "
                                "the real column comes back as 'key2'")
            else:
                problems.append(f"key column is named `{gm.sh(o.name, 60)}`: for a stored name {k_[0]!r}"
                                f"{' that an earlier key already has' if k_[1] else ''} it evaluates to {got[k_]!r}, expected "
                                f"{'uniquify(' + repr('key') + ')' if k_[0] is None else ('uniquify(<the name>)' if k_[1] else 'the stored name as it is')}")
        else:
            # the first occurrence is recorded, and all key names are reserved before the key loop
            # (the names may have been chosen in a loop of their own that built a list of them, one per key, which the output loop
            #  walks: symx Loop.fused_from - what happens in that loop happens for the key at the same position)
            from ..symx import reloop as _reloop
            own_loops = (o.loop,) + tuple(it.loops[o.loop].fused_from)
            recorded = any(e.kind == "call" and e.term[1][0] == "attr" and e.term[1][2] == "add" and e.term[1][1] in seen_sets
                           and any(L_ in e.loops and e.term[2] == (_reloop(N, o.loop, L_),) for L_ in own_loops) for e in it.events)
            fresh_seen = all(not it.objs[s_[1]].init and not any(L_ in it.objs[s_[1]].loops for L_ in own_loops) for s_ in seen_sets)
            if not (seen_sets and recorded and fresh_seen):
                problems.append("the first key of a stored name is not recorded (a set of the names kept so far, empty before the key loop): a "
                                "repeated key name would be kept twice")
            reserved = False
            for e in it.events:
                if e.kind != "call" or e.term[1][0] != "attr" or e.term[1][1][0] != "obj" or e.seq >= o.ev.seq or any(L_ in e.loops for L_ in own_loops):
                    continue
                if any(it.loops[L_].node is not None and e.seq > min((x.seq for x in it.events if L_ in x.loops), default=10 ** 9)
                       for L_ in it.loops[o.loop].fused_from):
                    continue            # (reserved only after the names were chosen)
                if e.term[1][2] == "update" and len(e.term[2]) == 1 and e.term[2][0][0] == "obj":
                    els = [x for x in it.events if x.kind == "elem" and x.term == e.term[2][0]]
                    if len(els) != 1 or not els[0].loops:
                        continue
                    lp2, val2, extra2 = it.loops[els[0].loops[-1]], els[0].value, els[0].conds
                elif e.term[1][2] == "add" and len(e.term[2]) == 1 and e.loops:
                    lp2, val2, extra2 = it.loops[e.loops[-1]], e.term[2][0], e.conds
                else:
                    continue
                src2 = lp2.domain if (lp2.domain is not None and lp2.domain[0] != "tuple") else lp2.iter
                n2 = ("attr", ("elem", lp2.iter, lp2.id), "_name")
                filt = [c for c, pol in _fc(extra2[len(lp2.conds):])]
                if OVER is not None and src2 == OVER and val2 == n2 and all(c in (("cmp", "IsNot", n2, NONE), ("cmp", "Is", n2, NONE)) for c in filt):
                    reserved = True
            if not reserved:
                problems.append("key names are made unique left to right instead of the keys' own stored names being taken first (the stored "
                                "names of all keys are not put into the uniquifier's set before the key loop): an unnamed key placed before a "
                                "key named 'key' takes that name and the real column comes back as 'key2'")
        if gm.which != "aggregate" and getattr(ctx, "prop", "") == "C13":
            from ..symx import kw as _kw
            dt = _kw(o.ev.term, "dtype") if o.ev.term[0] == "call" else None
            vec = o.vec if o.vec is not None and o.vec[0] == "call" else None
            dt = dt if dt is not None else (_kw(vec, "dtype") if vec is not None else None)
            if dt != ("attr", col, "_dtype"):
                problems.append("the key column is rebuilt without its dtype (re-inferred from the same elements: <int?> without a None left "
                                "comes out <int>, an all-None typed key <object?>): 'reproduces the partition key columns unchanged'")
    ctx.ob(rule, f, "key-columns", not problems, f"{gm.which}: key columns first, one per key, named uniquify(name, 'key' if unnamed)"
           + (", dtype kept" if gm.which != "aggregate" and getattr(ctx, "prop", "") == "C13" else ""),
           node, message=f"{gm.which}: " + "; ".join(problems))


_UNKNOWN = object()


def _name_value(t, N, case):
    """value of the name expression t when the stored name N is `case` (None, '' or a non-empty word); _UNKNOWN outside the fragment"""
    if t is None:
        return _UNKNOWN
    if t == N:
        return case
    k = t[0]
    if k == "const":
        return t[2]
    if k == "bool":
        vals = [_name_value(x, N, case) for x in t[2]]
        if any(v is _UNKNOWN for v in vals):
            return _UNKNOWN
        for v in vals[:-1]:
            if (t[1] == "or" and v) or (t[1] == "and" and not v):
                return v
        return vals[-1]
    if k == "un" and t[1] == "Not":
        v = _name_value(t[2], N, case)
        return _UNKNOWN if v is _UNKNOWN else (not v)
    if k == "cmp" and t[1] in ("Is", "IsNot", "Eq", "NotEq"):
        a, b = _name_value(t[2], N, case), _name_value(t[3], N, case)
        if a is _UNKNOWN or b is _UNKNOWN:
            return _UNKNOWN
        if t[1] in ("Is", "IsNot"):
            same = (a is b) or (isinstance(a, str) and isinstance(b, str) and a == b)
            return same if t[1] == "Is" else not same
        return (a == b) if t[1] == "Eq" else (a != b)
    if k == "ifexp":
        c = _name_value(t[1], N, case)
        if c is _UNKNOWN:
            return _UNKNOWN
        return _name_value(t[2] if c else t[3], N, case)
    return _UNKNOWN


def key_length_guards(ctx, gm: GroupModel, rule: str) -> None:
    it = gm.it
    OVER = gm.over_list()
    ok = False
    if OVER is not None:
        for lp in it.loops.values():
            src = lp.domain if (lp.domain is not None and lp.domain[0] != "tuple") else lp.iter
            if src == OVER and not lp.parents and lp.kind == "for":
                if gm.length_guarded(("elem", OVER, lp.id), 10 ** 9, lp.id):
                    first_use = min((e.seq for e in it.events if gm.part_loop is not None and gm.part_loop in e.loops), default=10 ** 9)
                    if gm.length_guarded(("elem", OVER, lp.id), first_use, lp.id):
                        ok = True
    ctx.ob(rule, gm.f, "key-lengths", ok, f"{gm.which}: every key column is length-checked against the table", gm.f.node,
           message=f"{gm.which}: partition keys are not length-checked before the rows are partitioned (a key vector not stored in the "
                   f"table could be shorter)")
    ctx.ob(rule, gm.f, "key-resolution", OVER is not None, f"{gm.which}: keys resolved through _resolve_column", gm.f.node,
           message=f"{gm.which}: partition keys are not resolved through _resolve_column (names -> stored-name lookup)")


def expansion(ctx, gm: GroupModel, rule: str) -> None:
    """window: row i receives the value of the group it was partitioned into, for every row, in row order."""
    problems = []
    node = gm.f.node
    for o in gm.outputs:
        if o.kind in ("builtin", "apply"):
            for x in o.flow_problems:
                if x.startswith(("row values", "the output is not filled", "the output column holds")):
                    problems.append(f"{o.param}: {x}")
                    node = o.node
    seen = set()
    problems = [x for x in problems if not (x in seen or seen.add(x))]
    ctx.ob(rule, gm.f, "expand_to_rows", not problems, "row i receives group_map[row_keys[i]] for every row i in row order", node,
           message="window: " + "; ".join(problems[:3]))


def naming_kernel(ctx, agg: GroupModel, win: GroupModel, rule: str) -> None:
    us = {}
    for gm in (agg, win):
        uniqs = {o.uniq for o in gm.outputs if o.uniq is not None}
        missing = [o for o in gm.outputs if o.uniq is None]
        ok = len(uniqs) == 1 and not missing
        ctx.ob(rule, gm.f, "one-uniquifier", ok, f"{gm.which}: every output name passes through one uniquifier", 
               missing[0].node if missing else gm.f.node,
               message=f"{gm.which}: " + (f"{len(missing)} output name(s) do not pass through the uniquifier" if missing else
                                          f"{len(uniqs)} different uniquifiers are used (names unique only per uniquifier)"))
        if len(uniqs) >= 1:
            us[gm.which] = gm.uniq_function(sorted(uniqs, key=repr)[0])
    if us.get("aggregate") is not None and us.get("window") is not None:
        ua, uw = us["aggregate"], us["window"]
        fw = uw
        fa_u = uniquify_facts(ua)[1]
        fw_u = uniquify_facts(uw)[1]
        ctx.ob(rule, fw, "uniquify-siblings", fa_u is not None and fa_u == fw_u,
               f"window.uniquify numbers repeated names like aggregate.uniquify (first suffix, step) = {fa_u}", uw.node,
               message=f"window's uniquify numbers repeated names differently from aggregate's: (first suffix, step) {fw_u} vs {fa_u}")
    for gm in (agg, win):
        if gm.which not in us:
            continue
        u = us[gm.which]
        if u is None:
            raise AnalysisError(f"{gm.which}: the uniquifier closure is not an indexed function")
        problems = uniquify_problems(u)
        ctx.ob(rule, u, "uniquify-shape", not problems, f"{gm.which}.uniquify returns an unused name and records it", u.node,
               message=f"{gm.which}.uniquify: " + "; ".join(problems))
    fa = {n: (agg.name_kernel_facts(_one(agg, n)[0]) if _one(agg, n)[0] is not None else None) for n in BUILTINS}
    fw_ = {n: (win.name_kernel_facts(_one(win, n)[0]) if _one(win, n)[0] is not None else None) for n in BUILTINS}
    good = all(fa[n] == fw_[n] == (True, True, True, True, n) for n in BUILTINS)
    bad = [n for n in BUILTINS if not (fa[n] == fw_[n] == (True, True, True, True, n))]
    ctx.ob(rule, win.f, "agg-name-siblings", good, "output names: f'{sanitise(col._name or \'col\') or \'col\'}_{suffix}' in both", win.f.node,
           message=f"aggregate/window output naming kernel deviates for {bad}: (own-column base, sanitised, fallback 'col', f'{{s}}_{{suffix}}', "
                   f"suffix) aggregate {[fa[n] for n in bad]} vs window {[fw_[n] for n in bad]}")


def uniquify_problems(u) -> List[str]:
    return uniquify_facts(u)[0]


def uniquify_facts(u):
    """(problems, facts) of a uniquifier `u(name)`: every returned name is not in the used-set when it is returned (it is `name` under
    `name not in used`, or the candidate a `while <candidate> in used` loop stopped at), is recorded with used.add(..) right before
    the return, and candidates are f'{name}{k}' for k = START, START + STEP, ...  Accepted in both usual shapes: early return for a
    free name + probing loop, or one loop over `candidate` that starts as the name itself."""
    name = u.params[0]
    probs: List[str] = []
    body = [s for s in u.body if not (isinstance(s, ast.Expr) and isinstance(s.value, ast.Constant))]
    tests = [n for n in ast.walk(u.node) if isinstance(n, ast.Compare) and len(n.ops) == 1 and isinstance(n.ops[0], (ast.In, ast.NotIn))]
    useds = {short(t.comparators[0]) for t in tests}
    if len(useds) != 1:
        return ([f"membership is tested against {sorted(useds)}: expected one set of used names"], None)
    used = useds.pop()

    def block_of(node, stmts):
        """(block, index) of the statement list that directly contains node"""
        for k, st in enumerate(stmts):
            if st is node:
                return stmts, k
            for fld in ("body", "orelse"):
                sub = getattr(st, fld, None)
                if isinstance(sub, list):
                    r = block_of(node, sub)
                    if r is not None:
                        return r
        return None
    rets = [n for n in ast.walk(u.node) if isinstance(n, ast.Return)]
    whiles = [n for n in ast.walk(u.node) if isinstance(n, ast.While)]
    if not rets:
        return (["returns nothing"], None)
    assigns = {}
    for n in ast.walk(u.node):
        if isinstance(n, ast.Assign) and len(n.targets) == 1 and isinstance(n.targets[0], ast.Name):
            assigns.setdefault(n.targets[0].id, []).append(n.value)
    cand_fmt = None
    for r in rets:
        rv = short(r.value) if r.value is not None else "None"
        blk = block_of(r, body)
        if blk is None:
            probs.append("a return was not located")
            continue
        stmts, k = blk
        prev = stmts[k - 1] if k > 0 else None
        if not (isinstance(prev, ast.Expr) and short(prev.value) == f"{used}.add({rv})"):
            probs.append(f"`return {rv}` is not preceded by `{used}.add({rv})`: the returned name is not recorded as used")
        # why is rv free?  (i) inside `if rv not in used:`  (ii) a preceding `while X in used` loop in the same block, X being rv or what
        # rv was assigned from after the loop
        free = False
        for t in tests:
            if isinstance(t.ops[0], ast.NotIn) and short(t.left) == rv:
                holder = [n for n in ast.walk(u.node) if isinstance(n, ast.If) and n.test is t]
                if holder and any(r is x for x in ast.walk(ast.Module(body=holder[0].body, type_ignores=[]))):
                    free = True
        for w in whiles:
            if w in stmts[:k] and isinstance(w.test, ast.Compare) and isinstance(w.test.ops[0], ast.In):
                x = short(w.test.left)
                after = [st for st in stmts[stmts.index(w) + 1:k] if isinstance(st, ast.Assign) and short(st.targets[0]) == rv]
                if x == rv and not after:
                    free = True
                elif after and short(after[-1].value) == x:
                    free = True
        if not free:
            probs.append(f"`return {rv}`: nothing establishes that `{rv}` is not in `{used}` (neither `if {rv} not in {used}` nor the exit of "
                         f"`while {rv} in {used}`)")
    # the candidates: f'{name}{k}'
    fstrs = [n for n in ast.walk(u.node) if isinstance(n, ast.JoinedStr)]
    shapes = set()
    counter = None
    for fs in fstrs:
        parts = [v for v in fs.values]
        if len(parts) == 2 and all(isinstance(v, ast.FormattedValue) for v in parts) and short(parts[0].value) == name \
                and isinstance(parts[1].value, ast.Name):
            shapes.add("name+counter")
            counter = parts[1].value.id
        else:
            shapes.add(short(fs))
    start = step = None
    if counter is not None:
        inits = [v for v in assigns.get(counter, []) if isinstance(v, ast.Constant) and isinstance(v.value, int)]
        start = inits[0].value if len(inits) == 1 else None
        incs = [n for n in ast.walk(u.node) if isinstance(n, ast.AugAssign) and isinstance(n.target, ast.Name) and n.target.id == counter
                and isinstance(n.op, ast.Add) and isinstance(n.value, ast.Constant)]
        step = incs[0].value.value if len(incs) == 1 and any(incs[0] in list(ast.walk(w)) for w in whiles) else None
    if shapes != {"name+counter"} or start is None or step is None:
        probs.append(f"candidates are {sorted(shapes)} (counter from {start} by {step}): expected f'{{name}}{{k}}' for k counting up inside the loop")
    if len(whiles) != 1:
        probs.append(f"{len(whiles)} probing loops")
    return (probs, (start, step))



"""C18 - names propagate by fixed rules: math drops them, structure keeps them.

A typing discipline on the NAME argument of every construction site, one admissible class per
operation category, plus the exact decision table of _resolve_binary_name.
"""
from __future__ import annotations

import ast
from typing import List, Optional

from ..absint import IdentityOfValues, NONE, Const, Interp, Tup
from ..astutil import Defs
from ..cfg import cfg_of, reaching_defs
from ..core import AnalysisError, attr_chain, cshort, kwarg, short, walk_no_nested, walk_stmts
from ..groupsx import GroupModel
from ..joins import VARIANTS, JoinFacts
from ..sites import Resolver, all_sites, vector_valued
from . import grouprules as gr
from . import joinrules as jr
from .c01 import _fresh_vector_expr

MATH_FUNCS = ("vector.Vector._elementwise_operation", "vector.Vector._elementwise_compare", "vector._Date._elementwise_compare",
              "vector.Vector.__radd__", "vector._Date.__add__", "table.Table._elementwise_compare")
KEEP_FUNCS = {
    "vector.Vector.to_object": "self._name", "vector.Vector.cast": "self._name", "vector.Vector.fillna": "self._name",
    "vector.Vector.sort_by": "self._name", "vector.Vector._unary_operation": "self._name", "vector.Vector.__invert__": "self._name",
    "vector.Vector.dropna": "self._name",
}


def run(ctx) -> None:
    ctx.rule("a.math-unnamed", "results of binary arithmetic / comparison / logical kernels are constructed with no name or name=None", 6)
    ctx.rule("b.structure-keeps", "copy (default), slicing, masking, index lists, sort_by, cast, fillna, to_object, .T pass the "
                                  "receiver's stored name", 6)
    ctx.rule("c.write-keeps", "in-place writes and promotion never store a name", 2)
    ctx.rule("d.table-scalar", "table (op) scalar: result column i takes the stored name of source column i", 1)
    ctx.rule("d.table-table", "table (op) table: _resolve_binary_name(left, right) is 'left if right is None or equal else None' for "
                              "every pair over {None, '', 'n', 'm'} (exact evaluation), and its result is what the column gets", 8)
    ctx.rule("e.construction", "Table.__init__ restores the saved source names by position; >> {name: values} names a FRESH copy "
                               "with the dict key", 2)
    ctx.rule("f.joins", "join results: left column i / right column j take the stored name of their source column (as C09.e)", 3)
    ctx.rule("g.aggregate-window", "key outputs are uniquify(stored name; 'key' only when unnamed); aggregate outputs uniquify(<sanitised>_<function>); apply "
                                   "outputs uniquify(key); uniquify returns an unused name and records it; aggregate and window agree", 10)
    ctx.rule("h.table-selections", "row slices / masks / selections and sort_by rebuild each column under its source name", 3)
    ctx.rule("i.table-own-name", "a table's OWN name: every row selection of Table.__getitem__ (slice, mask, mask list, index vector) and "
                                 "every result of Table.sort_by is built with name=self._name; table << rows and reflected forms put the "
                                 "column names back (each fresh column named after the column of self at its position)", 5)
    ctx.section("math", _math, ctx)
    ctx.section("compare-unnamed-columns", _compare_unnamed_columns, ctx)
    ctx.section("structure", _structure, ctx)
    ctx.section("writes", _writes, ctx)
    ctx.section("table-arith", _table_arith, ctx)
    ctx.section("construction", _construction, ctx)
    ctx.section("joins", _joins, ctx)
    ctx.section("groups", _groups, ctx)
    ctx.section("sanitiser", _sanitiser_stateless, ctx)
    ctx.section("selections", _selections, ctx)
    # aggregate / window outputs are named <sanitised column>_<function>: the sanitiser's own stages (shared with C17.a) belong to
    # this clause - a keyword or reserved test applied to the wrong text changes 'Class #' -> class_sum instead of class__sum
    from . import c17 as _c17

    class _As:
        def __init__(self, rule):
            self._rule = rule
            self.prog = ctx.prog

        def ob(self, rule, func, role, ok, what, node=None, message="", witness=""):
            return ctx.ob(self._rule, func, "sanitiser:" + str(role), ok, what, node, message, witness)

        def info(self, msg):
            pass
    ctx.section("sanitiser-stages", _c17._sanitiser, _As("g.aggregate-window"))
    ctx.not_decided.append("the concrete suffix numbers chosen by uniquify")


def _sanitiser_stateless(ctx) -> None:
    from ..core import module_binding
    prog = ctx.prog
    f = prog.func("naming._sanitize_user_name")
    local = set(Defs(f).assigns) | set(f.params)
    bad = []
    for n in walk_no_nested(f.node):
        if isinstance(n, ast.Name) and n.id not in local:
            b = module_binding(prog, f.module, n.id)
            if b is not None and b[0] == "mutable" and n.id not in bad:
                bad.append(n.id)
    glob = [s for s in walk_stmts(f.body) if isinstance(s, (ast.Global, ast.Nonlocal))]
    memo = [d for d in f.decorators if "cache" in d]
    ctx.ob("g.aggregate-window", f, "sanitiser-stateless", not bad and not glob and not memo,
           "_sanitize_user_name is a pure function of the name (no mutable module-level state, no memo)", f.node,
           message=f"_sanitize_user_name reads module-level state {bad + memo}: output names of aggregate/window would depend on what was "
                   f"sanitised before (a memo keyed by the raw name conflates 1, 1.0 and True)")


def _is_none_name(s) -> bool:
    return (not s.name_given) or (isinstance(s.name, ast.Constant) and s.name.value is None)


def _math(ctx) -> None:
    """Results of the arithmetic / comparison kernels are unnamed - every construction site of those functions on the symx log."""
    from ..sites2 import all_sites2
    from ..symx import NONE as SNONE
    from .c03 import ndims_guard2
    prog = ctx.prog
    ords = {}
    for s in all_sites2(prog):
        q = s.top.qualname
        if q not in MATH_FUNCS:
            continue
        k = ords[q] = ords.get(q, 0) + 1
        if s.kind == "copy":
            # the branch `self is 2-D` of a vector kernel is not reached by a table: Table overrides the comparison kernel itself and
            # every public method that returns the arithmetic kernel (obligation d.table-scalar entry-points) - a 2-D OTHER operand,
            # however, is reached (typed_vector + table) and its copy must drop the table's own name like every other result
            if s.recv == ("param", s.top.params[0]) and ndims_guard2(s, s.recv) \
                    and (s.top.name in prog.cls("Table").methods or s.top.name == "_elementwise_operation"):
                continue
            ok = s.name_given and s.name == SNONE
            ctx.ob("a.math-unnamed", s.top, f"copy:{k}", ok, "unnamed result", s.node,
                   message=f"{q}: `{s.sh(s.call, 70)}` returns a copy that KEEPS the operand's name as the result of a binary operation")
            continue
        if s.kind != "Vector":
            continue
        ok = (not s.name_given) or s.name == SNONE
        ctx.ob("a.math-unnamed", s.top, f"site:{k}", ok, "unnamed result", s.node,
               message=f"{q}: the result `{s.sh(s.call, 80)}` is named `{s.sh(s.name, 40)}`; binary arithmetic "
                       f"and comparisons give unnamed results")


def _compare_unnamed_columns(ctx) -> None:
    """A comparison does not carry a name, not even onto the columns of a table result: the comparison kernels (helpers evaluated in
    line) never store a name other than None (the arithmetic kernel does copy the column names of a table operand, by design)."""
    from ..sites2 import interp_of
    from ..symx import NONE as SNONE
    from ..symx import show
    prog = ctx.prog
    for q in ("vector.Vector._elementwise_compare", "table.Table._elementwise_compare", "vector._Date._elementwise_compare"):
        f = prog.functions.get(q)
        if f is None:
            continue
        it = interp_of(prog, f)
        named = [e for e in it.events if e.kind == "store" and e.term[0] == "attr" and e.term[2] in ("_name", "name") and e.value != SNONE]
        ctx.ob("a.math-unnamed", f, "no-name-store", not named, "the comparison kernel never stores a name", named[0].node if named else f.node,
               message=f"{q}: `{show(named[0].term, it)[:40] if named else ''} = {show(named[0].value, it)[:40] if named else ''}` names a result "
                       f"(column) of a comparison: (v == T) comes back with T's column names while T == v and list == T are unnamed")


def _structure(ctx) -> None:
    from ..sites2 import all_sites2, leaves
    from ..symx import NONE as SNONE
    prog = ctx.prog
    # copy(): default keeps self._name
    f = prog.func("vector.Vector.copy")
    SELF = ("param", f.params[0])
    namep = ("param", "name")
    own = ("attr", SELF, "_name")
    want = ("ifexp", ("cmp", "Is", namep, ("const", "ellipsis", ...)), own, namep)
    sites = [s for s in all_sites2(prog) if s.top is f and s.kind == "Vector"]
    ok = bool(sites) and all(s.name == want for s in sites)
    ctx.ob("b.structure-keeps", f, "copy-default", ok, "copy() keeps self._name unless a name is passed explicitly", f.node,
           message="Vector.copy no longer keeps the receiver's name by default (`self._name if name is ... else name`)")
    # __getitem__ branches and T
    ords = {}
    for q in ("vector.Vector.__getitem__", "vector.Vector.T"):
        g = prog.func(q)
        GS = ("param", g.params[0])
        for s in all_sites2(prog):
            if s.top is g and s.kind == "copy" and s.recv == GS:
                k = ords[q] = ords.get(q, 0) + 1
                ok = (not s.name_given) or s.name == ("attr", GS, "_name")
                ctx.ob("b.structure-keeps", g, f"copy:{k}", ok, "derived vector keeps the name", s.node,
                       message=f"{q}: `{s.sh(s.call, 70)}` passes name=`{s.sh(s.name, 30)}`: slicing / masking / indexing must keep the "
                               f"vector's name")
    for s in all_sites2(prog):
        q = s.top.qualname
        if q in KEEP_FUNCS and s.kind == "Vector":
            k = ords[q] = ords.get(q, 0) + 1
            wantn = ("attr", ("param", s.top.params[0]), "_name")
            ok = s.name == wantn
            ctx.ob("b.structure-keeps", s.top, f"site:{k}", ok, f"{q.split('.')[-1]} keeps the name", s.node,
                   message=f"{q}: the result `{s.sh(s.call, 80)}` is named `{s.sh(s.name, 30)}`, expected self._name")


def _writes(ctx) -> None:
    prog = ctx.prog
    for q in ("vector.Vector.__setitem__", "vector.Vector._promote"):
        f = prog.func(q)
        bad = [short(s, 50) for s in walk_stmts(f.body) if isinstance(s, (ast.Assign, ast.AugAssign))
               and any(isinstance(t, ast.Attribute) and t.attr in ("_name", "name")
                       for t in (s.targets if isinstance(s, ast.Assign) else [s.target]))]
        ctx.ob("c.write-keeps", f, "no-name-store", not bad, "never stores a name", f.node, message=f"{q} changes the name: {bad}")


def _table_arith(ctx) -> None:
    """On the symx event log of _table_elementwise_operation (helpers in line): which name each result column is given."""
    from ..symx import Interp as SInterp
    from ..symx import flatten_conds, show, subterms
    prog = ctx.prog
    f = prog.func("table.Table._table_elementwise_operation")
    it = SInterp(prog, f)
    SELF, OTHER = ("param", f.params[0]), ("param", f.params[1])
    scols = ("call", ("attr", SELF, "cols"), (), ())
    ocols = ("call", ("attr", OTHER, "cols"), (), ())
    is_table = lambda conds, want: any(t[0] == "call" and t[1] == ("name", "isinstance") and t[2] == (OTHER, ("name", "Table")) and pol is want
                                       for t, pol in flatten_conds(conds))
    stores = [e for e in it.events if e.kind == "store" and e.term[0] == "attr" and e.term[2] == "_name"]
    scalar = [e for e in stores if is_table(e.conds, False)]
    ok = bool(scalar) and all(_names_after_self(it, e, scols) for e in scalar)
    # ... and the named columns are the per-column results  op_func(col, other)  over all columns of self
    for e in scalar:
        tgt = e.term[1]
        if not (tgt[0] == "elem" and any(x[0] == "call" and x[1] == ("param", f.params[2]) for x in _deep_terms(it, tgt[1]))):
            ok = False
    ctx.ob("d.table-scalar", f, "scalar", ok, "result column i named after source column i", scalar[0].node if scalar else f.node,
           message="table (op) scalar no longer copies every source column's stored name onto the result column of the same position")
    # ... and every binary arithmetic entry point reaches this kernel on a table: a public Vector method that returns the VECTOR kernel
    # (self._elementwise_operation) must be overridden in Table - inherited, it treats the table as a vector of columns and the
    # per-column results come back unnamed (t.bit_lshift(1))
    vcls, tcls = prog.cls("Vector"), prog.cls("Table")
    inherited = []
    n_entry = 0
    for name, m in sorted(vcls.methods.items()):
        if name.startswith("_") and not (name.startswith("__") and name.endswith("__")):
            continue
        mi = SInterp(prog, m)
        MS = ("param", m.params[0]) if m.params else None
        if any(e.kind == "return" and e.term is not None and e.term[0] == "call" and e.term[1] == ("attr", MS, "_elementwise_operation")
               for e in mi.events):
            n_entry += 1
            if name not in tcls.methods:
                inherited.append(name)
    ctx.ob("d.table-scalar", f, "entry-points", n_entry >= 14 and not inherited,
           f"{n_entry} public Vector methods return the vector kernel; Table overrides each", f.node,
           message=f"Table inherits {inherited[:3]} from Vector: the vector kernel is applied to the table as a whole and every result column "
                   f"comes back unnamed - table-with-scalar arithmetic keeps every column name")
    # table-table: result name from _resolve_binary_name(left._name, right._name)
    problems = []
    tt = [e for e in stores if is_table(e.conds, True)]
    if not tt:
        problems.append("column pairing loop not found")
    for e in tt:
        L = e.loops[-1] if e.loops else None
        lp = it.loops[L] if L is not None else None
        doms = tuple(lp.domain[1]) if lp is not None and lp.domain is not None and lp.domain[0] == "tuple" else ()
        if doms[-2:] != (scols, ocols) and doms != (scols, ocols):
            problems.append(f"columns are paired by `{show(lp.iter, it)[:50] if lp is not None else '?'}`, expected zip(self.cols(), other.cols())")
            continue
        l, r = ("elem", scols, L), ("elem", ocols, L)
        want_call = ("call", ("name", "_resolve_binary_name"), (("attr", l, "_name"), ("attr", r, "_name")), ())
        v = e.value
        if v == ("sub", want_call, ("const", "int", 0)):
            pass
        elif any(x == want_call for x in subterms(v)):
            problems.append("the resolved name is not what the result column receives")
        else:
            calls = [x for x in subterms(v) if x[0] == "call" and x[1] == ("name", "_resolve_binary_name")]
            problems.append(f"names are resolved by `{show(calls[0], it)[:60] if calls else show(v, it)[:60]}`, expected "
                            f"_resolve_binary_name(left._name, right._name)")
    ctx.ob("d.table-table", f, "wiring", not problems, "result column name = _resolve_binary_name(left name, right name)", f.node,
           message="; ".join(problems))
    # exact decision table
    I = Interp(prog)
    g = prog.func("table._resolve_binary_name")
    dom = [None, "", "n", "m"]
    for a in dom:
        for b in dom:
            try:
                st, r = I.call(g.qualname, [Const(a), Const(b)])
            except IdentityOfValues as ex:
                ctx.ob("d.table-table", g, f"cell:left={a!r},right={b!r}", False, "", g.node,
                       message=f"_resolve_binary_name(left={a!r}, right={b!r}) compares the names by identity: {ex} - two equal names read "
                               f"from different sources would count as different and the left name would be dropped")
                continue
            want = a if (b is None or b == a) else None
            got = r.items[0].v if (st == "return" and isinstance(r, Tup) and isinstance(r.items[0], Const)) else "?"
            ok = st == "return" and got == want and (type(got) is type(want))
            ctx.ob("d.table-table", g, f"cell:left={a!r},right={b!r}", ok, f"-> {got!r}", g.node,
                   message=f"_resolve_binary_name(left={a!r}, right={b!r}) gives {got!r}; the rule is 'keep the left name only when the "
                           f"right name is absent (None) or equal', i.e. {want!r}")


def _deep_terms(it, t, depth=0):
    """sub-terms of t, looking through the comprehension / tuple() objects it is built from"""
    from ..symx import subterms
    for x in subterms(t):
        yield x
        if x[0] == "obj" and depth < 4:
            o = it.objs[x[1]]
            for i in o.init:
                yield from _deep_terms(it, i, depth + 1)
            for e in it.events:
                if e.kind == "elem" and e.term == x:
                    yield from _deep_terms(it, e.value, depth + 1)


def _deep_calls(it, t, depth=0):
    """callee names of every call inside t, looking through the objects (comprehensions) it is built from."""
    from ..symx import subterms
    out = set()
    for x in subterms(t):
        if x[0] == "call":
            out.add(x[1][2] if x[1][0] == "attr" else (x[1][1] if x[1][0] == "name" else "?"))
        elif x[0] == "obj" and depth < 4:
            o = it.objs[x[1]]
            for i in o.init:
                out |= _deep_calls(it, i, depth + 1)
            for e in it.events:
                if e.kind == "elem" and e.term == x:
                    out |= _deep_calls(it, e.value, depth + 1)
                    for L in e.loops:
                        if L not in o.loops and it.loops[L].iter is not None:
                            out |= _deep_calls(it, it.loops[L].iter, depth + 1)
    return out


def _construction(ctx) -> None:
    from ..symx import Interp as SInterp
    from ..symx import show, subterms
    prog = ctx.prog
    f = prog.func("table.Table.__init__")
    it = SInterp(prog, f)
    S = ("param", f.params[0])
    und = ("attr", S, "_underlying")
    problems = []
    stores = [e for e in it.events if e.kind == "store" and e.term[0] == "attr" and e.term[2] == "_name" and e.loops]
    if len(stores) != 1:
        problems.append(f"saved names are not restored by position ({len(stores)} name stores in a loop)")
    else:
        e = stores[0]
        L = e.loops[-1]
        tgt, val = e.term[1], e.value
        pos_ok = tgt in (("sub", und, ("idx", L)), ("elem", und, L))
        if not pos_ok:
            problems.append(f"the restored name goes to `{show(tgt, it)[:50]}`, not to the column at the same position")
        names = None
        if val[0] == "elem" and val[2] == L:
            names = val[1]
        elif val[0] == "sub" and val[2] == ("idx", L):
            names = val[1]
        if names is None:
            problems.append(f"column i does not receive saved name i (`{show(val, it)[:50]}`)")
        else:
            # names = [vec._name for vec in <incoming columns>]  (possibly `... if initial else []`)
            cands = [names] if names[0] == "obj" else [x for x in (names[2], names[3]) if x[0] == "obj"] if names[0] == "ifexp" else []
            okn = False
            for c in cands:
                evs = [x for x in it.events if x.kind == "elem" and x.term == c]
                if len(evs) == 1:
                    lps = [l for l in evs[0].loops if l not in it.objs[c[1]].loops]
                    if len(lps) == 1 and evs[0].conds[len(it.objs[c[1]].conds):] == () and it.loops[lps[0]].iter is not None \
                            and evs[0].value == ("attr", ("elem", it.loops[lps[0]].iter, lps[0]), "_name"):
                        src = it.loops[lps[0]].iter
                        if "copy" in _deep_calls(it, src):
                            problems.append("source names are saved after the columns were copied")
                        elif not any(x == ("param", f.params[1]) for x in subterms(src)) and "items" not in _deep_calls(it, src):
                            problems.append(f"names are saved from `{show(src, it)[:50]}`, not from the incoming columns")
                        okn = True
            if not okn:
                problems.append("source names are not saved ([vec._name for vec in initial])")
    ctx.ob("e.construction", f, "init-names", not problems, "source names saved before copying, restored by position",
           stores[0].node if stores else f.node, message="Table.__init__: " + "; ".join(problems))
    g = prog.func("table.Table.__rshift__")
    gi = SInterp(prog, g)
    problems = []
    st = [e for e in gi.events if e.kind == "store" and e.term[0] == "attr" and e.term[2] == "_name"]
    if len(st) != 1:
        problems.append(f"{len(st)} name stores in >>")
    else:
        e = st[0]
        other = ("param", g.params[1])
        if not (e.loops and e.value == ("key", other, e.loops[-1])):
            problems.append(f"the new column is named `{show(e.value, gi)[:50]}`, not the dict key")

        def leaves(t):
            if t[0] == "ifexp":
                return leaves(t[2]) + leaves(t[3])
            if t[0] == "phi":
                return [y for x in t[1] for y in leaves(x)]
            return [t]
        bad = [x for x in leaves(e.term[1]) if not (x[0] == "call" and ((x[1][0] == "attr" and x[1][2] == "copy") or x[1] == ("name", "Vector")))
               and x[0] != "unbound"]
        if bad:
            problems.append(f"`{show(bad[0], gi)[:50]}` is not a fresh copy on every path: >> would rename the caller's own vector")
    ctx.ob("e.construction", g, "rshift-dict", not problems, ">> {name: values}: fresh copy named with the dict key",
           st[0].node if st else g.node, message="Table.__rshift__: " + "; ".join(problems))


def _joins(ctx) -> None:
    from ..joinsx import JoinModel
    from ..symx import show
    for v in VARIANTS:
        jm = JoinModel(ctx.prog, v)
        jr.wrap(ctx, jm, rule="f.joins")
        # EVERY result of a join - also one without rows - is the wrapped buffers: a `return Table(())` special case for an empty
        # result has no columns, so the source columns' names are gone
        it = jm.it
        rets = [e for e in it.events if e.kind == "return" and e.depth == 0]
        final = max(rets, key=lambda e: e.seq) if rets else None
        bad = [e for e in rets if e is not final]
        ctx.ob("f.joins", jm.f, "every-result-named", not bad, f"{v}: one result construction, the wrapped buffers", (bad[0].node if bad else jm.f.node),
               message=f"{v}: `return {show(bad[0].term, it)[:40] if bad else ''}` (line {getattr(bad[0].node, 'lineno', '?') if bad else '?'}) hands "
                       f"out a result that is not the wrapped buffers: an empty join result would have no columns and lose every column name")


def _groups(ctx) -> None:
    a = GroupModel(ctx.prog, "aggregate")
    w = GroupModel(ctx.prog, "window")
    gr.key_columns(ctx, a, "g.aggregate-window")
    gr.key_columns(ctx, w, "g.aggregate-window")
    gr.naming_kernel(ctx, a, w, "g.aggregate-window")
    gr.apply_block(ctx, a, "g.aggregate-window")
    gr.apply_block(ctx, w, "g.aggregate-window")

    class Px:
        prog = ctx.prog

        def ob(self, rule, func, role, ok, what, node=None, message="", witness=""):
            return ctx.ob("g.aggregate-window", func, "aggregate_col-name" if "aggregate_col" in role else role, ok, what, node, message, witness)
    gr.group_value_flow(Px(), a, "x")
    for p, outs in w.builtin_outputs().items():
        o = outs[0]
        nf = w.name_kernel_facts(o)
        ok = o.uniq is not None and nf is not None and nf[0] and nf[1]
        ctx.ob("g.aggregate-window", w.f, f"window:{p}", ok, f"window {p} output named uniquify(<kernel>(own column, suffix))", o.node,
               message=f"window({p}=...): output name `{w.sh(o.name, 70)}` does not pass through uniquify / is not "
                       f"derived from its own column")


def _selections(ctx) -> None:
    from ..symx import Interp as SInterp
    from ..symx import elements, kw, show
    from .c07 import multi_name_selection
    prog = ctx.prog
    f = prog.func("table.Table.sort_by")
    it = SInterp(prog, f)
    cols = ("attr", ("param", f.params[0]), "_underlying")
    rets = [e for e in it.events if e.kind == "return" and e.depth == 0]
    bad = []
    for r in rets:
        t = r.term
        okr = False
        if t[0] == "call" and t[1] == ("name", "Table") and len(t[2]) == 1 and t[2][0][0] == "obj":
            els = elements(it, t[2][0])
            if len(els) == 1:
                e = els[0]
                v = e.value if e.kind == "elem" else (e.term[2][0] if e.term[2] else None)
                lps = [L for L in e.loops if L not in it.objs[t[2][0][1]].loops]
                okr = len(lps) == 1 and it.loops[lps[0]].iter == cols and v is not None and v[0] == "call" and v[1] == ("name", "Vector") \
                    and kw(v, "name") == ("attr", ("elem", cols, lps[0]), "_name")
        if not okr:
            bad.append(r)
    ctx.ob("h.table-selections", f, "sort_by", not bad and bool(rets), "sorted columns keep their source names (also for the empty table)",
           bad[0].node if bad else f.node, message="Table.sort_by does not rebuild every column under its source column's stored name")
    g = prog.func("table.Table.__getitem__")
    gi, Ln, rc, els = multi_name_selection(prog)
    vals = [e.value if e.kind == "elem" else (e.term[2][0] if e.term[2] else None) for e in els]
    plain = [v for v in vals if v is not None and v[0] == "call" and v[1][0] == "attr" and v[1][2] == "copy" and not v[2] and not v[3]]
    ctx.ob("h.table-selections", g, "column-selection", len(plain) == len(vals) and bool(vals),
           f"{len(plain)} selection site(s) append col.copy() (name kept)", els[0].node,
           message="multi-name selection no longer takes plain copies of the selected columns: " +
                   "; ".join(show(v, gi)[:50] for v in vals if v not in plain))
    key_terms = set()
    n_rows = 0
    gcols = ("attr", ("param", g.params[0]), "_underlying")
    for oid, o in gi.objs.items():
        if o.kind in ("genexp", "listcomp"):
            evs = [e for e in gi.events if e.kind == "elem" and e.term == ("obj", oid)]
            if len(evs) == 1:
                e = evs[0]
                lps = [L for L in e.loops if L not in o.loops]
                if len(lps) == 1 and gi.loops[lps[0]].iter == gcols and e.conds == o.conds and e.value[0] == "sub" \
                        and e.value[1] == ("elem", gcols, lps[0]):
                    n_rows += 1
    ctx.ob("h.table-selections", g, "row-selection", n_rows >= 1, f"{n_rows} row selections index each column (name kept by Vector.__getitem__)",
           g.node, message="row selections no longer index each column with the key (which keeps the column's name)")
    # the table's own name
    from ..sites2 import all_sites2
    GS = ("param", g.params[0])
    k = 0
    for st in all_sites2(prog):
        if st.top is not g or st.kind != "Vector" or st.data is None:
            continue
        d = st.data
        d = d[2][0] if d[0] == "call" and d[1] in (("name", "tuple"), ("name", "list")) and len(d[2]) == 1 else d
        if not (d[0] == "obj" and gi_is_row_selection(st.it, d, gcols)):
            continue
        k += 1
        ctx.ob("i.table-own-name", g, f"row-selection:{k}", st.name == ("attr", GS, "_name"), "selected rows keep the table's name", st.node,
               message=f"Table.__getitem__: `{st.sh(st.call, 70)}` is built "
                       + (f"with name=`{st.sh(st.name, 30)}`" if st.name_given else "without a name")
                       + ": a named table loses its name through this selection (t[1:] and t.copy() keep it)")
    # ... and every column selection (t['a', 'b'], t[:, 0:2], t[0:2, ('a', 'b')]) too: a narrower view of the same table
    kc = 0
    for st in all_sites2(prog):
        if st.top is not g or st.kind != "Table":
            continue
        kc += 1
        own = st.name == ("attr", GS, "_name") or (st.name is not None and st.name[0] == "attr" and st.name[2] in ("_name", "name")
                                                   and st.name[1][0] == "sub" and st.name[1][1] == GS)     # (the row-sliced table's)
        ctx.ob("i.table-own-name", g, f"column-selection:{kc}", own, "selected columns keep the table's name", st.node,
               message=f"Table.__getitem__: `{st.sh(st.call, 70)}` is built "
                       + (f"with name=`{st.sh(st.name, 30)}`" if st.name_given else "without a name")
                       + ": a named table loses its name through this selection (T[:, :] / T['k', 'v'] while T[:] keeps it)")
    FS = ("param", f.params[0])
    for j, r in enumerate(rets):
        t = r.term
        ctx.ob("i.table-own-name", f, f"sort_by:{j + 1}", t[0] == "call" and kw(t, "name") == ("attr", FS, "_name"),
               "the sorted table keeps the table's name", r.node,
               message=f"Table.sort_by: `return {show(t, it)[:60]}` does not pass name=self._name: a named table loses its name by sorting")
    # table << rows, rows << table: the fresh columns are named after self's columns, position by position
    for q in ("table.Table.__lshift__", "table.Table.__rlshift__"):
        h = prog.functions.get(q)
        if h is None:
            ctx.ob("i.table-own-name", g, f"defined:{q}", False, "", g.node,
                   message=f"{q} is not defined: Python falls back to Vector's version, which treats the table's column vectors as cells")
            continue
        hi = SInterp(prog, h)
        HS = ("param", h.params[0])
        hcols = ("call", ("attr", HS, "cols"), (), ())
        stores = [e for e in hi.events if e.kind == "store" and e.term[0] == "attr" and e.term[2] == "_name"]
        okn = bool(stores) and all(_names_after_self(hi, e, hcols) for e in stores)
        hrets = [e for e in hi.events if e.kind == "return" and e.depth == 0]
        # every returned table went through the renaming (same path conditions as a renaming loop)
        okn = okn and all(any(tuple(e.conds[:len(r.conds)]) == tuple(r.conds) for e in stores) for r in hrets)
        ctx.ob("i.table-own-name", h, "columns-renamed", okn and bool(hrets), "appended / prepended rows keep the column names", h.node,
               message=f"{q}: the result columns (fresh vectors from column << cells) are not named after self's columns position by "
                       f"position: the result has no column names")


    # vector (op) table through Vector's own kernel (typed vectors: Python does not try Table's reflected operator first)
    vk = prog.func("vector.Vector._elementwise_operation")
    vi = SInterp(prog, vk)
    OT = ("param", vk.params[1])
    OTd = ("call", ("attr", ("param", vk.params[0]), "_check_duplicate"), (OT,), ())     # other, copied if it is self
    stores = [e for e in vi.events if e.kind == "store" and e.term[0] == "attr" and e.term[2] == "_name"]
    ctx.ob("i.table-own-name", vk, "vector-op-table",
           bool(stores) and all(any(_names_after_self(vi, e, ("call", ("attr", o, "cols"), (), ())) for o in (OT, OTd)) for e in stores),
           "vector (op) table names each result column after the table's column", vk.node,
           message="Vector._elementwise_operation (table on the right): the result columns are not named after the table's columns position by "
                   "position: int_vector + table comes back unnamed while bool_vector + table (Table.__radd__) keeps the names")


def gi_is_row_selection(it, d, gcols) -> bool:
    """(x[key] for x in self._underlying)"""
    o = it.objs[d[1]]
    if o.kind not in ("genexp", "listcomp"):
        return False
    evs = [e for e in it.events if e.kind == "elem" and e.term == d]
    if len(evs) != 1:
        return False
    e = evs[0]
    lps = [L for L in e.loops if L not in o.loops]
    return len(lps) == 1 and it.loops[lps[0]].iter == gcols and e.value[0] == "sub" and e.value[1] == ("elem", gcols, lps[0])


def _names_after_self(it, e, hcols) -> bool:
    """store  <new column k>._name = <column k of self>._name  inside one loop pairing self.cols() with the new columns"""
    tgt, val = e.term, e.value
    if val is None or val[0] != "attr" or val[2] != "_name":
        return False
    src = val[1]
    if src[0] != "elem" or not e.loops:
        return False
    lp = it.loops[src[2]] if src[2] in it.loops else None
    if lp is None:
        return False
    doms = tuple(lp.domain[1]) if lp.domain is not None and lp.domain[0] == "tuple" else (lp.iter,)
    return hcols in doms and src[1] == hcols and tgt[1][0] == "elem" and tgt[1][2] == src[2] and tgt[1] != src


_V, _T = "vector", "table"
MUTANTS = [
    dict(id="column-selection-drops-table-name", module=_T, old="			return Table(selected_cols, name=self._name)", new="			return Table(selected_cols)",
         rules=["i.table-own-name"], desc="reverts fix 9a70a3e (names)"),
    dict(id="column-slice-drops-table-name", module=_T, old="				return Table(selected, name=self._name)", new="				return Table(selected)",
         rules=["i.table-own-name"], desc="reverts fix 9a70a3e (2-D slice)"),
    dict(id="vector-op-table-named-like-table", module=_V, old="			return other.copy(result_cols, name=None)", new="			return other.copy(result_cols)",
         rules=["a.math-unnamed"], desc="reverts fix 48a9ca2 (arithmetic)"),
    dict(id="vector-compare-table-named-like-table", module=_V, old="				for col in other.cols()\n			), name=None)", new="				for col in other.cols()\n			))",
         rules=["a.math-unnamed"], desc="reverts fix 48a9ca2 (comparison)"),
    dict(id="table-bit-lshift-inherited", module=_T, old="	def bit_lshift(self, other):", new="	def _unused_bit_lshift(self, other):",
         rules=["d.table-scalar"], desc="reverts fix fba6f9b"),
    dict(id="inner-join-empty-result-without-columns", module="table",
         old="		# (an empty result is a table with zero rows that still has every column, under its name)\n",
         new="		if all(len(col) == 0 for col in result_data):\n			return Table(())\n", rules=["f.joins"],
         desc="the defect repaired by fix eb6f046"),
    dict(id="table-compare-stale-positionals", module=_T, count=2, nth=1,
         old="		return Vector(tuple(op(x, other) for x in self.cols()))", new="		return Vector(tuple(op(x, other) for x in self.cols()), False, bool, True)",
         rules=["a.math-unnamed"], desc="reverts fix 0387431: (t > 2).name is <class 'bool'>"),
    dict(id="dropna-drops-name", module=_V, old="			name=self._name, as_row=self._display_as_row)\n\n	def isna", new="			as_row=self._display_as_row)\n\n	def isna",
         rules=["b.structure-keeps"], desc="reverts fix abbe1df"),
    dict(id="table-mask-drops-own-name", module=_T, count=5, nth=1, old="				dtype = self._dtype,\n				name=self._name\n			)",
         new="				dtype = self._dtype\n			)", rules=["i.table-own-name"], desc="reverts fix bf695ed for the mask branch"),
    dict(id="sort-by-drops-own-name", module=_T, old="		return Table(new_cols, name=self._name)\n\n	def peek", new="		return Table(new_cols)\n\n	def peek",
         rules=["i.table-own-name"]),
    dict(id="lshift-columns-unnamed", module=_T,
         old="		return self._named_like_self(tuple(x << y for x, y in zip(self.cols(), other, strict=True)))",
         new="		return Vector(tuple(x << y for x, y in zip(self.cols(), other, strict=True)))", rules=["i.table-own-name"],
         desc="reverts fix ca61f9e for the row form: (t << rows) has no column names"),
    dict(id="table-rlshift-removed", module=_T, old="	def __rlshift__(self, other):", new="	def _unused_rlshift(self, other):", rules=["i.table-own-name"],
         desc="reverts fix 2d82ad0: rows << table runs Vector.__rlshift__ over the column vectors"),
    dict(id="vector-op-table-unnamed", module=_V, old="			for orig_col, result_col in zip(other.cols(), result_cols):\n				result_col._name = orig_col._name\n				result_col._wild = orig_col._wild\n",
         new="", rules=["i.table-own-name"], desc="reverts fix d8d6f53"),
    dict(id="arithmetic-keeps-name", module=_V, count=1,
         old="			return Vector(result_values,\n							dtype=result_dtype,\n							name=None,\n							as_row=self._display_as_row)\n		except TypeError as e:",
         new="			return Vector(result_values,\n							dtype=result_dtype,\n							name=self._name,\n							as_row=self._display_as_row)\n		except TypeError as e:",
         rules=["a.math-unnamed"]),
    dict(id="slice-clears-name", module=_V, old="			return self.copy(self._underlying[key], name=self._name)", new="			return self.copy(self._underlying[key], name=None)",
         rules=["b.structure-keeps"]),
    dict(id="join-right-names-from-left", module=_T, count=1,
         old="		base = n_left_cols\n		for offset, orig_col in enumerate(right_cols):\n			result_cols.append(Vector(result_data[base + offset], name=orig_col._name))\n		\n		return Table(result_cols)\n	\n	def aggregate(",
         new="		base = n_left_cols\n		for offset, orig_col in enumerate(right_cols):\n			result_cols.append(Vector(result_data[base + offset], name=left_cols[0]._name))\n		\n		return Table(result_cols)\n	\n	def aggregate(",
         rules=["f.joins"]),
    dict(id="binary-name-keeps-right", module=_T, old="	if left_name is None:\n		# Case B: left unnamed, right named\n		return (None, \"right-named-left-unnamed\")",
         new="	if left_name is None:\n		# Case B: left unnamed, right named\n		return (right_name, \"right-named-left-unnamed\")", rules=["d.table-table"]),
    dict(id="binary-name-falsy", module=_T, old="	if right_name is None or right_name == left_name:", new="	if not right_name or right_name == left_name:",
         rules=["d.table-table"]),
    dict(id="aggregate-key-bypasses-uniquify", module=_T, old="				key_name = uniquify(col._name if col._name is not None else \"key\")\n			result_cols.append(Vector(values, name=key_name))",
         new="				key_name = col._name if col._name is not None else \"key\"\n			result_cols.append(Vector(values, name=key_name))", rules=["g.aggregate-window"]),
    dict(id="aggregate-key-name-falsy", module=_T, count=2, nth=0, old="col._name if col._name is not None else \"key\"", new="col._name or \"key\"",
         rules=["g.aggregate-window"], desc="a key column named '' is renamed to 'key' (and pushes a real 'key' column to 'key2')"),
    dict(id="twin-key-name-none-first", module=_T, twin=True, count=2, nth=0, old="col._name if col._name is not None else \"key\"",
         new="\"key\" if col._name is None else col._name"),
    dict(id="window-uniquify-counter", module=_T,
         old="			i = 2\n			while f\"{name}{i}\" in used:\n				i += 1\n			final = f\"{name}{i}\"\n			used.add(final)\n			return final",
         new="			i = len([u for u in used if u.startswith(name)]) + 1\n			final = f\"{name}{i}\"\n			used.add(final)\n			return final",
         rules=["g.aggregate-window"]),
    dict(id="init-restores-shifted", module=_T, old="					self._underlying[i]._name = col_name", new="					self._underlying[i - 1]._name = col_name",
         rules=["e.construction"]),
    dict(id="rshift-renames-source", module=_T, old="					col = values.copy()  # Copy to prevent aliasing", new="					col = values",
         rules=["e.construction"]),
    dict(id="sort-by-drops-names", module=_T, old="			new_cols.append(Vector(new_data, dtype=col._dtype, name=col._name))\n\n		return Table(new_cols, name=self._name)",
         new="			new_cols.append(Vector(new_data, dtype=col._dtype))\n\n		return Table(new_cols, name=self._name)", rules=["h.table-selections"]),
    dict(id="cast-drops-name", module=_V, old="		return Vector(tuple(out), dtype=new_dtype, name=self._name, as_row=self._display_as_row)",
         new="		return Vector(tuple(out), dtype=new_dtype, as_row=self._display_as_row)", rules=["b.structure-keeps"]),
    dict(id="table-scalar-names-shifted", module=_T, old="				result_col._name = orig_col._name\n				result_col._wild = orig_col._wild",
         new="				result_col._name = self.cols()[0]._name\n				result_col._wild = orig_col._wild", rules=["d.table-scalar"]),
    dict(id="twin-compare-name-explicit-none", module=_V, twin=True, count=3, nth=0,
         old="return Vector(result_values, dtype=DataType(bool, nullable=False))", new="return Vector(result_values, dtype=DataType(bool, nullable=False), name=None)"),
]

"""Rule bodies shared by C09 (inner join), C10 (outer joins) and C18 (join naming)."""
from __future__ import annotations

import ast
from typing import Dict, List, Optional, Set, Tuple

from ..astutil import Defs, is_range_of, loads, none_test
from ..core import AnalysisError, attr_chain, kwarg, short, walk_no_nested, walk_stmts
from ..effects import CACHE_FIELDS, effects_of
from ..joins import Append, JoinFacts, _callee


# --------------------------------------------------------------------------- a
def key_symmetry(ctx, jf: JoinFacts) -> None:
    f = jf.f
    problems: List[Tuple[str, ast.AST]] = []
    # pairs = self._validate_join_keys(other, left_on, right_on)
    c = jf.pairs_call
    args = [a.id if isinstance(a, ast.Name) else None for a in c.args]
    recv = attr_chain(c.func.value)
    if recv != [jf.p_self] or args != [jf.p_other, jf.p_left_on, jf.p_right_on] or c.keywords:
        problems.append((f"key pairs are built by `{short(c)}`, expected "
                         f"{jf.p_self}._validate_join_keys({jf.p_other}, {jf.p_left_on}, {jf.p_right_on})", c))
    if jf.left_keys is None or jf.right_keys is None:
        problems.append((f"left/right key lists are not the first/second projection of `{jf.pairs_var}` "
                         f"(found projections {jf.key_proj})", jf.pairs_stmt))
    # no other binding of the key lists
    for nm in (jf.left_keys, jf.right_keys):
        if nm and len(jf.defs.assigns.get(nm, [])) != 1:
            problems.append((f"`{nm}` is bound more than once", f.node))
    ki = jf.key_expr(jf.index_loop)
    kp = jf.key_expr(jf.probe_loop)
    if ki is None:
        problems.append(("index key is not `tuple(col[row] for col in <right keys>)`", jf.index_loop))
    else:
        keys, rowvar, st = ki
        lv = jf.index_loop.target.id if isinstance(jf.index_loop.target, ast.Name) else None
        if keys != jf.right_keys or rowvar != lv:
            problems.append((f"index key is built from `{keys}` at row `{rowvar}`; must be the right keys "
                             f"`{jf.right_keys}` at the index loop variable `{lv}`", st))
    if kp is None:
        problems.append(("probe key is not `tuple(col[row] for col in <left keys>)`", jf.probe_loop))
    else:
        keys, rowvar, st = kp
        lv = jf.probe_loop.target.id if isinstance(jf.probe_loop.target, ast.Name) else None
        if keys != jf.left_keys or rowvar != lv:
            problems.append((f"probe key is built from `{keys}` at row `{rowvar}`; must be the left keys "
                             f"`{jf.left_keys}` at the probe loop variable `{lv}`", st))
    # the key variable probed / stored is the key just built
    if ki and kp:
        for loop, (keys, rowvar, st) in ((jf.index_loop, ki), (jf.probe_loop, kp)):
            kname = st.targets[0].id if isinstance(st.targets[0], ast.Name) else None
            for n in walk_no_nested(loop):
                if isinstance(n, ast.Call) and _callee(n) in jf.index_get:
                    if not (len(n.args) == 1 and isinstance(n.args[0], ast.Name) and n.args[0].id == kname):
                        problems.append((f"index lookup `{short(n)}` does not use the key built in this iteration `{kname}`", n))
            rebinds = [s for s in walk_stmts(loop.body) if isinstance(s, (ast.Assign, ast.AugAssign))
                       and any(isinstance(t, ast.Name) and t.id == kname for t in
                               (s.targets if isinstance(s, ast.Assign) else [s.target]))]
            if len(rebinds) != 1:
                problems.append((f"the key variable `{kname}` is rebound inside the loop", loop))
        st = jf.index_first_store
        kname = ki[2].targets[0].id
        if not (isinstance(st.targets[0].slice, ast.Name) and st.targets[0].slice.id == kname):
            problems.append((f"index entry is stored under `{short(st.targets[0].slice)}`, not the key `{kname}`", st))
    # _validate_join_keys returns (left_col, right_col) pairs in that order
    problems += _validate_join_keys_shape(ctx)
    # _resolve_column delegates string specs to __getitem__
    problems += _resolve_column_shape(ctx)
    ok = not problems
    ctx.ob("a.key-symmetry", f, "keys", ok, f"{jf.variant}: key pairing/projection/probing consistent",
           problems[0][1] if problems else f.node,
           message=f"{jf.variant}: " + "; ".join(p for p, _ in problems))


def _validate_join_keys_shape(ctx) -> List[Tuple[str, ast.AST]]:
    f = ctx.prog.func("table.Table._validate_join_keys")
    d = Defs(f)
    probs = []
    p = f.params  # self, other, left_on, right_on
    apps = [n for n in walk_no_nested(f.node) if isinstance(n, ast.Call) and isinstance(n.func, ast.Attribute)
            and n.func.attr == "append" and len(n.args) == 1 and isinstance(n.args[0], ast.Tuple)
            and len(n.args[0].elts) == 2]
    rets = [s for s in walk_stmts(f.body) if isinstance(s, ast.Return) and s.value is not None]
    if len(apps) != 1 or len(rets) != 1 or not isinstance(rets[0].value, ast.Name) \
            or attr_chain(apps[0].func.value) != [rets[0].value.id]:
        return [("_validate_join_keys: cannot find the single `pairs.append((left_col, right_col))` / `return pairs`", f.node)]
    lcol, rcol = apps[0].args[0].elts
    loop = None
    for s in walk_stmts(f.body):
        if isinstance(s, ast.For) and any(x is apps[0] for x in walk_no_nested(s)):
            loop = s
    if loop is None:
        return [("_validate_join_keys: pair construction is not in a loop", f.node)]
    # for i, (left_spec, right_spec) in enumerate(zip(left_on, right_on))
    it = loop.iter
    z = it.args[0] if (isinstance(it, ast.Call) and isinstance(it.func, ast.Name) and it.func.id == "enumerate" and it.args) else it
    if not (isinstance(z, ast.Call) and isinstance(z.func, ast.Name) and z.func.id == "zip" and len(z.args) == 2
            and [a.id if isinstance(a, ast.Name) else None for a in z.args] == [p[2], p[3]]):
        probs.append((f"_validate_join_keys pairs `{short(it)}`, expected zip({p[2]}, {p[3]})", loop))
        return probs
    tgt = loop.target.elts[1] if (isinstance(loop.target, ast.Tuple) and isinstance(it, ast.Call)
                                  and isinstance(it.func, ast.Name) and it.func.id == "enumerate") else loop.target
    if not (isinstance(tgt, ast.Tuple) and len(tgt.elts) == 2 and all(isinstance(e, ast.Name) for e in tgt.elts)):
        probs.append(("_validate_join_keys: loop target is not (left_spec, right_spec)", loop))
        return probs
    lspec, rspec = tgt.elts[0].id, tgt.elts[1].id

    def resolved_from(col: ast.AST, table: str, spec: str) -> bool:
        v = d.resolve(col)
        if not isinstance(v, ast.Call):
            return False
        names = [a.id if isinstance(a, ast.Name) else None for a in v.args]
        return len(names) >= 2 and names[0] == table and names[1] == spec

    if not resolved_from(lcol, p[0], lspec):
        probs.append((f"_validate_join_keys: first pair component `{short(d.resolve(lcol))}` is not the LEFT spec resolved in self", apps[0]))
    if not resolved_from(rcol, p[1], rspec):
        probs.append((f"_validate_join_keys: second pair component `{short(d.resolve(rcol))}` is not the RIGHT spec resolved in other", apps[0]))
    # length guards len(left_col) != len(self) and len(right_col) != len(other) raise
    guards = {"left": False, "right": False}
    for s in loop.body:
        if isinstance(s, ast.If) and any(isinstance(b, ast.Raise) for b in s.body) and isinstance(s.test, ast.Compare) \
                and len(s.test.ops) == 1 and isinstance(s.test.ops[0], ast.NotEq):
            txt = short(s.test)
            if txt == f"len({short(lcol)}) != len({p[0]})":
                guards["left"] = True
            if txt == f"len({short(rcol)}) != len({p[1]})":
                guards["right"] = True
    if not all(guards.values()):
        probs.append((f"_validate_join_keys: key length guard missing for {[k for k, v in guards.items() if not v]} side", loop))
    return probs


def _resolve_column_shape(ctx) -> List[Tuple[str, ast.AST]]:
    f = ctx.prog.func("table.Table._resolve_column")
    spec = f.params[1]
    for s in f.body:
        if isinstance(s, ast.If) and short(s.test) == f"isinstance({spec}, str)":
            if len(s.body) == 1 and isinstance(s.body[0], ast.Return) and short(s.body[0].value) == f"self[{spec}]":
                return []
            return [(f"_resolve_column resolves a name by `{short(s.body[0], 60)}`, not by string indexing self[{spec}] "
                     f"(stored-name lookup, first occurrence)", s)]
    return [("_resolve_column: string branch not found", f.node)]


# --------------------------------------------------------------------------- b
def loops(ctx, jf: JoinFacts) -> None:
    f = jf.f
    problems: List[Tuple[str, ast.AST]] = []
    if jf.loop_range_of(jf.index_loop) != "RIGHT-ROWS":
        problems.append((f"index loop ranges over `{short(jf.index_loop.iter)}`, not range(len({jf.p_other}))", jf.index_loop))
    if jf.loop_range_of(jf.probe_loop) != "LEFT-ROWS":
        problems.append((f"probe loop ranges over `{short(jf.probe_loop.iter)}`, not range(len({jf.p_self}))", jf.probe_loop))
    # the index loop is a top-level statement that precedes the probe loop (checked by extraction order)
    top = jf.top
    if top.index(jf.index_loop) > top.index(jf.probe_loop):
        problems.append(("the probe loop runs before the index is built", jf.probe_loop))
    # bucket discipline inside the index loop
    lv = jf.index_loop.target.id if isinstance(jf.index_loop.target, ast.Name) else None
    st = jf.index_first_store
    if not (isinstance(st.value.elts[0], ast.Name) and st.value.elts[0].id == lv):
        problems.append((f"a new bucket starts with `{short(st.value.elts[0])}`, not the row index `{lv}`", st))
    buckets = jf.bucket_vars()
    n_append = 0
    for n in walk_no_nested(f.node):
        # mutations of the index
        if isinstance(n, ast.Call) and isinstance(n.func, ast.Attribute):
            ch = attr_chain(n.func.value)
            if ch == [jf.index_var] and n.func.attr not in ("get", "items", "keys", "values", "__contains__"):
                problems.append((f"the index is modified by .{n.func.attr}()", n))
            if ch and len(ch) == 1 and ch[0] in buckets:
                if n.func.attr == "append":
                    inside = any(x is n for x in walk_no_nested(jf.index_loop))
                    if not inside:
                        problems.append(("a bucket is appended to outside the index loop", n))
                    elif not (len(n.args) == 1 and isinstance(n.args[0], ast.Name) and n.args[0].id == lv):
                        problems.append((f"bucket receives `{short(n.args[0])}`, not the row index `{lv}`", n))
                    else:
                        n_append += 1
                elif n.func.attr in ("insert", "sort", "reverse", "pop", "remove", "extend", "clear"):
                    problems.append((f"bucket order/content is changed by .{n.func.attr}() (right-minor order is lost)", n))
        if isinstance(n, ast.Call) and isinstance(n.func, ast.Name) and n.func.id in ("sorted", "reversed", "set") \
                and n.args and isinstance(n.args[0], ast.Name) and n.args[0].id in buckets:
            problems.append((f"a bucket is passed through {n.func.id}() before emission (right-minor order is lost)", n))
    if n_append != 1:
        problems.append((f"expected exactly one `bucket.append(row)` in the index loop, found {n_append}", jf.index_loop))
    for s in walk_stmts(f.body):
        tg = s.targets if isinstance(s, ast.Assign) else [s.target] if isinstance(s, (ast.AugAssign,)) else \
            s.targets if isinstance(s, ast.Delete) else []
        for t in tg:
            if isinstance(t, ast.Subscript) and isinstance(t.value, ast.Name) and t.value.id == jf.index_var \
                    and s is not jf.index_first_store:
                problems.append(("the index is written outside the first-sight store", s))
    # every right row is indexed: nothing in the index loop can skip or stop
    for s_ in walk_stmts(jf.index_loop.body):
        if isinstance(s_, (ast.Continue, ast.Break, ast.Return)):
            problems.append((f"`{type(s_).__name__.lower()}` in the index loop (line {s_.lineno}): some right rows would not be indexed "
                             f"(e.g. keys containing None) although they are key-equal to left rows", s_))
    # first-sight test: `bucket is None` -> store, else append
    fs_guards = _guards_of(jf, jf.index_first_store)
    okfs = False
    for t, pol in fs_guards:
        nt = none_test(t)
        if nt and nt[0] in buckets and ((nt[1] and pol) or (not nt[1] and not pol)):
            okfs = True
    if not okfs:
        problems.append(("a new bucket is not created exactly when the key has no bucket yet (`bucket is None`)", jf.index_first_store))
    # emission iterates buckets directly
    for s in walk_stmts(jf.probe_loop.body):
        if isinstance(s, ast.For) and loads(s.iter) & buckets:
            if not (isinstance(s.iter, ast.Name) and s.iter.id in buckets):
                problems.append((f"matched rows are emitted over `{short(s.iter)}`, not over the bucket in stored order", s))
    ctx.ob("b.loops", f, "loops", not problems, f"{jf.variant}: index over all right rows, probe over all left rows, "
           f"buckets ascending and emitted in stored order", problems[0][1] if problems else f.node,
           message=f"{jf.variant}: " + "; ".join(p for p, _ in problems))


def _guards_of(jf: JoinFacts, target: ast.stmt):
    from .c11 import _guards
    return _guards(jf, target)


# --------------------------------------------------------------------------- c
def buffers(ctx, jf: JoinFacts, want_contexts=None, rule: str = "c.buffers") -> None:
    f = jf.f
    problems: List[Tuple[str, ast.AST]] = []
    # buffer count
    comp = jf.result_data_comp
    r = is_range_of(comp.generators[0].iter) if len(comp.generators) == 1 else None
    rr = jf.defs.resolve(r) if r is not None else None
    okn = False
    if isinstance(rr, ast.BinOp) and isinstance(rr.op, ast.Add) and isinstance(rr.left, ast.Name) and isinstance(rr.right, ast.Name):
        okn = (rr.left.id in jf.n_left_cols and rr.right.id in jf.n_right_cols) or \
              (rr.right.id in jf.n_left_cols and rr.left.id in jf.n_right_cols)
    if not okn:
        problems.append((f"result buffers are sized `{short(rr) if rr is not None else '?'}`, expected n_left_cols + n_right_cols", comp))
    apps = jf.appends()
    if not apps:
        problems.append(("no append into the result buffers found", f.node))
    groups: Dict[Tuple[str, int], List[Append]] = {}
    for a in apps:
        if a.context == "?":
            problems.append((f"result rows are emitted outside the probe loop / sweep (`{short(a.node, 60)}`): "
                             f"output order is no longer left-major", a.node))
            continue
        row_loop = _emission_scope(jf, a)
        groups.setdefault((a.context, id(row_loop)), []).append(a)
        if a.buf_side == "?":
            problems.append((f"buffer index `{a.buf_index}` is neither a left column index nor n_left_cols + right offset", a.node))
        if a.context == "matched":
            want = f"{a.buf_side}-ROW"
            if a.value_kind != want:
                problems.append((f"{a.buf_side} buffer receives {a.value_kind} ({a.value_detail}); must receive the "
                                 f"{a.buf_side.lower()} row's value of the same column", a.node))
            if a.loop_domain != f"{a.buf_side}-COLS":
                problems.append((f"{a.buf_side} buffers are filled in a loop over {a.loop_domain}", a.node))
    for (context, _), lst in groups.items():
        sides = sorted(a.buf_side for a in lst)
        if sides != ["LEFT", "RIGHT"]:
            problems.append((f"an emitted row in the {context} block writes buffer blocks {sides}; every emitted row must write "
                             f"each LEFT and each RIGHT column exactly once", lst[0].node))
    ctxs = {c for c, _ in groups}
    if want_contexts is not None and not set(want_contexts) <= ctxs:
        problems.append((f"emission blocks found: {sorted(ctxs)}, expected {list(want_contexts)}", f.node))
    # in the matched block the per-column loops are direct children of the bucket loop (once per bucket element)
    for a in apps:
        if a.context == "matched":
            loops_ = [p for p in a.path if isinstance(p, ast.For)]
            conds = [p for p in a.path if isinstance(p, tuple)]
            bucket_loop = next((p for p in loops_ if isinstance(p.iter, ast.Name) and jf._is_bucket(p.iter.id)), None)
            if bucket_loop is None:
                continue
            inner = loops_[loops_.index(bucket_loop) + 1:]
            if len(inner) != 1:
                problems.append((f"append is nested in {len(inner)} loops below the bucket loop (expected the per-column loop only)", a.node))
            for pol, ifst in conds:
                if any(x is ifst for x in walk_stmts(bucket_loop.body)):
                    problems.append((f"append inside the bucket loop is conditional on `{short(ifst.test, 50)}`", a.node))
    ctx.ob(rule, f, "buffers", not problems,
           f"{jf.variant}: {len(apps)} append site(s) in blocks {sorted(ctxs)} obey LEFT<->left-row / RIGHT<->right-row",
           problems[0][1] if problems else f.node, message=f"{jf.variant}: " + "; ".join(p for p, _ in problems))


def _emission_scope(jf: JoinFacts, a: Append):
    """The statement list owner that corresponds to ONE emitted row."""
    loops_ = [p for p in a.path if isinstance(p, ast.For)]
    if a.context == "matched":
        for p in loops_:
            if isinstance(p.iter, ast.Name) and jf._is_bucket(p.iter.id):
                return p
    if a.context == "unmatched-left":
        return jf.probe_loop
    if a.context == "sweep":
        return jf.sweep_loop
    return None


# --------------------------------------------------------------------------- d
def inner_unmatched(ctx, jf: JoinFacts) -> None:
    f = jf.f
    problems: List[Tuple[str, ast.AST]] = []
    buckets = jf.bucket_vars()
    conts = [s for s in walk_stmts(jf.probe_loop.body) if isinstance(s, (ast.Continue, ast.Break))]
    rets = [s for s in walk_stmts(jf.probe_loop.body) if isinstance(s, ast.Return)]
    for s in rets:
        problems.append(("the probe loop can return early", s))
    for s in conts:
        if isinstance(s, ast.Break):
            problems.append(("the probe loop can stop early (break): later left rows are dropped", s))
            continue
        g = _guards_of(jf, s)
        if len(g) == 1 and g[0][1] and isinstance(g[0][0], ast.UnaryOp) and isinstance(g[0][0].op, ast.Not) \
                and isinstance(g[0][0].operand, ast.Name) and g[0][0].operand.id in buckets:
            continue
        if len(g) == 1 and g[0][1]:
            nt = none_test(g[0][0])
            if nt and nt[0] in buckets and nt[1]:
                continue
        problems.append((f"a left row is skipped under `{' and '.join(short(t, 40) for t, _ in g)}`; only a key without "
                         f"bucket may be skipped", s))
    # the bucket loop must be reached whenever the bucket is non-empty: it is a direct child of the probe loop body
    # (or of `if matches:`)
    bl = [s for s in walk_stmts(jf.probe_loop.body) if isinstance(s, ast.For) and isinstance(s.iter, ast.Name)
          and s.iter.id in buckets]
    if len(bl) != 1:
        problems.append((f"expected one emission loop over the bucket, found {len(bl)}", jf.probe_loop))
    else:
        g = _guards_of(jf, bl[0])
        for t, pol in g:
            if not (isinstance(t, ast.Name) and t.id in buckets and pol):
                problems.append((f"emission of matched pairs is conditional on `{short(t, 50)}`", bl[0]))
    ctx.ob("d.unmatched", f, "skip-policy", not problems, "inner_join skips exactly the left rows whose key has no bucket",
           problems[0][1] if problems else f.node, message="inner_join: " + "; ".join(p for p, _ in problems))


# --------------------------------------------------------------------------- e
def wrap(ctx, jf: JoinFacts, rule: str = "e.wrap") -> None:
    f = jf.f
    problems: List[Tuple[str, ast.AST]] = []
    rets = [s for s in jf.top if isinstance(s, ast.Return)]
    final = rets[-1] if rets else None
    if final is None or not (isinstance(final.value, ast.Call) and isinstance(final.value.func, ast.Name)
                             and final.value.func.id == "Table" and len(final.value.args) == 1
                             and isinstance(final.value.args[0], ast.Name) and not final.value.keywords):
        ctx.ob(rule, f, "wrap", False, "final return is not Table(<result columns>)", final or f.node,
               message=f"{jf.variant}: final return is not Table(<result columns>)")
        return
    rc = final.value.args[0].id
    wraps = []   # (side, loop, call)
    for st in jf.top:
        if isinstance(st, ast.For):
            for n in walk_no_nested(st):
                if isinstance(n, ast.Call) and attr_chain(n.func) == [rc, "append"]:
                    wraps.append((st, n))
    for n in walk_no_nested(f.node):
        if isinstance(n, ast.Call) and isinstance(n.func, ast.Attribute) and attr_chain(n.func.value) == [rc] \
                and n.func.attr != "append":
            problems.append((f"result column list is modified by .{n.func.attr}()", n))
    sides = []
    for loop, call in wraps:
        it = loop.iter
        if not (isinstance(it, ast.Call) and isinstance(it.func, ast.Name) and it.func.id == "enumerate"
                and len(it.args) == 1 and isinstance(it.args[0], ast.Name) and isinstance(loop.target, ast.Tuple)
                and len(loop.target.elts) == 2 and all(isinstance(e, ast.Name) for e in loop.target.elts)):
            problems.append((f"result columns are wrapped in a loop over `{short(it)}`", loop))
            continue
        dom = it.args[0].id
        side = "LEFT" if dom in jf.left_cols else "RIGHT" if dom in jf.right_cols else "?"
        sides.append(side)
        ivar, cvar = loop.target.elts[0].id, loop.target.elts[1].id
        v = call.args[0] if call.args else None
        v = Defs(f).resolve(v) if isinstance(v, ast.Name) else v
        if not (isinstance(v, ast.Call) and isinstance(v.func, ast.Name) and v.func.id == "Vector"):
            problems.append((f"{side} result column is `{short(v) if v else '?'}`, not a Vector(...) over its buffer", call))
            continue
        data = v.args[0] if v.args else kwarg(v, "initial")
        d2 = jf.defs
        # data may be bound to a local inside the loop body: resolve names assigned in this loop
        if isinstance(data, ast.Name):
            for s in loop.body:
                if isinstance(s, ast.Assign) and isinstance(s.targets[0], ast.Name) and s.targets[0].id == data.id:
                    data = s.value
        okd = isinstance(data, ast.Subscript) and isinstance(data.value, ast.Name) and data.value.id == jf.result_data \
            and jf._buf_side(data.slice, ivar) == side
        if not okd:
            problems.append((f"{side} result column wraps `{short(data) if data is not None else '?'}`, not "
                             f"{jf.result_data}[its own buffer index]", call))
        nm = kwarg(v, "name")
        if nm is None and len(v.args) >= 3:
            nm = v.args[2]
        if not (nm is not None and attr_chain(nm) == [cvar, "_name"]):
            problems.append((f"{side} result column is named `{short(nm) if nm is not None else 'nothing'}`, not the source "
                             f"column's stored name `{cvar}._name`", call))
        if kwarg(v, "dtype") is not None or len(v.args) >= 2:
            problems.append((f"{side} result column is given an explicit dtype `{short(kwarg(v, 'dtype') or v.args[1])}`; "
                             f"join results must be typed by inference over their values (None padding!)", call))
    if sides != ["LEFT", "RIGHT"]:
        problems.append((f"result columns are wrapped in order {sides}, expected all LEFT then all RIGHT", final))
    ctx.ob(rule, f, "wrap", not problems, f"{jf.variant}: columns wrapped left-then-right under source names, dtype inferred",
           problems[0][1] if problems else final, message=f"{jf.variant}: " + "; ".join(p for p, _ in problems))


# --------------------------------------------------------------------------- f
def determinism_of_function(prog, f) -> List[Tuple[str, ast.AST]]:
    """R-DET: no iteration over a set-typed expression; no hash()/id() used as data."""
    problems = []
    d = Defs(f)
    set_names = set()
    for name, lst in d.assigns.items():
        for v, st, how in lst:
            if v is None:
                continue
            if isinstance(v, (ast.Set, ast.SetComp)) or (isinstance(v, ast.Call) and isinstance(v.func, ast.Name)
                                                         and v.func.id in ("set", "frozenset")):
                if how == "assign":
                    set_names.add(name)

    def is_set_expr(e: ast.AST) -> bool:
        if isinstance(e, (ast.Set, ast.SetComp)):
            return True
        if isinstance(e, ast.Call) and isinstance(e.func, ast.Name) and e.func.id in ("set", "frozenset"):
            return True
        if isinstance(e, ast.Name) and e.id in set_names:
            return True
        if isinstance(e, ast.BinOp) and isinstance(e.op, (ast.BitOr, ast.BitAnd, ast.Sub, ast.BitXor)):
            return is_set_expr(e.left) or is_set_expr(e.right)
        return False

    for n in walk_no_nested(f.node):
        if isinstance(n, (ast.For, ast.AsyncFor)) and is_set_expr(n.iter):
            problems.append((f"iteration over a set `{short(n.iter, 50)}`: order depends on the hash seed", n))
        if isinstance(n, (ast.ListComp, ast.GeneratorExp, ast.DictComp)):
            for g in n.generators:
                if is_set_expr(g.iter):
                    problems.append((f"comprehension over a set `{short(g.iter, 50)}`: order depends on the hash seed", n))
        if isinstance(n, ast.Call) and isinstance(n.func, ast.Name) and n.func.id in ("list", "tuple", "next", "iter", "enumerate", "zip") \
                and any(is_set_expr(a) for a in n.args):
            problems.append((f"`{short(n, 60)}` materialises a set in hash order", n))
        if isinstance(n, ast.Call) and isinstance(n.func, ast.Attribute) and n.func.attr == "pop" and is_set_expr(n.func.value):
            problems.append((f"`{short(n, 60)}` takes an arbitrary element of a set", n))
        if isinstance(n, ast.Call) and isinstance(n.func, ast.Name) and n.func.id in ("hash", "id"):
            par = prog.parent(n)
            # allowed: hash(x) as a bare statement inside try (hashability probe)
            if isinstance(par, ast.Expr):
                continue
            problems.append((f"`{short(n, 40)}` is used as data: results may depend on the hash seed / addresses", n))
    return problems


def determinism(ctx, jf: JoinFacts, rule: str = "f.determinism") -> None:
    fns = [jf.f, ctx.prog.func("table.Table._validate_join_keys"),
           ctx.prog.func("table.Table._validate_key_tuple_hashable"), ctx.prog.func("table.Table._resolve_column")]
    problems = []
    for f in fns:
        for msg, node in determinism_of_function(ctx.prog, f):
            problems.append((f"{f.name}: {msg}", node, f))
    ctx.ob(rule, jf.f, "determinism", not problems, f"{jf.variant} and helpers: no set iteration, no hash()/id() as data",
           problems[0][1] if problems else jf.f.node, message=f"{jf.variant}: " + "; ".join(p for p, _, _ in problems))


# --------------------------------------------------------------------------- g
def content_writes(prog, qualname: str, allow_self: bool = False):
    eff = effects_of(prog)
    s = eff.summary(qualname)
    out = []
    for w in s.writes:
        if w.kind == "cache":
            continue
        if allow_self and w.root == "self":
            continue
        out.append(w)
    return sorted(out, key=lambda w: (w.func, w.line, w.fld))


def purity(ctx, variant: str, rule: str = "g.purity") -> None:
    f = ctx.prog.func(f"table.Table.{variant}")
    ws = content_writes(ctx.prog, f.qualname)
    msg = "; ".join(f"writes {w.root}.{w.fld} at {w.func.split('.')[-1]}:{w.line} `{w.text}`" for w in ws[:4])
    ctx.ob(rule, f, "purity", not ws, f"{variant}: no content write on self/other (transitively)", f.node,
           message=f"{variant} modifies its operands: {msg}")


# --------------------------------------------------------------------------- h
def _canon(stmts: List[ast.stmt], drop=lambda s: False) -> str:
    """Alpha-normalised dump of a statement list (names numbered by first occurrence)."""
    import copy
    names: Dict[str, str] = {}

    class R(ast.NodeTransformer):
        def visit_Name(self, n):
            if n.id not in names:
                names[n.id] = f"v{len(names)}"
            return ast.copy_location(ast.Name(id=names[n.id], ctx=n.ctx), n)
    out = []
    for s in stmts:
        if drop(s):
            continue
        s2 = R().visit(copy.deepcopy(s))
        out.append(ast.unparse(s2))
    return "\n".join(out)


def matched_block(jf: JoinFacts) -> Optional[ast.For]:
    buckets = jf.bucket_vars()
    for s in walk_stmts(jf.probe_loop.body):
        if isinstance(s, ast.For) and isinstance(s.iter, ast.Name) and s.iter.id in buckets:
            return s
    return None


def matched_facts(jf: JoinFacts):
    """Fact tuple of the matched-pair emission block (independent of spelling and append idiom)."""
    mb = matched_block(jf)
    if mb is None:
        return None
    apps = [a for a in jf.appends() if a.context == "matched"]
    facts = sorted((a.buf_side, a.value_kind, a.loop_domain,
                    len([p for p in a.path if isinstance(p, ast.For)]),
                    len([p for p in a.path if isinstance(p, tuple)
                         and any(x is p[1] for x in walk_stmts(mb.body))])) for a in apps)
    # statements of the block that are neither per-column loops, nor `base = n_left_cols`, nor matched-set bookkeeping
    other = 0
    for s in mb.body:
        if isinstance(s, ast.For):
            continue
        if isinstance(s, ast.Assign) and isinstance(s.value, ast.Name) and s.value.id in jf.n_left_cols:
            continue
        if isinstance(s, ast.Expr) and isinstance(s.value, ast.Call) and len(s.value.args) == 1 \
                and isinstance(s.value.args[0], ast.Name) and isinstance(mb.target, ast.Name) \
                and s.value.args[0].id == mb.target.id:
            continue      # matched_right_add(right_idx)
        other += 1
    loops_ = [short(s.iter, 40).replace(x, "COLS") for s in mb.body if isinstance(s, ast.For)
              for x in [s.iter.args[0].id if (isinstance(s.iter, ast.Call) and s.iter.args and isinstance(s.iter.args[0], ast.Name)) else "?"]]
    return {"appends": facts, "other_statements": other, "n_column_loops": len(loops_)}


def siblings(ctx, facts: Dict[str, JoinFacts]) -> None:
    if "inner_join" not in facts:
        raise AnalysisError("sibling comparison needs inner_join's facts")
    ref = matched_facts(facts["inner_join"])
    if ref is None:
        raise AnalysisError("inner_join: matched emission block not found")
    for v, jf in facts.items():
        if v == "inner_join":
            continue
        mf = matched_facts(jf)
        ctx.ob("h.siblings", jf.f, "matched-block", mf == ref, f"{v}: matched emission facts equal inner_join's: {mf}",
               matched_block(jf) or jf.f.node,
               message=f"{v}: the matched-pair emission differs from inner_join's (inner ⊆ left ⊆ full is no longer "
                       f"structural): inner_join {ref} vs {v} {mf}")


def no_early_result(ctx, jf: JoinFacts, rule: str) -> None:
    """Every `return` of a join comes after the probe loop (and the sweep): no fast path can bypass emission, padding
    or the cardinality checks that live in the loops."""
    from ..cfg import cfg_of
    f = jf.f
    cfg = cfg_of(f)
    probe = cfg.node_of(jf.probe_loop)
    after = [probe] + ([cfg.node_of(jf.sweep_loop)] if jf.sweep_loop is not None else []) + [cfg.node_of(jf.index_loop)]
    problems = []
    for n in cfg.stmt_nodes():
        if isinstance(n.ast, ast.Return) and cfg.is_reachable(n):
            for lp in after:
                inside = any(x is n.ast for x in walk_stmts(lp.ast.body))
                if inside or not cfg.dominates(lp, n):
                    problems.append((f"`{short(n.ast, 60)}` (line {n.lineno}) can return without running the "
                                     f"{'probe' if lp is probe else 'index' if lp is after[-1] else 'sweep'} loop to completion: rows, None "
                                     f"padding and the uniqueness checks performed there are bypassed", n.ast))
                    break
    ctx.ob(rule, f, "returns", not problems, f"{jf.variant}: every return follows the index, probe (and sweep) loops",
           problems[0][1] if problems else f.node, message=f"{jf.variant}: " + "; ".join(p for p, _ in problems[:2]))


# --------------------------------------------------------------------------- C10
def left_complete(ctx, jf: JoinFacts) -> None:
    """C10.a: every left row emits at least one result row, at its own position."""
    f = jf.f
    problems: List[Tuple[str, ast.AST]] = []
    buckets = jf.bucket_vars()
    for s in walk_stmts(jf.probe_loop.body):
        if isinstance(s, (ast.Continue, ast.Break, ast.Return)):
            problems.append((f"`{type(s).__name__.lower()}` in the probe loop: a left row (or all later ones) can be "
                             f"dropped without emitting", s))
    # the split: `if <bucket>:` matched block else unmatched block, direct child of the probe loop body
    split = None
    for s in jf.probe_loop.body:
        if isinstance(s, ast.If) and isinstance(s.test, ast.Name) and s.test.id in buckets:
            split = s
    if split is None:
        problems.append(("the probe loop body has no `if <bucket>: ... else: ...` split directly in the loop body", jf.probe_loop))
    else:
        mb = [s for s in split.body if isinstance(s, ast.For) and isinstance(s.iter, ast.Name) and s.iter.id in buckets]
        if len(mb) != 1:
            problems.append(("the matched branch does not emit once per bucket element", split))
        if not split.orelse:
            problems.append(("no else branch: an unmatched left row emits nothing", split))
        # both branches must contain LEFT appends (checked by padding/buffers); here: nothing in the branches is conditional
        for s in walk_stmts(split.orelse):
            if isinstance(s, (ast.If, ast.While, ast.Try)):
                problems.append((f"padding of an unmatched left row is conditional on `{short(getattr(s, 'test', s), 50)}`", s))
    ctx.ob("a.left-complete", f, "left-rows", not problems,
           f"{jf.variant}: every probe iteration emits (matched: once per bucket element; unmatched: one padded row)",
           problems[0][1] if problems else f.node, message=f"{jf.variant}: " + "; ".join(p for p, _ in problems))


def padding(ctx, jf: JoinFacts) -> None:
    """C10.b: unmatched-left rows: LEFT <- left row values, RIGHT <- None once per right column."""
    f = jf.f
    problems: List[Tuple[str, ast.AST]] = []
    apps = [a for a in jf.appends() if a.context == "unmatched-left"]
    lefts = [a for a in apps if a.buf_side == "LEFT"]
    rights = [a for a in apps if a.buf_side == "RIGHT"]
    if len(lefts) != 1 or len(rights) != 1 or len(apps) != 2:
        problems.append((f"unmatched-left block has {len(lefts)} LEFT and {len(rights)} RIGHT append site(s) "
                         f"({len(apps)} total); expected exactly one of each", (apps[0].node if apps else jf.probe_loop)))
    for a in lefts:
        if a.value_kind != "LEFT-ROW" or a.loop_domain != "LEFT-COLS":
            problems.append((f"unmatched left row: LEFT buffers receive {a.value_kind} ({a.value_detail}) over {a.loop_domain}; "
                             f"must be the left row's own values over all left columns", a.node))
    for a in rights:
        if a.value_kind != "NONE" or a.loop_domain != "RIGHT-COLS":
            problems.append((f"unmatched left row: RIGHT buffers receive {a.value_kind} ({a.value_detail}) over {a.loop_domain}; "
                             f"must be None once per right column", a.node))
    ctx.ob("b.padding", f, "unmatched-left", not problems, f"{jf.variant}: unmatched left row = left values + None per right column",
           problems[0][1] if problems else f.node, message=f"{jf.variant}: " + "; ".join(p for p, _ in problems))


def sweep(ctx, jf: JoinFacts) -> None:
    """C10.c: full join appends every right row that matched nothing, in right-table order."""
    f = jf.f
    problems: List[Tuple[str, ast.AST]] = []
    d = jf.defs
    # matched set
    sets = [n for n, lst in d.assigns.items() if any(
        how == "assign" and isinstance(v, ast.Call) and isinstance(v.func, ast.Name) and v.func.id == "set" and not v.args
        for v, _, how in lst)]
    mb = matched_block(jf)
    bucket_var = mb.target.id if (mb is not None and isinstance(mb.target, ast.Name)) else None
    matched_set = None
    add_names: Set[str] = set()
    for sname in sets:
        aliases = {f"{sname}.add"} | {n for n, lst in d.assigns.items()
                                      if any(how == "assign" and attr_chain(v) == [sname, "add"] for v, _, how in lst if v is not None)}
        if mb is not None:
            for s in mb.body:
                if isinstance(s, ast.Expr) and isinstance(s.value, ast.Call) and _callee(s.value) in aliases \
                        and len(s.value.args) == 1 and isinstance(s.value.args[0], ast.Name) \
                        and s.value.args[0].id == bucket_var:
                    matched_set, add_names = sname, aliases
    if matched_set is None:
        problems.append(("no set records the right row of every emitted pair (an `add(right_idx)` directly in the "
                         "matched emission loop)", mb or jf.probe_loop))
    if jf.sweep_loop is None:
        problems.append(("no sweep loop over the right rows after the probe loop", f.node))
    if matched_set is not None and jf.sweep_loop is not None:
        # other writes to the matched set
        for n in walk_no_nested(f.node):
            if isinstance(n, ast.Call) and _callee(n) in add_names:
                if mb is None or not any(x is n for x in walk_no_nested(mb)):
                    problems.append(("a right row is marked as matched outside the matched emission loop", n))
            if isinstance(n, ast.Call) and isinstance(n.func, ast.Attribute) and attr_chain(n.func.value) == [matched_set] \
                    and n.func.attr not in ("add",):
                problems.append((f"the matched set is modified by .{n.func.attr}()", n))
        sl = jf.sweep_loop
        if jf.loop_range_of(sl) != "RIGHT-ROWS":
            problems.append((f"the sweep ranges over `{short(sl.iter)}`, not range(len({jf.p_other})): unmatched right rows "
                             f"would not come out in right-table order (or not all of them)", sl))
        sv = sl.target.id if isinstance(sl.target, ast.Name) else None
        if not (len(sl.body) == 1 and isinstance(sl.body[0], ast.If) and not sl.body[0].orelse):
            problems.append(("the sweep body is not a single `if row not in matched:` block", sl))
        else:
            t = sl.body[0].test
            if not (isinstance(t, ast.Compare) and len(t.ops) == 1 and isinstance(t.ops[0], ast.NotIn)
                    and isinstance(t.left, ast.Name) and t.left.id == sv and isinstance(t.comparators[0], ast.Name)
                    and t.comparators[0].id == matched_set):
                problems.append((f"the sweep emits under `{short(t)}`, expected `{sv} not in {matched_set}`", sl.body[0]))
        top = jf.top
        if top.index(sl) < top.index(jf.probe_loop):
            problems.append(("the sweep runs before the probe loop", sl))
        apps = [a for a in jf.appends() if a.context == "sweep"]
        lefts = [a for a in apps if a.buf_side == "LEFT"]
        rights = [a for a in apps if a.buf_side == "RIGHT"]
        if len(lefts) != 1 or len(rights) != 1 or len(apps) != 2:
            problems.append((f"sweep block has {len(lefts)} LEFT / {len(rights)} RIGHT append site(s), expected one of each",
                             apps[0].node if apps else sl))
        for a in lefts:
            if a.value_kind != "NONE" or a.loop_domain != "LEFT-COLS":
                problems.append((f"sweep: LEFT buffers receive {a.value_kind} over {a.loop_domain}; must be None once per left column", a.node))
        for a in rights:
            if a.value_kind != "RIGHT-ROW" or a.loop_domain != "RIGHT-COLS":
                problems.append((f"sweep: RIGHT buffers receive {a.value_kind} ({a.value_detail}) over {a.loop_domain}; must be "
                                 f"the swept right row's values over all right columns", a.node))
    ctx.ob("c.sweep", f, "sweep", not problems, "full_join: matched right rows recorded per emitted pair; sweep over all right "
           "rows in order emits exactly the unrecorded ones with None in every left column",
           problems[0][1] if problems else f.node, message="full_join: " + "; ".join(p for p, _ in problems))

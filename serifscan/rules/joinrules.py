"""Rule bodies shared by C09 (inner join), C10 (outer joins), C11 (cardinality) and C18 (join naming).

All structural rules are stated over the semantic JoinModel (joinsx.py) read off the symx event log: they do not
depend on how the loops, index expressions, helpers or guard clauses are written."""
from __future__ import annotations

import ast
from typing import Dict, List, Optional, Set, Tuple

from ..astutil import Defs, is_range_of, loads, none_test
from ..core import AnalysisError, attr_chain, kwarg, short, walk_no_nested, walk_stmts
from ..effects import CACHE_FIELDS, effects_of
from ..joinsx import NL, NR, TOTAL, ZERO, Emission, JoinModel, lin_add, lin_show
from ..symx import NONE, Event, callee, const, elements, kw, show, show_conds, subterms


def _callee(call: ast.Call) -> Optional[str]:
    ch = attr_chain(call.func)
    return ".".join(ch) if ch else None


# --------------------------------------------------------------------------- a
def key_symmetry(ctx, jm: JoinModel) -> None:
    f, it = jm.f, jm.it
    problems: List[Tuple[str, ast.AST]] = []
    pc = jm.pairs
    want = ("call", ("attr", jm.S, "_validate_join_keys"), (jm.O, ("param", jm.p[2]), ("param", jm.p[3])), ())
    if pc != want:
        problems.append((f"key pairs are built by `{jm.sh(pc)}`, expected {jm.sh(want)}", jm.pairs_ev.node))
    # every consultation / update of the index uses the key of ITS side at ITS loop's row
    for e in it.events:
        terms = [e.term] + ([e.value] if e.value is not None else [])
        for c, _ in e.conds:
            terms.append(c)
        for top in terms:
            for t in subterms(top):
                k = None
                if t[0] == "call" and t[1][0] == "attr" and t[1][1] == jm.index and t[1][2] in ("get", "setdefault", "pop", "__contains__") and t[2]:
                    k = ("arg", t[2][0])
                elif t[0] == "sub" and t[1] == jm.index:
                    k = ("arg", t[2])
                elif t[0] == "cmp" and t[1] == "In" and t[3] == jm.index:
                    k = ("arg", t[2])
                if k is None:
                    continue
                key = jm.key_of(k[1])
                if jm.index_loop in e.loops:
                    if key != ("R", ("idx", jm.index_loop)):
                        problems.append((f"in the index loop the index is addressed by `{jm.sh(k[1])}`, not by the RIGHT keys of the "
                                         f"row being indexed", e.node))
                elif jm.probe_loop in e.loops:
                    if key != ("L", ("idx", jm.probe_loop)):
                        problems.append((f"in the probe loop the index is addressed by `{jm.sh(k[1])}`, not by the LEFT keys of the "
                                         f"row being probed", e.node))
                else:
                    problems.append((f"the index is addressed outside the index and probe loops (`{jm.sh(t)}`)", e.node))
    # _validate_join_keys returns (left_col, right_col) pairs in that order
    problems += _validate_join_keys_shape(ctx)
    # _resolve_column delegates string specs to __getitem__
    problems += _resolve_column_shape(ctx)
    seen = set()
    problems = [p for p in problems if not (p[0] in seen or seen.add(p[0]))]
    ctx.ob("a.key-symmetry", f, "keys", not problems, f"{jm.variant}: key pairing/projection/probing consistent",
           problems[0][1] if problems else f.node,
           message=f"{jm.variant}: " + "; ".join(p for p, _ in problems))


def key_validation(ctx, rule: str = "a.key-validation") -> None:
    """_validate_join_keys on its symx event log: no rejection may depend on a key column's schema other than through its KIND
    (or its absence): keys with None on one side, i.e. columns that differ only in nullability, are admissible inputs; and the
    admitted kinds include every kind the statement quantifies over."""
    from ..sites2 import interp_of
    from ..symx import flatten_conds
    prog = ctx.prog
    f = prog.func("table.Table._validate_join_keys")
    it = interp_of(prog, f)
    problems: List[Tuple[str, ast.AST]] = []
    n = 0

    def schema_uses(t, parent=None, out=None):
        """(schema term, how it is used) for every use of <x>.schema() inside t"""
        out = [] if out is None else out
        if not isinstance(t, tuple) or not t:
            return out
        if t[0] == "call" and t[1][0] == "attr" and t[1][2] == "schema" and not t[2]:
            out.append((t, parent))
        if t[0] == "const":
            return out
        for x in t:
            if isinstance(x, tuple):
                schema_uses(x, t if t[0] in ("attr", "cmp", "call", "bool", "un") else parent, out)
        return out
    for e in it.events:
        if e.kind != "raise":
            continue
        n += 1
        for t, pol in flatten_conds(e.conds):
            for sc, par in schema_uses(t):
                ok = par is not None and ((par[0] == "attr" and par[1] == sc and par[2] == "kind")
                                          or (par[0] == "cmp" and par[1] in ("Is", "IsNot") and NONE in (par[2], par[3])))
                if not ok:
                    problems.append((f"`raise {show(e.term, it)[:40]}` (line {getattr(e.node, 'lineno', '?')}) depends on a key column's schema "
                                     f"through `{show(par, it)[:60] if par else show(t, it)[:60]}`, not only through its kind: key columns that "
                                     f"differ in nullability only (a None on one side) would be rejected", e.node))
            # the two kinds differ: refused only when NEITHER is object - a column without a typed value (all None, e.g. the padded
            # side of an earlier left join) is inferred as <object?> and must join like any other (its rows simply match nothing)
            if t[0] == "cmp" and t[1] in ("Is", "Eq") and not pol and t[2][0] == "attr" and t[2][2] == "kind" and t[3][0] == "attr" \
                    and t[3][2] == "kind" and t[2] != t[3]:
                k1, k2 = t[2], t[3]
                obj = ("name", "object")
                excl = set()
                for u, upol in flatten_conds(e.conds):
                    if u[0] == "cmp" and u[1] == "In" and not upol and u[2] == obj and u[3][0] == "tuple":
                        excl |= set(u[3][1])
                    if u[0] == "cmp" and u[1] in ("Is", "Eq") and not upol and obj in (u[2], u[3]):
                        excl.add(u[3] if u[2] == obj else u[2])
                if not {k1, k2} <= excl:
                    problems.append((f"`raise {show(e.term, it)[:40]}` (line {getattr(e.node, 'lineno', '?')}) refuses key columns whose kinds "
                                     f"differ even when one of them is object: an all-None key column (<object?>) against a typed one is an "
                                     f"admissible input and would be rejected", e.node))
            # the set of admitted kinds
            if t[0] == "cmp" and t[1] == "In" and not pol and t[3][0] == "tuple" and any(x[0] == "attr" and x[2] == "kind" for x in subterms(t[2])):
                names = {x[1] for x in t[3][1] if x[0] == "name"}
                missing = {"int", "str", "bool", "date", "object"} - names
                if missing:
                    problems.append((f"the admitted key kinds {sorted(names)} lack {sorted(missing)}", e.node))
    if n < 4:
        raise AnalysisError(f"_validate_join_keys: only {n} rejection(s) found")
    seen = set()
    problems = [p_ for p_ in problems if not (p_[0] in seen or seen.add(p_[0]))]
    ctx.ob(rule, f, "rejections", not problems, f"{n} rejections; schemas of key columns are consulted for their kind only", 
           problems[0][1] if problems else f.node, message="; ".join(p_ for p_, _ in problems[:2]))


def _validate_join_keys_shape(ctx) -> List[Tuple[str, ast.AST]]:
    """On the symx event log (helpers in line): the returned list receives, once per position of zip(left_on, right_on), the pair
    (self._resolve_column(<left spec>), other._resolve_column(<right spec>)); before it, both key columns are compared with their
    table's row count by a raise."""
    from ..sites2 import interp_of
    from ..symx import flatten_conds, subterms
    f = ctx.prog.func("table.Table._validate_join_keys")
    it = interp_of(ctx.prog, f)
    p = f.params  # self, other, left_on, right_on
    P = [("param", x) for x in p]
    rets = [e for e in it.events if e.kind == "return" and e.depth == 0]
    if len(rets) != 1 or rets[0].term[0] != "obj":
        return [("_validate_join_keys: cannot find the single returned list of (left_col, right_col) pairs", f.node)]
    pairs = rets[0].term
    apps = [e for e in it.events if e.kind == "call" and e.term[1] == ("attr", pairs, "append") and len(e.term[2]) == 1
            and e.term[2][0][0] == "tuple" and len(e.term[2][0][1]) == 2]
    apps += [e for e in it.events if e.kind == "elem" and e.term == pairs and e.value[0] == "tuple" and len(e.value[1]) == 2]
    if len(apps) != 1:
        return [("_validate_join_keys: cannot find the single `pairs.append((left_col, right_col))` / `return pairs`", f.node)]
    ap = apps[0]
    lcol, rcol = (ap.term[2][0][1] if ap.kind == "call" else ap.value[1])
    probs = []
    if not ap.loops:
        return [("_validate_join_keys: pair construction is not in a loop", ap.node)]
    lp = it.loops[ap.loops[-1]]
    dom = lp.domain
    mentions = lambda t, prm: any(x == prm for x in subterms(t))
    if not (dom is not None and dom[0] == "tuple" and len(dom[1]) == 2 and mentions(dom[1][0], P[2]) and not mentions(dom[1][0], P[3])
            and mentions(dom[1][1], P[3]) and not mentions(dom[1][1], P[2])):
        probs.append((f"_validate_join_keys pairs `{show(lp.iter, it)[:60]}`, expected zip({p[2]}, {p[3]})", lp.node))
        return probs
    lspec, rspec = ("elem", dom[1][0], lp.id), ("elem", dom[1][1], lp.id)
    if lcol != ("call", ("attr", P[0], "_resolve_column"), (lspec,), ()):
        probs.append((f"_validate_join_keys: first pair component `{show(lcol, it)[:60]}` is not the LEFT spec resolved in self", ap.node))
    if rcol != ("call", ("attr", P[1], "_resolve_column"), (rspec,), ()):
        probs.append((f"_validate_join_keys: second pair component `{show(rcol, it)[:60]}` is not the RIGHT spec resolved in other", ap.node))
    # length guards: a raise under len(left_col) != len(self), one under len(right_col) != len(other), before the pair is recorded
    ln = lambda t: ("call", ("name", "len"), (t,), ())
    guards = {"left": False, "right": False}
    for e in it.events:
        if e.kind != "raise" or lp.id not in e.loops or e.seq > ap.seq:
            continue
        fc = flatten_conds(e.conds)
        if not fc:
            continue
        c, pol = fc[-1]
        if c[0] == "cmp" and ((c[1] == "Eq" and not pol) or (c[1] == "NotEq" and pol)):
            if {c[2], c[3]} == {ln(lcol), ln(P[0])}:
                guards["left"] = True
            if {c[2], c[3]} == {ln(rcol), ln(P[1])}:
                guards["right"] = True
    if not all(guards.values()):
        probs.append((f"_validate_join_keys: key length guard missing for {[k for k, v in guards.items() if not v]} side", lp.node))
    return probs


def _resolve_column_shape(ctx) -> List[Tuple[str, ast.AST]]:
    f = ctx.prog.func("table.Table._resolve_column")
    spec = f.params[1]
    for s in f.body:
        if isinstance(s, ast.If) and short(s.test) == f"isinstance({spec}, str)":
            if len(s.body) == 1 and isinstance(s.body[0], ast.Return) and short(s.body[0].value) == f"self[{spec}]":
                return []
            return [(f"_resolve_column resolves a name by `{short(s.body[0], 60)}`, not by string indexing self[{spec}] "
                     f"(stored-name lookup, first occurrence)", s)]
    return [("_resolve_column: string branch not found", f.node)]


# --------------------------------------------------------------------------- b
def _is_row_scan(jm: JoinModel, L: int, side: str) -> bool:
    lp = jm.it.loops[L]
    return lp.range is not None and lp.range[0] == const(0) and lp.range[2] == const(1) and jm.rows_of(lp.range[1]) == side


def loops(ctx, jm: JoinModel) -> None:
    f, it = jm.f, jm.it
    problems: List[Tuple[str, ast.AST]] = []
    il, pl = it.loops[jm.index_loop], it.loops[jm.probe_loop]
    if not _is_row_scan(jm, il.id, "R") or il.kind != "for":
        problems.append((f"index loop ranges over `{jm.sh(il.iter)}`, not range(len({jm.p[1]}))", il.node))
    if not _is_row_scan(jm, pl.id, "L") or pl.kind != "for":
        problems.append((f"probe loop ranges over `{jm.sh(pl.iter)}`, not range(len({jm.p[0]}))", pl.node))
    if il.parents or pl.parents:
        problems.append(("the index / probe loop is nested in another loop", il.node if il.parents else pl.node))
    ie = jm.index_events
    probe_events = jm.events_in(pl.id)
    if ie and probe_events and max(e.seq for e in ie) > min(e.seq for e in probe_events):
        problems.append(("the probe loop runs before the index is complete", pl.node))
    row = ("idx", il.id)
    key = None
    stores, appends = [], []
    for e in ie:
        if il.id not in e.loops:
            problems.append((f"the index or a bucket is modified outside the index loop (`{jm.sh(e.term)}`)", e.node))
            continue
        if e.kind == "store":
            stores.append(e)
        elif e.kind == "call" and e.term[1][2] == "append" and jm._is_bucket_term(e.term[1][1]):
            appends.append(e)
        elif e.kind == "call" and e.term[1][1] == jm.index and e.term[1][2] == "setdefault":
            continue            # the receiver of the .append checked below
        else:
            m = e.term[1][2] if e.kind == "call" else e.kind
            problems.append((f"bucket order/content or the index is changed by `{m}` (right-minor order is lost)", e.node))
    setdefault_form = [a for a in appends if a.term[1][1][0] == "call" and a.term[1][1][1][2] == "setdefault"]
    if setdefault_form and not stores:
        if len(appends) != 1:
            problems.append((f"expected exactly one bucket.append(row) in the index loop, found {len(appends)}", il.node))
        a = appends[0]
        sd = a.term[1][1]
        dflt = sd[2][1] if len(sd[2]) == 2 else None
        okd = dflt is not None and dflt[0] == "obj" and it.objs[dflt[1]].kind == "list" and not it.objs[dflt[1]].init
        if not okd:
            problems.append(("setdefault does not start a missing bucket as an empty list", a.node))
        if a.term[2] != (row,):
            problems.append((f"bucket receives `{jm.sh(a.term[2][0]) if a.term[2] else '?'}`, not the row index", a.node))
        if jm.conds_inside(a, il.id):
            problems.append((f"a right row is indexed only under `{show_conds(jm.conds_inside(a, il.id), it)[:80]}`: some right rows would "
                             f"not be indexed (e.g. keys containing None) although they are key-equal to left rows", a.node))
    else:
        if len(stores) != 1 or len(appends) != 1:
            problems.append((f"expected one first-sight store `index[key] = [row]` and one `bucket.append(row)` in the index loop, "
                             f"found {len(stores)} store(s) / {len(appends)} append(s)", il.node))
        else:
            st_, ap = stores[0], appends[0]
            v = st_.value
            if not (v[0] == "obj" and it.objs[v[1]].kind == "list" and it.objs[v[1]].init == (row,)):
                problems.append((f"a new bucket starts as `{jm.sh(v)}`, not [row index]", st_.node))
            if ap.term[2] != (row,):
                problems.append((f"bucket receives `{jm.sh(ap.term[2][0]) if ap.term[2] else '?'}`, not the row index", ap.node))
            c1, c2 = jm.conds_inside(st_, il.id), jm.conds_inside(ap, il.id)
            okfs = len(c1) == 1 and len(c2) == 1 and c1[0][0] == c2[0][0] and c1[0][1] != c2[0][1] and _first_sight(jm, c1[0])
            if not okfs:
                extra = [c for c in c1 if not _first_sight(jm, c)] + [c for c in c2 if not _first_sight(jm, (c[0], not c[1]))]
                if extra:
                    problems.append((f"a right row is indexed only under `{show_conds(extra, it)[:90]}`: some right rows would not be "
                                     f"indexed (e.g. keys containing None) although they are key-equal to left rows", st_.node))
                else:
                    problems.append((f"a new bucket is not created exactly when the key has no bucket yet: store under "
                                     f"`{show_conds(c1, it)[:70]}`, append under `{show_conds(c2, it)[:70]}`", st_.node))
    if il.breaks or il.returns:
        problems.append(("break/return in the index loop: some right rows would not be indexed", il.node))
    # matched rows are emitted over the bucket itself, in stored order
    for lp in jm.bucket_wrapped:
        problems.append((f"matched rows are emitted over `{jm.sh(lp.iter)}`, not over the bucket in stored order "
                         f"(right-minor order is lost)", lp.node))
    for e in it.events:
        if e.kind == "call" and callee(e.term) in ("sorted", "reversed", "set", "frozenset") and e.term[2] and e.term[2][0] == jm.bucket:
            problems.append((f"a bucket is passed through {callee(e.term)}() before emission (right-minor order is lost)", e.node))
    seen = set()
    problems = [p for p in problems if not (p[0] in seen or seen.add(p[0]))]
    ctx.ob("b.loops", f, "loops", not problems, f"{jm.variant}: index over all right rows, probe over all left rows, "
           f"buckets ascending and emitted in stored order", problems[0][1] if problems else f.node,
           message=f"{jm.variant}: " + "; ".join(p for p, _ in problems))


def _first_sight(jm: JoinModel, c) -> bool:
    """Is c (term, polarity) the statement `this key has no bucket yet` for the key of the row being indexed?"""
    t, pol = c
    key_ok = lambda k: jm.key_of(k) == ("R", ("idx", jm.index_loop))
    if t[0] == "cmp" and t[1] == "Is" and t[3] == NONE and pol:
        b = t[2]
        return b[0] == "call" and b[1] == ("attr", jm.index, "get") and len(b[2]) == 1 and key_ok(b[2][0])
    if t[0] == "cmp" and t[1] == "In" and t[3] == jm.index and not pol:
        return key_ok(t[2])
    if t[0] == "call" and t[1] == ("attr", jm.index, "get") and len(t[2]) == 1 and not pol:
        return key_ok(t[2][0])      # buckets are never empty
    return False


# --------------------------------------------------------------------------- c
def buffers(ctx, jm: JoinModel, want_contexts=None, rule: str = "c.buffers") -> None:
    f, it = jm.f, jm.it
    problems: List[Tuple[str, ast.AST]] = []
    if jm.T != TOTAL:
        problems.append((f"result buffers are sized `{lin_show(jm.T)}`, expected n_left_cols + n_right_cols", jm.RD_ev.node))
    ems = jm.emissions()
    if not ems:
        problems.append(("no append into the result buffers found", f.node))
    groups: Dict[Tuple[str, Optional[int]], List[Emission]] = {}
    for a in ems:
        if a.context == "?":
            problems.append((f"result rows are emitted outside the matched / unmatched-left / sweep blocks (`{jm.sh(a.ev.term)[:70]}` under "
                             f"`{show_conds(a.extra, it)[:60]}`): output is no longer one row per pair in left-major order", a.node))
            continue
        groups.setdefault((a.context, a.row_loop), []).append(a)
        if a.block == "?":
            problems.append((f"buffers [{lin_show(a.start)} .. +{lin_show(a.count)}) written per emitted row are neither the LEFT block "
                             f"[0, n_left) nor the RIGHT block [n_left, n_left + n_right): {a.value_detail}", a.node))
        if a.context == "matched" and a.block != "?":
            if a.value != f"{a.block}-ROW":
                problems.append((f"{a.block} buffers receive {a.value} ({a.value_detail}); must receive the "
                                 f"{a.block.lower()} row's value of the same column", a.node))
            if not a.depth_ok:
                problems.append(("the per-column fill is not a direct child of the bucket loop (once per matched pair)", a.node))
            if a.extra:
                problems.append((f"append inside the bucket loop is conditional on `{show_conds(a.extra, it)[:70]}`", a.node))
    for (context, _), lst in groups.items():
        sides = sorted(a.block for a in lst)
        if sides != ["LEFT", "RIGHT"]:
            problems.append((f"an emitted row in the {context} block writes buffer blocks {sides}; every emitted row must write "
                             f"each LEFT and each RIGHT column exactly once", lst[0].node))
    ctxs = {c for c, _ in groups}
    if want_contexts is not None and not set(want_contexts) <= ctxs:
        problems.append((f"emission blocks found: {sorted(ctxs)}, expected {list(want_contexts)}", f.node))
    if want_contexts is not None and ctxs - set(want_contexts):
        problems.append((f"unexpected emission blocks {sorted(ctxs - set(want_contexts))}", f.node))
    seen = set()
    problems = [p for p in problems if not (p[0] in seen or seen.add(p[0]))]
    ctx.ob(rule, f, "buffers", not problems,
           f"{jm.variant}: {len(ems)} append site(s) in blocks {sorted(ctxs)} obey LEFT<->left-row / RIGHT<->right-row",
           problems[0][1] if problems else f.node, message=f"{jm.variant}: " + "; ".join(p for p, _ in problems))


def _probe_conds(jm: JoinModel, a: Emission) -> Tuple:
    """Conditions, established inside the probe loop, under which emission `a` happens (the context's own guard included)."""
    it = jm.it
    base = len(it.loops[jm.probe_loop].conds)
    return jm.meaningful(a.ev.conds[base:])


# --------------------------------------------------------------------------- d
def inner_unmatched(ctx, jm: JoinModel) -> None:
    f, it = jm.f, jm.it
    problems: List[Tuple[str, ast.AST]] = []
    pl = it.loops[jm.probe_loop]
    if pl.returns:
        problems.append(("the probe loop can return early", pl.node))
    if pl.breaks:
        problems.append(("the probe loop can stop early (break): later left rows are dropped", pl.node))
    if len(jm.matched_loops) != 1:
        problems.append((f"expected one emission loop over the bucket, found {len(jm.matched_loops)}", pl.node))
    for a in jm.emissions():
        if a.context != "matched":
            continue
        for c in _probe_conds(jm, a):
            if not jm.is_bucket_nonempty_test(c):
                problems.append((f"a left row is skipped / matched pairs are emitted only under `{show_conds([c], it)[:80]}`; only a key "
                                 f"without bucket may be skipped", a.node))
    seen = set()
    problems = [p for p in problems if not (p[0] in seen or seen.add(p[0]))]
    ctx.ob("d.unmatched", f, "skip-policy", not problems, "inner_join skips exactly the left rows whose key has no bucket",
           problems[0][1] if problems else f.node, message="inner_join: " + "; ".join(p for p, _ in problems))


# --------------------------------------------------------------------------- e
def wrap(ctx, jm: JoinModel, rule: str = "e.wrap") -> None:
    f, it = jm.f, jm.it
    problems: List[Tuple[str, ast.AST]] = []
    rets = [e for e in it.events if e.kind == "return" and e.depth == 0]
    final = max(rets, key=lambda e: e.seq) if rets else None
    t = final.term if final is not None else None

    def parts_of(x):
        """list objects concatenated with + (in order)"""
        if x[0] == "obj":
            return [x]
        if x[0] == "bin" and x[1] == "Add":
            a, b = parts_of(x[2]), parts_of(x[3])
            return a + b if a is not None and b is not None else None
        if x[0] == "call" and x[1] in (("name", "list"), ("name", "tuple")) and len(x[2]) == 1:
            return parts_of(x[2][0])
        return None
    rcs = parts_of(t[2][0]) if (t is not None and t[0] == "call" and t[1] == ("name", "Table") and len(t[2]) == 1 and not t[3]) else None
    if not rcs:
        ctx.ob(rule, f, "wrap", False, "final return is not Table(<result columns>)", final.node if final else f.node,
               message=f"{jm.variant}: final return is not Table(<list of result columns>) (`{jm.sh(t) if t else '?'}`)")
        return
    segs = []
    all_elements = []
    for rc in rcs:
        o = it.objs[rc[1]]
        if o.init:
            problems.append(("the result column list does not start empty", o.node))
        own = [(rc, e) for e in elements(it, rc) if not (e.kind == "call" and e.term[1][0] == "attr" and e.term[1][2] == "extend")]
        extended = []
        for e in it.events:
            if e.kind == "call" and e.term[1][0] == "attr" and e.term[1][1] == rc and e.term[1][2] != "append":
                g = e.term[2][0] if len(e.term[2]) == 1 and not e.term[3] else None
                if e.term[1][2] == "extend" and g is not None and g[0] == "obj" and it.objs[g[1]].kind in ("genexp", "listcomp") \
                        and tuple(e.conds) == tuple(o.conds):
                    # result_cols.extend(Vector(...) for ... in ...): every element of the comprehension is appended, in order
                    extended += [(g, x) for x in elements(it, g)]
                    continue
                problems.append((f"result column list is modified by .{e.term[1][2]}()", e.node))
        all_elements += own + extended
    for rc, e in all_elements:
        o = it.objs[rc[1]]
        v = e.value if e.kind == "elem" else (e.term[2][0] if e.kind == "call" and len(e.term[2]) == 1 else None)
        if e.kind == "store" or v is None:
            problems.append(("result column list is written by index", e.node))
            continue
        extra = e.conds[len(o.conds):]
        if extra:
            problems.append((f"a result column is added only under `{show_conds(extra, it)[:60]}`", e.node))
        if not (v[0] == "call" and v[1] == ("name", "Vector")):
            problems.append((f"a result column is `{jm.sh(v)}`, not a Vector(...) over its buffer", e.node))
            continue
        data = v[2][0] if v[2] else kw(v, "initial")
        nm = kw(v, "name") if kw(v, "name") is not None else (v[2][2] if len(v[2]) >= 3 else None)
        dt = kw(v, "dtype") if kw(v, "dtype") is not None else (v[2][1] if len(v[2]) >= 2 else None)
        b = jm.bufelem(data) if data is not None else None
        if b is None or b[0] != "buf" or b[1] is None or b[2] is None or b[2] not in e.loops:
            problems.append((f"a result column wraps `{jm.sh(data) if data is not None else '?'}`, not its own result buffer", e.node))
            continue
        L = b[2]
        cnt = jm.count(L)
        sides = None
        if nm is not None and nm[0] == "attr" and nm[2] == "_name" and nm[1][0] == "elem" and nm[1][2] == L:
            sides = jm.colseq(nm[1][1])
        if sides is None:
            problems.append((f"a result column is named `{jm.sh(nm) if nm is not None else 'nothing'}`, not the stored name of the source "
                             f"column at the same position", e.node))
            continue
        if dt is not None:
            problems.append((f"a result column is given an explicit dtype `{jm.sh(dt)}`; join results must be typed by inference over "
                             f"their values (None padding!)", e.node))
        segs.append((b[1], cnt, sides, e))
    pos = ZERO
    order: List[str] = []
    for start, cnt, sides, e in segs:
        want = ZERO
        for sd in sides:
            want = lin_add(want, NL if sd == "L" else NR)
        if start != pos:
            problems.append((f"result columns {sides} wrap buffers from position {lin_show(start)}, expected {lin_show(pos)}: buffer i must "
                             f"become result column i", e.node))
        if cnt != want:
            problems.append((f"{lin_show(cnt)} buffers are wrapped for the {sides} source columns", e.node))
        pos = lin_add(start, cnt) if cnt is not None else None
        order += sides
    if order != ["L", "R"] or pos != TOTAL:
        problems.append((f"result columns are wrapped in order {order} up to position {lin_show(pos)}, expected all LEFT then all RIGHT "
                         f"columns over all n_left + n_right buffers", final.node))
    seen = set()
    problems = [p for p in problems if not (p[0] in seen or seen.add(p[0]))]
    ctx.ob(rule, f, "wrap", not problems, f"{jm.variant}: columns wrapped left-then-right under source names, dtype inferred",
           problems[0][1] if problems else final.node, message=f"{jm.variant}: " + "; ".join(p for p, _ in problems))


# --------------------------------------------------------------------------- f
def determinism_of_function(prog, f) -> List[Tuple[str, ast.AST]]:
    """R-DET: no iteration over a set-typed expression; no hash()/id() used as data."""
    problems = []
    d = Defs(f)
    set_names = set()
    for name, lst in d.assigns.items():
        for v, st, how in lst:
            if v is None:
                continue
            if isinstance(v, (ast.Set, ast.SetComp)) or (isinstance(v, ast.Call) and isinstance(v.func, ast.Name)
                                                         and v.func.id in ("set", "frozenset")):
                if how == "assign":
                    set_names.add(name)

    def is_set_expr(e: ast.AST) -> bool:
        if isinstance(e, (ast.Set, ast.SetComp)):
            return True
        if isinstance(e, ast.Call) and isinstance(e.func, ast.Name) and e.func.id in ("set", "frozenset"):
            return True
        if isinstance(e, ast.Name) and e.id in set_names:
            return True
        if isinstance(e, ast.BinOp) and isinstance(e.op, (ast.BitOr, ast.BitAnd, ast.Sub, ast.BitXor)):
            return is_set_expr(e.left) or is_set_expr(e.right)
        return False

    for n in walk_no_nested(f.node):
        if isinstance(n, (ast.For, ast.AsyncFor)) and is_set_expr(n.iter):
            problems.append((f"iteration over a set `{short(n.iter, 50)}`: order depends on the hash seed", n))
        if isinstance(n, (ast.ListComp, ast.GeneratorExp, ast.DictComp)):
            for g in n.generators:
                if is_set_expr(g.iter):
                    problems.append((f"comprehension over a set `{short(g.iter, 50)}`: order depends on the hash seed", n))
        if isinstance(n, ast.Call) and isinstance(n.func, ast.Name) and n.func.id in ("list", "tuple", "next", "iter", "enumerate", "zip") \
                and any(is_set_expr(a) for a in n.args):
            problems.append((f"`{short(n, 60)}` materialises a set in hash order", n))
        if isinstance(n, ast.Call) and isinstance(n.func, ast.Attribute) and n.func.attr == "pop" and is_set_expr(n.func.value):
            problems.append((f"`{short(n, 60)}` takes an arbitrary element of a set", n))
        if isinstance(n, ast.Call) and isinstance(n.func, ast.Name) and n.func.id in ("hash", "id"):
            par = prog.parent(n)
            # allowed: hash(x) as a bare statement inside try (hashability probe)
            if isinstance(par, ast.Expr):
                continue
            problems.append((f"`{short(n, 40)}` is used as data: results may depend on the hash seed / addresses", n))
        if isinstance(n, ast.Call) and isinstance(n.func, ast.Attribute) and n.func.attr in ("fingerprint", "__hash__") and not n.args:
            par = prog.parent(n)
            if isinstance(par, ast.Expr):
                continue
            problems.append((f"`{short(n, 40)}` is used as data: a fingerprint stands in for the contents, but unequal contents can have "
                             f"equal fingerprints (hash(-1) == hash(-2)) - rows would be paired by a stale or foreign index", n))
    return problems


def _new_helpers(prog, f, seen=None) -> List:
    """functions outside the reference vocabulary that f calls (transitively)"""
    from ..symx import baseline_functions
    base = baseline_functions()
    seen = {} if seen is None else seen
    for c in prog.calls_in(f):
        try:
            kind, tgt = prog.resolve_call(f, c)
        except Exception:
            continue
        if tgt is None or isinstance(tgt.node, ast.Lambda) or tgt.qualname in base or tgt.qualname in seen:
            continue
        seen[tgt.qualname] = tgt
        _new_helpers(prog, tgt, seen)
    return list(seen.values())


def determinism(ctx, jf, rule: str = "f.determinism") -> None:
    """jf: a JoinModel or the name of a join variant (the rule does not need the model: it must also speak when the join has been
    restructured beyond it)."""
    if isinstance(jf, str):
        class _J:
            pass
        j = _J()
        j.f = ctx.prog.func(f"table.Table.{jf}")
        j.variant = jf
        jf = j
    fns = [jf.f, ctx.prog.func("table.Table._validate_join_keys"),
           ctx.prog.func("table.Table._validate_key_tuple_hashable"), ctx.prog.func("table.Table._resolve_column")]
    fns += [g for g in _new_helpers(ctx.prog, jf.f) if g not in fns]
    problems = []
    for f in fns:
        for msg, node in determinism_of_function(ctx.prog, f):
            problems.append((f"{f.name}: {msg}", node, f))
    ctx.ob(rule, jf.f, "determinism", not problems, f"{jf.variant} and helpers: no set iteration, no hash()/id() as data",
           problems[0][1] if problems else jf.f.node, message=f"{jf.variant}: " + "; ".join(p for p, _, _ in problems))


# --------------------------------------------------------------------------- g
def content_writes(prog, qualname: str, allow_self: bool = False):
    eff = effects_of(prog)
    s = eff.summary(qualname)
    out = []
    for w in s.writes:
        if w.kind == "cache":
            continue
        if allow_self and w.root == "self":
            continue
        out.append(w)
    return sorted(out, key=lambda w: (w.func, w.line, w.fld))


def purity(ctx, variant: str, rule: str = "g.purity") -> None:
    f = ctx.prog.func(f"table.Table.{variant}")
    ws = content_writes(ctx.prog, f.qualname)
    msg = "; ".join(f"writes {w.root}.{w.fld} at {w.func.split('.')[-1]}:{w.line} `{w.text}`" for w in ws[:4])
    ctx.ob(rule, f, "purity", not ws, f"{variant}: no content write on self/other (transitively)", f.node,
           message=f"{variant} modifies its operands: {msg}")


# --------------------------------------------------------------------------- h
def _canon(stmts: List[ast.stmt], drop=lambda s: False) -> str:
    """Alpha-normalised dump of a statement list (names numbered by first occurrence)."""
    import copy
    names: Dict[str, str] = {}

    class R(ast.NodeTransformer):
        def visit_Name(self, n):
            if n.id not in names:
                names[n.id] = f"v{len(names)}"
            return ast.copy_location(ast.Name(id=names[n.id], ctx=n.ctx), n)
    out = []
    for s in stmts:
        if drop(s):
            continue
        s2 = R().visit(copy.deepcopy(s))
        out.append(ast.unparse(s2))
    return "\n".join(out)


_PURE_ITER = {"enumerate", "zip", "range", "len", "iter", "reversed"}


def matched_set_add(jm: JoinModel, e: Event) -> bool:
    """<some set>.add(<the bucket element of this pair>)  - or  <some set>.update(<the whole bucket>) for the probed left row"""
    t = e.term
    if not (e.kind == "call" and t[1][0] == "attr" and t[1][1][0] == "obj" and jm.it.objs[t[1][1][1]].kind == "set" and len(t[2]) == 1):
        return False
    if t[1][2] == "add":
        return t[2][0][0] == "elem" and t[2][0][1] == jm.bucket and t[2][0][2] in jm.matched_loops
    if t[1][2] == "update":
        return t[2][0] == jm.bucket and jm.probe_loop in e.loops
    return False


def matched_facts(jm: JoinModel):
    """Fact tuple of the matched-pair emission (independent of spelling, loop and append idiom)."""
    if not jm.matched_loops:
        return None
    ems = [a for a in jm.emissions() if a.context == "matched"]
    facts = sorted((a.block, a.value, a.depth_ok, show_conds(a.extra, jm.it)) for a in ems)
    em_ids = {id(a.ev) for a in ems}
    other = 0
    for L in jm.matched_loops:
        for e in jm.events_in(L):
            if id(e) in em_ids or e.kind != "call" or jm.infeasible(e):
                continue
            if callee(e.term) in _PURE_ITER or matched_set_add(jm, e):
                continue
            other += 1
    return {"appends": facts, "other_effects": other, "n_bucket_loops": len(jm.matched_loops)}


def matched_block(jm: JoinModel):
    return jm.it.loops[jm.matched_loops[0]].node if jm.matched_loops else None


def siblings(ctx, facts: Dict[str, JoinModel]) -> None:
    if "inner_join" not in facts:
        raise AnalysisError("sibling comparison needs inner_join's facts")
    ref = matched_facts(facts["inner_join"])
    if ref is None:
        raise AnalysisError("inner_join: matched emission block not found")
    for v, jm in facts.items():
        if v == "inner_join":
            continue
        mf = matched_facts(jm)
        ctx.ob("h.siblings", jm.f, "matched-block", mf == ref, f"{v}: matched emission facts equal inner_join's: {mf}",
               matched_block(jm) or jm.f.node,
               message=f"{v}: the matched-pair emission differs from inner_join's (inner ⊆ left ⊆ full is no longer "
                       f"structural): inner_join {ref} vs {v} {mf}")


def no_early_result(ctx, jm: JoinModel, rule: str) -> None:
    """Every `return` of a join comes after the index and probe loops (and the sweep): no fast path can bypass emission,
    padding or the cardinality checks that live in the loops."""
    f, it = jm.f, jm.it
    problems = []
    from ..symx import show_conds as _show_conds
    for e, nm in jm.rebinds:
        problems.append((f"`{nm}` is bound again to fresh empty buffers (line {e.node.lineno}"
                         + (f", when {_show_conds(e.conds[-1:], it)[:80]}" if e.conds else "") + "): the rows emitted into the buffers "
                         "created first are dropped", e.node))
    named = [(jm.index_loop, "index"), (jm.probe_loop, "probe")] + ([(jm.sweep_loop, "sweep")] if jm.sweep_loop is not None else [])
    for L, nm in named:
        if it.loops[L].returns:
            problems.append((f"a `return` inside the {nm} loop ends the join before all rows are processed", it.loops[L].node))
    last = {nm: max((e.seq for e in jm.events_in(L)), default=0) for L, nm in named}
    for e in it.events:
        if e.kind != "return" or e.depth != 0:
            continue
        for L, nm in named:
            if L in e.loops:
                break
            if e.seq < last[nm]:
                problems.append((f"`return {jm.sh(e.term)[:50]}` (line {e.node.lineno}) can return without running the {nm} loop: rows, None "
                                 f"padding and the uniqueness checks performed there are bypassed", e.node))
                break
    ctx.ob(rule, f, "returns", not problems, f"{jm.variant}: every return follows the index, probe (and sweep) loops",
           problems[0][1] if problems else f.node, message=f"{jm.variant}: " + "; ".join(p for p, _ in problems[:2]))
    # a return that does not hand out the filled buffers must be the EMPTY result, under a condition that implies that no row was
    # emitted: inner - a table without rows or empty buffers; left - no left rows; full - no rows on EITHER side
    from ..symx import dnf, subterms
    rets = [e for e in it.events if e.kind == "return" and e.depth == 0]
    final = max(rets, key=lambda e: e.seq) if rets else None
    after = max(last.values()) if last else 0
    probs2 = []
    n_guards = 0

    def zero_rows(t, pol):
        """'L' / 'R' if the literal says that side has no rows"""
        if t[0] == "cmp" and t[1] == "Eq" and pol:
            for a, b in ((t[2], t[3]), (t[3], t[2])):
                if b == const(0) and jm.rows_of(a):
                    return jm.rows_of(a)
        if not pol and jm.rows_of(t):
            return jm.rows_of(t)
        return None

    def buffers_empty(t, pol) -> bool:
        if not (t[0] == "call" and t[1][0] == "name" and ((t[1][1] == "all" and pol) or (t[1][1] == "any" and not pol))):
            return False
        return any(jm.bufseq(x) is not None for x in subterms(t)) or any(
            x[0] == "obj" and any(jm.bufseq(lp.iter) is not None for lp in it.loops.values()
                                  if lp.iter is not None and any(e.kind == "elem" and e.term == x and lp.id in e.loops for e in it.events))
            for x in subterms(t))
    for e in rets:
        if e is final or e.seq < after:
            continue
        n_guards += 1
        t = e.term
        empty = t[0] == "call" and t[1] == ("name", "Table") and not t[3] and (
            not t[2] or (len(t[2]) == 1 and ((t[2][0][0] == "tuple" and not t[2][0][1])
                                             or (t[2][0][0] == "obj" and not it.objs[t[2][0][1]].init and not elements(it, t[2][0])))))
        if not empty:
            probs2.append((f"`return {jm.sh(t)[:50]}` (line {e.node.lineno}) returns something else than the filled result buffers", e.node))
            continue
        classes = dnf(e.conds)
        if classes is None:
            raise AnalysisError(f"{f.qualname}: the condition of the empty-result return has too many cases")
        for cl in classes:
            sides = {zero_rows(t_, pol) for t_, pol in cl} - {None}
            be = any(buffers_empty(t_, pol) for t_, pol in cl)
            ok = be or (jm.variant == "inner_join" and bool(sides)) or (jm.variant == "join" and "L" in sides) \
                or (jm.variant == "full_join" and sides == {"L", "R"})
            if not ok:
                probs2.append((f"the empty table is returned (line {e.node.lineno}) when `{show_conds(sorted(cl, key=str), it)[:90]}`: "
                               f"that does not imply an empty result - the rows already collected are dropped", e.node))
    ctx.ob(rule, f, "empty-result", not probs2, f"{jm.variant}: {n_guards} empty-result return(s), each only when no row can have been emitted",
           probs2[0][1] if probs2 else f.node, message=f"{jm.variant}: " + "; ".join(p for p, _ in probs2[:2]))


# --------------------------------------------------------------------------- C10
def left_complete(ctx, jm: JoinModel) -> None:
    """C10.a: every left row emits at least one result row, at its own position."""
    f, it = jm.f, jm.it
    problems: List[Tuple[str, ast.AST]] = []
    pl = it.loops[jm.probe_loop]
    if pl.breaks or pl.returns:
        problems.append(("break/return in the probe loop: a left row (or all later ones) can be dropped without emitting", pl.node))
    ems = jm.emissions()
    m = [a for a in ems if a.context == "matched"]
    u = [a for a in ems if a.context == "unmatched-left"]
    if not m:
        problems.append(("no emission once per bucket element (matched pairs)", pl.node))
    if not u:
        problems.append(("an unmatched left row emits nothing: no padded row is written when the key has no bucket", pl.node))
    for a in m:
        cs = _probe_conds(jm, a)
        bad = [c for c in cs if not jm.is_bucket_nonempty_test(c)]
        if bad:
            problems.append((f"matched pairs of a left row are emitted only under `{show_conds(bad, it)[:80]}`: the row can be dropped "
                             f"without emitting", a.node))
    for a in u:
        if a.extra:
            problems.append((f"padding of an unmatched left row is conditional on `{show_conds(a.extra, it)[:80]}`: the row can be "
                             f"dropped without emitting", a.node))
        if not a.depth_ok:
            problems.append(("the padded row is not written directly in the probe iteration (once per unmatched left row)", a.node))
    seen = set()
    problems = [p for p in problems if not (p[0] in seen or seen.add(p[0]))]
    ctx.ob("a.left-complete", f, "left-rows", not problems,
           f"{jm.variant}: every probe iteration emits (matched: once per bucket element; unmatched: one padded row)",
           problems[0][1] if problems else f.node, message=f"{jm.variant}: " + "; ".join(p for p, _ in problems))


def padding(ctx, jm: JoinModel) -> None:
    """C10.b: unmatched-left rows: LEFT <- left row values, RIGHT <- None once per right column."""
    f, it = jm.f, jm.it
    problems: List[Tuple[str, ast.AST]] = []
    apps = [a for a in jm.emissions() if a.context == "unmatched-left"]
    lefts = [a for a in apps if a.block == "LEFT"]
    rights = [a for a in apps if a.block == "RIGHT"]
    if len(lefts) != 1 or len(rights) != 1 or len(apps) != 2:
        problems.append((f"unmatched-left block has {len(lefts)} LEFT and {len(rights)} RIGHT fill(s) "
                         f"({len(apps)} total); expected exactly one of each over all columns of its side", (apps[0].node if apps else jm.loop_node(jm.probe_loop))))
    for a in lefts:
        if a.value != "LEFT-ROW":
            problems.append((f"unmatched left row: LEFT buffers receive {a.value} ({a.value_detail}); "
                             f"must be the left row's own values over all left columns", a.node))
    for a in rights:
        if a.value != "NONE":
            problems.append((f"unmatched left row: RIGHT buffers receive {a.value} ({a.value_detail}); "
                             f"must be None once per right column", a.node))
    ctx.ob("b.padding", f, "unmatched-left", not problems, f"{jm.variant}: unmatched left row = left values + None per right column",
           problems[0][1] if problems else f.node, message=f"{jm.variant}: " + "; ".join(p for p, _ in problems))


def sweep(ctx, jm: JoinModel) -> None:
    """C10.c: full join appends every right row that matched nothing, in right-table order."""
    f, it = jm.f, jm.it
    problems: List[Tuple[str, ast.AST]] = []
    adds = [e for e in it.events if matched_set_add(jm, e)]
    msets = {e.term[1][1] for e in adds}
    M = None
    if len(msets) != 1:
        problems.append(("no set records the right row of every emitted pair (an `add(right_idx)` directly in the "
                         "matched emission loop)", matched_block(jm) or jm.loop_node(jm.probe_loop)))
    else:
        M = msets.pop()
        for e in adds:
            if e.term[1][2] == "update":
                # the whole bucket is recorded for the probed row: exactly under the matched guard, once per probe iteration
                inside = jm.meaningful(e.conds[len(it.loops[jm.probe_loop].conds):])
                if e.loops[-1] != jm.probe_loop or any(not jm.is_bucket_nonempty_test(c) for c in inside):
                    problems.append(("the right rows of a matched left row are recorded only conditionally", e.node))
                continue
            row_loop = e.term[2][0][2]
            if jm.meaningful(e.conds[len(it.loops[row_loop].conds):]) or e.loops[-1] != row_loop:
                problems.append(("the right row of an emitted pair is recorded only conditionally", e.node))
        for e in it.events:
            if e.kind == "call" and e.term[1][0] == "attr" and e.term[1][1] == M and not matched_set_add(jm, e) \
                    and e.term[1][2] not in ("__contains__", "__len__", "copy"):
                problems.append((f"the matched set is modified by .{e.term[1][2]}({jm.sh(e.term[2][0])[:30] if e.term[2] else ''}) "
                                 f"outside the per-pair record", e.node))
    if jm.sweep_loop is None:
        problems.append(("no sweep loop over the right rows (range(len(other))) that writes result rows after the probe loop", f.node))
    if M is not None and jm.sweep_loop is not None:
        sl = it.loops[jm.sweep_loop]
        if not _is_row_scan(jm, sl.id, "R"):
            problems.append((f"the sweep ranges over `{jm.sh(sl.iter)}`, not range(len({jm.p[1]})): unmatched right rows "
                             f"would not come out in right-table order (or not all of them)", sl.node))
        sweep_events = jm.events_in(sl.id)
        probe_events = jm.events_in(jm.probe_loop)
        if sweep_events and probe_events and min(e.seq for e in sweep_events) < max(e.seq for e in probe_events):
            problems.append(("the sweep runs before the probe loop", sl.node))
        if sl.breaks or sl.returns:
            problems.append(("break/return in the sweep: later unmatched right rows are dropped", sl.node))
        want = ((("cmp", "In", ("idx", sl.id), M), False),)
        apps = [a for a in jm.emissions() if a.context == "sweep"]
        for a in apps:
            if tuple(a.extra) != want:
                problems.append((f"the sweep emits under `{show_conds(a.extra, it)[:80]}`, expected exactly `row not in <matched set>`", a.node))
            if not a.depth_ok:
                problems.append(("the swept row is not written directly in the sweep iteration", a.node))
        lefts = [a for a in apps if a.block == "LEFT"]
        rights = [a for a in apps if a.block == "RIGHT"]
        if len(lefts) != 1 or len(rights) != 1 or len(apps) != 2:
            problems.append((f"sweep block has {len(lefts)} LEFT / {len(rights)} RIGHT fill(s), expected one of each",
                             apps[0].node if apps else sl.node))
        for a in lefts:
            if a.value != "NONE":
                problems.append((f"sweep: LEFT buffers receive {a.value} ({a.value_detail}); must be None once per left column", a.node))
        for a in rights:
            if a.value != "RIGHT-ROW":
                problems.append((f"sweep: RIGHT buffers receive {a.value} ({a.value_detail}); must be "
                                 f"the swept right row's values over all right columns", a.node))
    seen = set()
    problems = [p for p in problems if not (p[0] in seen or seen.add(p[0]))]
    ctx.ob("c.sweep", f, "sweep", not problems, "full_join: matched right rows recorded per emitted pair; sweep over all right "
           "rows in order emits exactly the unrecorded ones with None in every left column",
           problems[0][1] if problems else f.node, message="full_join: " + "; ".join(p for p, _ in problems))
